Require Import VersionGen.
From Coq Require Import ZArith Lia Bool ZifyBool.
Open Scope Z_scope.
Ltac crush := intros; repeat match goal with v : ver |- _ => destruct v as [[? ?] ?] end;
  unfold ver_newer, ver_lt, ver_gt, ver_le, ver_ge, ver_ne, ver_eq, dsg, imp, bug in *;
  repeat match goal with
         | |- context[if ?c then _ else _] => destruct c eqn:?
         | H : context[if ?c then _ else _] |- _ => destruct c eqn:?
         end; try discriminate; try lia.
Definition lex (a b : ver) : Prop :=
  dsg a < dsg b \/ (dsg a = dsg b /\ (imp a < imp b \/ (imp a = imp b /\ bug a <= bug b))).
Lemma le_lex a b : ver_le a b = true <-> lex a b.           Proof. unfold lex; crush. Qed.
Lemma le_total a b : ver_le a b = true \/ ver_le b a = true. Proof. crush. Qed.
Lemma le_trans a b c : ver_le a b = true -> ver_le b c = true -> ver_le a c = true. Proof. crush. Qed.
Lemma le_antisym a b : ver_le a b = true -> ver_le b a = true -> ver_eq a b = true. Proof. crush. Qed.
Lemma eq_iff a b : ver_eq a b = true <-> a = b.
Proof. split; [crush; f_equal; try f_equal; lia | intros ->; crush]. Qed.
Lemma ge_le a b : ver_ge a b = ver_le b a.                  Proof. crush. Qed.
Lemma ne_eq a b : ver_ne a b = negb (ver_eq a b).            Proof. crush. Qed.
Lemma gt_def a b : ver_gt a b = ver_ge a b && ver_ne a b.    Proof. crush. Qed.
Lemma lt_def a b : ver_lt a b = ver_le a b && ver_ne a b.    Proof. crush. Qed.
Lemma newer_lt a b : ver_newer a b = ver_lt b a.            Proof. crush. Qed.
Print Assumptions le_trans.
