'''Spike of the correspondence pipeline: random scheduler states -> real
dawgie.pl.schedule.next_job_batch()  vs  Batch.v `batch` evaluated by coqc/vm_compute.
Writes cases to a temp dir, compiles Batch.v there, prints the number of agreeing cases.'''
import os, random, re, shutil, subprocess, sys, tempfile
sys.path.insert(0, '/verif/notes/probes')
import engine
import dawgie, dawgie.db, dawgie.pl.schedule as S

TARGETS = ['__all__', 'T1', 'T2', 'T3']          # index = model id, 0 = ALL
dawgie.db.targets = lambda *a, **k: TARGETS[1:]


def nodes_of():
    seen = {}
    todo = list(S.ae.at)
    while todo:
        n = todo.pop()
        if n.tag not in seen:
            seen[n.tag] = n
            todo.extend(c for c in n if c.tag != n.tag)
    return seen


def case(seed):
    rng = random.Random(seed)
    desc = engine.random_desc(rng, feedback=False)
    Fs, _ = engine.build(desc)
    S.build(Fs, [{}, {}, {}], [{}, {}, {}, {}])
    N = nodes_of()
    tags = sorted(N)
    ids = {t: i for i, t in enumerate(tags)}
    S.que.clear()
    for t, n in N.items():
        n.get('todo').clear(); n.get('doing').clear(); n.get('do').clear()
        asp = S._is_asp(n)
        pool = ['__all__'] if asp else TARGETS[1:]
        if rng.random() < 0.6:
            n.get('todo').update(rng.sample(pool, rng.randint(1, len(pool))))
        if rng.random() < 0.4:
            n.get('doing').update(rng.sample(pool, rng.randint(1, len(pool))))
        if n.get('todo') or n.get('doing') or rng.random() < 0.2:
            S.que.append(n)
    S.que.sort(key=lambda j: j.get('level'))
    que = [ids[j.tag] for j in S.que]
    pre = {ids[t]: ([TARGETS.index(x) for x in n.get('todo')], sorted(TARGETS.index(x) for x in n.get('doing'))) for t, n in N.items()}
    anc = {ids[t]: sorted(ids[a] for a in n.get('ancestry')) for t, n in N.items()}
    S.next_job_batch()
    post = {ids[t]: ([TARGETS.index(x) for x in n.get('todo')], sorted(TARGETS.index(x) for x in n.get('doing')),
                     sorted(TARGETS.index(x) for x in n.get('do'))) for t, n in N.items()}
    return len(tags), que, pre, anc, post


def lst(xs):
    return '[' + '; '.join(str(x) for x in xs) + ']'


def gallina(k, n, que, pre, anc):
    m = ' '.join(f'| {i} => {{| todo := {lst(pre[i][0])}; doing := {lst(pre[i][1])}; do_ := [] |}}' for i in range(n))
    a = ' '.join(f'| {i} => {lst(anc[i])}' for i in range(n))
    return (f'Definition m{k} : smap := fun x => match x with {m} | _ => {{| todo := []; doing := []; do_ := [] |}} end.\n'
            f'Definition a{k} : node -> list node := fun x => match x with {a} | _ => [] end.\n'
            f'Definition q{k} : list node := {lst(que)}.\n'
            f'Definition r{k} := fst (batch a{k} m{k} q{k} (filter (fun x => negb (Nat.eqb (length (todo (m{k} x))) 0)) q{k})).\n'
            f'Eval vm_compute in 77 :: {k} :: flat_map (fun x => todo (r{k} x) ++ [90] ++ doing (r{k} x) ++ [91] ++ do_ (r{k} x) ++ [92]) (seq 0 {n}).\n')


def main(ncases=60):
    work = tempfile.mkdtemp(prefix='dvcorr_')
    shutil.copy(os.path.join(os.path.dirname(__file__), 'Batch.v'), work)
    subprocess.run(['coqc', 'Batch.v'], cwd=work, check=True, capture_output=True)
    cases = [case(s) for s in range(ncases)]
    src = 'Require Import Batch.\nFrom Coq Require Import List Arith.\nImport ListNotations.\n'
    for k, (n, que, pre, anc, post) in enumerate(cases):
        src += gallina(k, n, que, pre, anc)
    open(os.path.join(work, 'cases.v'), 'w').write(src)
    out = subprocess.run(['coqc', 'cases.v'], cwd=work, capture_output=True, text=True)
    assert out.returncode == 0, out.stderr[:500]
    text = re.sub(r'\s+', ' ', out.stdout)
    agree = bad = released = 0
    for mres in re.finditer(r'= \[([\d; ]+)\] : list nat', text):
        nums = [int(x) for x in mres.group(1).split(';')]
        assert nums[0] == 77; k = nums[1]; nums = nums[1:]
        triples, cur, part = [], [[], [], []], 0
        for x in nums[1:]:
            if x in (90, 91): part += 1
            elif x == 92: triples.append(tuple(cur)); cur, part = [[], [], []], 0
            else: cur[part].append(x)
        n, que, pre, anc, post = cases[k]
        model = [(a, sorted(set(b)), sorted(set(c))) for a, b, c in triples]   # doing/do are sets in Python
        impl = [(post[i][0], post[i][1], post[i][2]) for i in range(n)]
        released += sum(len(p[2]) for p in impl)
        if model == impl: agree += 1
        else:
            bad += 1
            if bad < 3: print('DISAGREE case', k, '\n impl ', impl, '\n model', model)
    print('cases', len(cases), 'agree', agree, 'disagree', bad, 'units released in total', released)
    shutil.rmtree(work)


main(int(sys.argv[1]) if len(sys.argv) > 1 else 60)
