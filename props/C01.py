'''C01 -- upstream work always finishes before dependent work is released.'''
from props import sched_common as sc, sched_oracles as so

PID = 'C01'
META = {
    'text': 'C01_doing: for every engine graph and every history from boot (requests, ticks, replies of any outcome in any order, worker events, rebuilds), the task messages made by any dispatch tick have no ancestor with the same target or the all-targets marker pending or doing, and an all-targets unit has ancestors with nothing pending/doing -- proved by invariants (queue membership, do/jobs empty between events, analysis targets) lifted over run by induction. Ghost level (really in flight): C01_full_partial under the hypothesis that the ancestor\'s doing set covers what it has in flight; C01_full_refuted carries the witness of the open known finding (purge clears doing of an executing descendant). Model tied to next_job_batch/dispatch/_put/Hand._res by step correspondence on generated histories; the oracle keeps its own in-flight multiset from the fake transports. HISTORIES WITH REFUSED RUN IDS (Model/SchedFault.v, xrun over list xev; Proofs/SchedFaultInv.v): C01_release_faults -- in every history, at every dispatch with or without a refused db.next(), a unit is moved todo->doing only when no ancestor has its target or the all-targets marker pending/doing; C01_doing_faults_partial -- every task message made by the dispatch ending a history is for a unit that this dispatch or an EARLIER one of the same history (whose request was refused: the job was kept with its do set) released under that condition (origin invariant over histories); C01_doing_faults_refuted -- the condition need not hold any more when the kept job is finally sent (a0 requested between the refused dispatch and the retry: a1 is sent while a0 has the target pending; replayed on the real farm.dispatch by props/C04.py fault_witness, candidate finding).',
    'note': 'Trusted: Coq kernel; Sched.v + drive_sched.py correspondence; ancestry = transitive closure is the checked hypothesis wf_graphb (C09). Known finding C01/release-while-ancestor-inflight stays open (purge semantics pinned by the passing test test_10.test_hand__res). Promotion engine off. With refused run ids the statement is about the release moment (partial), see C01_doing_faults_refuted.',
    'technique': 'Coq proof (invariants + induction over histories) over hand-written executable model + model/implementation correspondence + implementation-side ghost oracle',
}


def nontrivial(r):
    W = so.Walk(r)
    had = set()
    for c in W.steps():
        for x in range(W.n):
            for t in c['after']['nodes'][x][0] + c['after']['nodes'][x][1]:
                had.add((x, t))
        for (x, t, rid) in c['released']:
            for a in W.anc[x]:
                if (a, t) in had or (a, 0) in had:
                    return True
    return False


def run(ctx):
    sc.sched_check(
        ctx, so.c01, ['sched', 'mixed'], nontrivial,
        witnesses=['release-while-ancestor-inflight'],
        rule='random acyclic engines (chains, diamonds, fan-out, analyses below tasks) x random histories biased to "request while executing" and "failure arrives last"; corpus of directed scenarios first. Non-trivial = a unit was released whose ancestor had work on the same target or the all-targets marker earlier in the same history (the filter decided something)')
    # histories in which the database refuses a run id during a dispatch
    # (Model/SchedFault.v: C01_release_faults / C01_doing_faults_partial /
    # C01_doing_faults_refuted): correspondence + the C01 oracle; a kept job
    # sent while an ancestor was requested in between is the open finding
    # kept-job-sent-while-ancestor-pending
    if not ctx.replay and not ctx.nviol:
        sc.fault_study(ctx, so.c01)
        ctx.expect_known('kept-job-sent-while-ancestor-pending',
                         any(k.startswith('kept-job-sent-while-ancestor-pending') for k in ctx.known_hits))


def replay(ctx, obj):
    sc.sched_replay(ctx, obj, so.c01)
