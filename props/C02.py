'''C02 -- reprocessing after a change is complete and minimal.'''
from vlib import core
from props import sched_common as sc, sched_oracles as so, c02_flow

PID = 'C02'
META = {
    'text': 'Trigger level proved for every engine/state/history over the scheduler model: after a success report every consumer of a new value (children declaring it, feedback consumers) is pending for the affected targets and queued (complete); no other node gains anything (minimal); over histories pending work disappears only by release, by a failed upstream run on that target, or by a rebuild, and appears only by a request, a success report with a new input, or a rebuild naming it. Model tied to schedule.update/organize/complete and Hand._res by step correspondence; oracle evaluated on the implementation around every success reply. End-state clause: modelled end to end (Model/Flow.v = the scheduler model + run ids as organize/rerunid/db.next hand them out + the primary table with the load rule of shelve Interface._load + deterministic algorithms with injective outputs, novelty = blob never stored). Proved (C02_endstate_partial, unbounded): for every task-only engine with one value per algorithm and every history whose change events do not overlap (each arrives at a quiescent pipeline; ticks and runs in any order, every worker succeeding), at quiescence the latest stored content of every (target, value) equals the from-scratch evaluation in level order (eval_topo); freshness is discharged, not assumed. Refuted for overlapping change events (C02_endstate_refuted = open known finding endstate-stale; the witness is replayed through the real scheduler + shelve store on every run and must stay stale).',
    'note': 'Trusted: Coq kernel; Sched.v + drive_sched.py correspondence (fakes: transports, fsm stub, db stubs, in-memory AE packages); Flow.v + drive_flow.py correspondence (real scheduler, farm.dispatch, worker.Context.run, shelve store in a temp dir; fakes: in-memory AE packages whose run() stores a canonical text of what was loaded, socket hop, lock stubs, fsm stub, digest programs after the first real calls). Partial: end-state theorem only for non-overlapping change events, task-only engines with one value per algorithm (no value-level fan-out, feedback, analyses, regressions), no worker failures; worker hand-out and the archive trigger are outside Flow.v; promotion engine off; timer-driven requests are modelled in C20. Each end-to-end history costs seconds on the real store: quick = witness + 1 directed + 3 generated histories, thorough = 26.',
    'technique': 'Coq proof over hand-written executable models (invariant over all non-overlapping histories for the end state) + model/implementation correspondence (step level for the scheduler; whole histories through the real store for the end state) + implementation-side oracles',
}


def nontrivial(r):
    W = so.Walk(r)
    for ev in r['events']:
        if ev[0] == 'rep' and ev[5] == 3:
            x = ev[2]
            new = {vn for vt, vn, isn in ev[6] if isn}
            kids = [y for y in W.kids[x] if y != x]
            if new and any(W.ins[y] & new for y in kids) and any(not (W.ins[y] & new) for y in kids):
                return True
    return False


def run(ctx):
    sc.sched_check(
        ctx, so.c02, ['sched', 'mixed'], nontrivial,
        rule='TRIGGER LEVEL: random acyclic engines with value-level input declarations (refs at alg/sv/value level, feedback) x random histories; success replies flag a random subset of the outputs new. Non-trivial = a success reply carried >= 1 new value consumed by >= 1 child while >= 1 other child consumes none of the new values. END STATE: the witness of C02_endstate_refuted, a directed overlap history and generated histories (change events / ticks / runs of any waiting message; non-overlapping and overlapping) on four task engines, run end to end through the real scheduler, farm.dispatch, worker.Context.run and shelve store; non-trivial = >= 2 change events and >= 4 runs through the real store, ending quiescent')
    # end-state clause: Model/Flow.v against the real scheduler + store
    for rel, names in [('Python/dawgie/db/shelve/model.py', ['Interface._load', 'Interface._update']),
                       ('Python/dawgie/db/util/__init__.py', ['move', 'encode']),
                       ('Python/dawgie/db/shelve/__init__.py', ['next'])]:
        try:
            ctx.note('fingerprint:' + rel, core.fingerprint(rel, names))
        except Exception as e:  # noqa: BLE001
            ctx.note('fingerprint:' + rel, 'unavailable: %s' % e)
    n, keys = c02_flow.study(ctx)
    ctx.count(evaluations=n, nontrivial_keys=keys)


def replay(ctx, obj):
    if obj.get('source') == 'flow':
        c02_flow.replay(ctx, obj)
    else:
        sc.sched_replay(ctx, obj, so.c02)
