'''C02 -- reprocessing after a change is complete and minimal.'''
from props import sched_common as sc, sched_oracles as so

PID = 'C02'
META = {
    'text': 'Trigger level proved for every engine/state/history over the scheduler model: after a success report every consumer of a new value (children declaring it, feedback consumers) is pending for the affected targets and queued (complete); no other node gains anything (minimal); over histories pending work disappears only by release, by a failed upstream run on that target, or by a rebuild, and appears only by a request, a success report with a new input, or a rebuild naming it. Model tied to schedule.update/organize/complete and Hand._res by step correspondence; oracle evaluated on the implementation around every success reply. End-state clause: refuted for overlapping change events on the real code (open known finding endstate-stale, witness replayed through the real store); stated as partial.',
    'note': 'Trusted: Coq kernel; Sched.v + drive_sched.py correspondence (fakes: transports, fsm stub, db stubs, in-memory AE packages). Partial: the end-state equality with a from-scratch run is not proved (needs the store model composed with deterministic algorithms and a non-overlap hypothesis); promotion engine off; timer-driven requests are modelled in C20.',
    'technique': 'Coq proof over hand-written executable model + model/implementation correspondence + implementation-side oracle',
}


def nontrivial(r):
    W = so.Walk(r)
    for ev in r['events']:
        if ev[0] == 'rep' and ev[5] == 3:
            x = ev[2]
            new = {vn for vt, vn, isn in ev[6] if isn}
            kids = [y for y in W.kids[x] if y != x]
            if new and any(W.ins[y] & new for y in kids) and any(not (W.ins[y] & new) for y in kids):
                return True
    return False


def run(ctx):
    sc.sched_check(
        ctx, so.c02, ['sched', 'mixed'], nontrivial,
        rule='random acyclic engines with value-level input declarations (refs at alg/sv/value level, feedback) x random histories; success replies flag a random subset of the outputs new. Non-trivial = a success reply carried >= 1 new value consumed by >= 1 child while >= 1 other child consumes none of the new values')


def replay(ctx, obj):
    sc.sched_replay(ctx, obj, so.c02)
