'''C02 -- reprocessing after a change is complete and minimal.'''
from vlib import core
from props import sched_common as sc, sched_oracles as so, c02_flow

PID = 'C02'
META = {
    'text': 'Trigger level proved for every engine/state/history over the scheduler model: after a success report every consumer of a new value (children declaring it, feedback consumers) is pending for the affected targets and queued (complete); no other node gains anything (minimal); over histories pending work disappears only by release, by a failed upstream run on that target, or by a rebuild, and appears only by a request, a success report with a new input, or a rebuild naming it. Model tied to schedule.update/organize/complete and Hand._res by step correspondence; oracle evaluated on the implementation around every success reply. End-state clause: modelled end to end (Model/Flow.v = the scheduler model + run ids as organize/rerunid/db.next hand them out + the primary table with the load rule of shelve Interface._load + deterministic algorithms with injective outputs, novelty = blob never stored; Model/Flow2.v adds FAILED runs: the algorithm raises before it updates its data set, Hand._res -> complete -> purge, and a ghost list of withdrawn units). Proved, unbounded, for every history whose change events do not overlap (each arrives at a quiescent pipeline; ticks, successful and failed runs of any waiting message in any order): C02_endstate_partial (task-only engines, one value per algorithm, every worker succeeding: at quiescence the latest stored content of every (target, value) equals the from-scratch evaluation in level order, eval_topo; freshness discharged, not assumed); C02_endstate_failures_partial (same engines, workers may FAIL: every (target, algorithm) with no withdrawn unit upstream along declared inputs, itself included, holds eval_topo; every unit holds what its algorithm computes from the latest stored content of its inputs or has a withdrawn unit upstream; a withdrawn unit holds what it held when it was withdrawn; withdrawn = reached by the purge of a failed run and no successful run since; without failures the statement is C02_endstate_partial: C02_failures_extend_flow); C02_endstate_mv_partial / C02_endstate_mv_nofail_partial (the same two statements for engines whose algorithms produce SEVERAL values and whose children declare only some of them, class flow_ok_mv, which contains the single-value class: C02_flow_ok_is_mv). Refuted for overlapping change events (C02_endstate_refuted = open known finding endstate-stale; the witness is replayed through the real scheduler + shelve store on every run and must stay stale).',
    'note': 'Trusted: Coq kernel; Sched.v + drive_sched.py correspondence (fakes: transports, fsm stub, db stubs, in-memory AE packages); Flow.v/Flow2.v + drive_flow.py correspondence (real scheduler, farm.dispatch, worker.Context.run, Hand._res, shelve store in a temp dir; fakes: in-memory AE packages whose run() stores a canonical text of what was loaded or raises on a fail event, the worker main loop that turns the exception into a suc=False reply as pl/worker/cluster.py does, socket hop, lock stubs, fsm stub, digest programs after the first real calls). Partial: end-state theorems only for non-overlapping change events and task-only engines (no feedback, analyses, regressions); a failure is an algorithm raising BEFORE its data set is updated (a failure after a partial update is outside); in the model every value of an algorithm is computed from all its declared inputs, so a re-run reports all its values new: value-level fan-out enters the end-state theorem as "a child is re-run iff it declares one of the values of the re-run algorithm" (a report flagging only some values new is covered at trigger level only); worker hand-out and the archive trigger are outside Flow.v; promotion engine off; timer-driven requests are modelled in C20. Each end-to-end history costs seconds on the real store: quick = witness + 2 directed + 3 generated histories + 3 directed and 2 generated histories with failed runs + 1 generated on a multi-value engine (12), thorough = 55.',
    'technique': 'Coq proof over hand-written executable models (invariants FInv / FInv2 / FInv3 over all non-overlapping histories for the end state, the latter two with failed runs and a ghost list of withdrawn units) + model/implementation correspondence (step level for the scheduler; whole histories through the real store for the end state) + implementation-side oracles',
}


def nontrivial(r):
    W = so.Walk(r)
    for ev in r['events']:
        if ev[0] == 'rep' and ev[5] == 3:
            x = ev[2]
            new = {vn for vt, vn, isn in ev[6] if isn}
            kids = [y for y in W.kids[x] if y != x]
            if new and any(W.ins[y] & new for y in kids) and any(not (W.ins[y] & new) for y in kids):
                return True
    return False


def run(ctx):
    sc.sched_check(
        ctx, so.c02, ['sched', 'mixed'], nontrivial,
        rule='TRIGGER LEVEL: random acyclic engines with value-level input declarations (refs at alg/sv/value level, feedback) x random histories; success replies flag a random subset of the outputs new. Non-trivial = a success reply carried >= 1 new value consumed by >= 1 child while >= 1 other child consumes none of the new values. END STATE: the witness of C02_endstate_refuted, a directed overlap history and generated histories (change events / ticks / runs of any waiting message; non-overlapping and overlapping) on six task engines (two with several values per algorithm), with successful and FAILED runs, run end to end through the real scheduler, farm.dispatch, worker.Context.run, Hand._res and shelve store; non-trivial = >= 2 change events and >= 4 runs through the real store, ending quiescent; a failure history is non-trivial when a failed run withdrew a unit other than the failed one')
    # end-state clause: Model/Flow.v against the real scheduler + store
    for rel, names in [('Python/dawgie/db/shelve/model.py', ['Interface._load', 'Interface._update']),
                       ('Python/dawgie/db/util/__init__.py', ['move', 'encode']),
                       ('Python/dawgie/db/shelve/__init__.py', ['next'])]:
        try:
            ctx.note('fingerprint:' + rel, core.fingerprint(rel, names))
        except Exception as e:  # noqa: BLE001
            ctx.note('fingerprint:' + rel, 'unavailable: %s' % e)
    n, keys = c02_flow.study(ctx)
    ctx.count(evaluations=n, nontrivial_keys=keys)


def replay(ctx, obj):
    if obj.get('source') == 'flow':
        c02_flow.replay(ctx, obj)
    else:
        sc.sched_replay(ctx, obj, so.c02)
