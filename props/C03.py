'''C03 -- each released unit runs once at a time and its result is never dropped.'''
from props import sched_common as sc, sched_oracles as so

PID = 'C03'
META = {
    'text': 'Proved for every engine/history: a released unit is handed to at most one worker and otherwise stays queued (permutation per tick, one message per worker); no dispatch releases a target its own node is still doing (a re-request of an executing unit waits); every result whose unit is still counted as doing finds its job and is applied exactly once (one history entry, then update or purge); the crew view equals the in-flight units step by step as long as replies come from the only holder. The unconditional single-flight / never-dropped statement is refuted by the witness of the open known finding (purge clears doing of an executing descendant -> duplicate flight, dropped second reply, wrong crew view). Model tied to the code by step correspondence; oracle with its own in-flight multiset on the implementation. The todo sets: dawgie.util.fifo.Unique is regenerated from the python source on every run by a fail-closed translator (Gen/FifoGen.v) and PROVED to be the list-set library of the model (Sched.add/addl/rem/mem) for every object a program can build, discard never raising (C03_unique_*_is_source, C03_unique_is_todo_list). HISTORIES WITH REFUSED RUN IDS (Proofs/SchedFaultInv.v): C03_one_worker_or_queued_faults (conservation of messages and pairwise distinct receiving workers for a dispatch with a refused k-th request, from every state of every history: C03_faults_reach), C03_applied_once_faults, C03_no_rerelease_faults_partial (a message made by a dispatch is for a target the node was not doing when the dispatch began, or is made from a job/do set the farm kept after a refused request; a job kept and released again sits on the list twice and each target is still sent once: C03_faults_example).',
    'note': 'Trusted: Coq kernel; Sched.v + drive_sched.py correspondence (fake transports, chronicle recorder). Partial: single flight and "never dropped" hold only while doing is exact for the unit (i.e. no purge removed an executing descendant) -- open known finding C03/duplicate-flight; rebuilds (Build) are modelled without farm.clear(). With refused run ids: that a kept unit is not also in flight (single flight) is not proved.',
    'technique': 'Coq proof (invariants over histories; refutation witness by vm_compute) over hand-written executable model + source-generated definitions (fifo.Unique) proved equal to the model functions + model/implementation correspondence + implementation-side ghost oracle',
}


def nontrivial(r):
    W = so.Walk(r)
    replies = {}
    for c in W.steps():
        ev = c['ev']
        if ev[0] == 'org':
            ex = set(so.executing(c, 'before'))
            for x in ev[1]:
                tg = [0] if W.fac[x] == 1 else (W.targets if 0 in ev[3] else ev[3])
                if any((x, t) in ex for t in tg):
                    return True
        if ev[0] == 'rep':
            replies[ev[2]] = replies.get(ev[2], 0) + 1
            if replies[ev[2]] >= 2:
                return True
    return False


def run(ctx):
    # source tie by translation + proof (props/gen_tie.py): fifo.Unique (the
    # todo sets) is regenerated before the proofs are checked, validated after
    from props import gen_tie
    g = None if ctx.replay else gen_tie.fifo_generate(ctx)
    sc.sched_check(
        ctx, so.c03, ['sched', 'mixed'], nontrivial,
        witnesses=['duplicate-flight'],
        rule='random engines x random histories biased to re-requesting units that are queued or in flight, replies in any order; corpus of directed scenarios first. Non-trivial = a unit was (re)requested while released or in flight, or two replies for the same job were delivered')
    if not ctx.replay and not ctx.nviol:
        sc.fault_study(ctx, so.c03)
    if g is not None:
        gen_tie.fifo_validate(ctx, g, PID)


def replay(ctx, obj):
    sc.sched_replay(ctx, obj, so.c03)
