'''C03 -- each released unit runs once at a time and its result is never dropped.'''
from props import sched_common as sc, sched_oracles as so
from vlib import core

PID = 'C03'
META = {
    'text': 'Proved for every engine/history: a released unit is handed to at most one worker and otherwise stays queued (permutation per tick, one message per worker); no dispatch releases a target its own node is still doing (a re-request of an executing unit waits); every result whose unit is still counted as doing finds its job and is applied exactly once (one history entry, then update or purge); the crew view equals the in-flight units step by step as long as replies come from the only holder. The unconditional single-flight / never-dropped statement is refuted by the witness of the open known finding (purge clears doing of an executing descendant -> duplicate flight, dropped second reply, wrong crew view). Model tied to the code by step correspondence; oracle with its own in-flight multiset on the implementation. The todo sets: dawgie.util.fifo.Unique is regenerated from the python source on every run by a fail-closed translator (Gen/FifoGen.v) and PROVED to be the list-set library of the model (Sched.add/addl/rem/mem) for every object a program can build, discard never raising (C03_unique_*_is_source, C03_unique_is_todo_list). HISTORIES WITH REFUSED RUN IDS (Proofs/SchedFaultInv.v): C03_one_worker_or_queued_faults (conservation of messages and pairwise distinct receiving workers for a dispatch with a refused k-th request, from every state of every history: C03_faults_reach), C03_applied_once_faults, C03_no_rerelease_faults_partial (a message made by a dispatch is for a target the node was not doing when the dispatch began, or is made from a job/do set the farm kept after a refused request; a job kept and released again sits on the list twice and each target is still sent once: C03_faults_example).',
    'note': 'Trusted: Coq kernel; Sched.v + drive_sched.py correspondence (fake transports, chronicle recorder). Partial: single flight and "never dropped" hold only while doing is exact for the unit (i.e. no purge removed an executing descendant) -- open known finding C03/duplicate-flight; rebuilds (Build) are modelled without farm.clear(). With refused run ids: that a kept unit is not also in flight (single flight) is not proved.',
    'technique': 'Coq proof (invariants over histories; refutation witness by vm_compute) over hand-written executable model + source-generated definitions (fifo.Unique) proved equal to the model functions + model/implementation correspondence + implementation-side ghost oracle',
}


def nontrivial(r):
    W = so.Walk(r)
    replies = {}
    for c in W.steps():
        ev = c['ev']
        if ev[0] == 'org':
            ex = set(so.executing(c, 'before'))
            for x in ev[1]:
                tg = [0] if W.fac[x] == 1 else (W.targets if 0 in ev[3] else ev[3])
                if any((x, t) in ex for t in tg):
                    return True
        if ev[0] == 'rep':
            replies[ev[2]] = replies.get(ev[2], 0) + 1
            if replies[ev[2]] >= 2:
                return True
    return False


TWO_TASKS = {'pkgs': {'p0': {'task': [
    {'name': 'a0', 'svs': [{'name': 's0', 'vals': [['v0', [1, 0, 0]]]}], 'deps': [], 'fb': []},
    {'name': 'a1', 'svs': [{'name': 's0', 'vals': [['v0', [1, 0, 0]]]}], 'deps': [], 'fb': []}]}}}


def once_counts(r):
    '''per unit, on the implementation's own observations: (messages made by the
    dispatches, releases = dispatches at which the target entered `doing`)'''
    import collections
    W = so.Walk(r)
    sent, rel = collections.Counter(), collections.Counter()
    hits = []
    for c in W.steps():
        if c['ev'][0] not in ('tick', 'tickf'):
            continue
        for x in range(W.n):
            was = set(c['before']['nodes'][x][1]) if c['before'] else set()
            for t in c['after']['nodes'][x][1]:
                if t not in was:
                    rel[(x, t)] += 1
        for (x, t, _rid) in c['released']:
            sent[(x, t)] += 1
        for u in sent:
            if sent[u] > rel[u] and not hits:
                hits.append(('message-without-release', {'cause': 'unknown'},
                             'unit (%s,%s): %d task messages were made for %d releases (a job kept after a refused '
                             'run id and listed again must still be sent once per release)'
                             % (W.g['tags'][u[0]], W.g['tnames'][u[1]], sent[u], rel[u]), c['i']))
    return sent, rel, hits


def once_study(ctx):
    '''C03_each_release_sent_at_most_once_faults on the implementation: directed
    histories in which a kept job is released again and sits on farm._jobs twice,
    then random fault histories; the counters `sent` / `released` of
    Proofs/SchedFaultOnce.v are evaluated on the same histories and compared
    with the counts taken from the implementation's observations.'''
    cases = [
        {'seed': 'once-listed-twice', 'desc': TWO_TASKS, 'targets': ['T1', 'T2'], 'nev': 0, 'events': [
            ['reg', 1, 0, True], ['org', [0, 1], None, [1]], ['tickf', 2], ['org', [1], None, [2]], ['tickf', 1],
            ['tick'], ['tick']]},
        {'seed': 'once-listed-twice-second-copy-refused', 'desc': TWO_TASKS, 'targets': ['T1', 'T2'], 'nev': 0,
         'events': [['reg', 1, 0, True], ['reg', 2, 0, True], ['org', [1], None, [1]], ['tickf', 1],
                    ['org', [1], None, [2]], ['tickf', 2], ['org', [1], None, [1, 2]], ['tick'], ['tick']]},
        {'seed': 'once-kept-analysis', 'desc': sc.TASK_ASPECT, 'targets': ['T1', 'T2'], 'nev': 0, 'events': [
            ['reg', 1, 0, True], ['reg', 2, 0, True], ['org', [1], None, [0]], ['tickf', 1], ['tickf', 1], ['tick'],
            ['org', [1], None, [0]], ['tick'], ['tick']]},
    ]
    cases += [{'seed': '%d:once:%d' % (ctx.seed, i), 'nev': 40, 'profile': 'fault', 'nalg': 5,
               'shape': 'fan' if i % 2 else 'random'} for i in range(ctx.n(24, 240))]
    out = ctx.harness('drive_sched.py', {'cases': cases})
    exprs, units, keys = [], [], []
    nheld = 0
    for c, r in zip(cases, out['cases']):
        r['seed'] = c['seed']
        sent, rel, hits = once_counts(r)
        for kind, fields, what, step in hits:
            ctx.violation(kind, fields, what, {'source': 'oracle (release/message count, fault history)',
                                              'step': step, 'case': sc.strip(r, step),
                                              'theorem': 'C03_each_release_sent_at_most_once_faults'})
        us = sorted(set(sent) | set(rel))
        units.append((us, sent, rel))
        listed_twice = any(len(o['jobs']) != len(set(o['jobs'])) for o in r['obs'])
        nheld += listed_twice
        if listed_twice or any(rel[u] > 1 for u in us):
            keys.append(('once', r['seed']))
        evs = '[' + '; '.join('(TickFault %d)' % e[1] if e[0] == 'tickf' else '(Ev %s)' % sc.ev_term(e)
                              for e in r['events']) + ']'
        exprs.append('let c := %s in let xs := %s in map (fun u => (SchedFaultOnce.sent c (init c) xs u, '
                     'SchedFaultOnce.released c (init c) xs u)) [%s]'
                     % (sc.cfg_term(r['graph']), evs, '; '.join('(%d, %d)' % u for u in us)))
    nmis, first = 0, None
    try:
        vals = ctx.coq_eval(['DV.Model.Sched', 'DV.Model.SchedFault', 'DV.Proofs.SchedFaultOnce'], exprs,
                            z_scope=False, chunk=20)
        for r, (us, sent, rel), v in zip(out['cases'], units, vals):
            a = [[sent[u], rel[u]] for u in us]
            m = [list(p) for p in v]
            if a != m:
                nmis += 1
                first = first or (r, us, a, m)
    except core.CoqEvalError as e:
        nmis, first = -1, (None, None, None, str(e.args[-1])[-1500:])
    if first and ctx.nviol == 0:
        r, us, a, m = first
        ctx.broken('release/message counters: Proofs/SchedFaultOnce.v (sent, released) and the implementation disagree',
                   'case seed=%s units=%s impl=%s model=%s' % (r and r.get('seed'), us, a, m),
                   {'source': 'correspondence (counters)', 'case': sc.strip(r) if r else None, 'impl': a, 'model': m})
    ctx.note('once_study', {'histories': len(cases), 'histories_with_a_job_listed_twice': nheld,
                            'counter_mismatches': nmis})
    ctx.count(evaluations=len(cases), nontrivial_keys=keys)


def run(ctx):
    # source tie by translation + proof (props/gen_tie.py): fifo.Unique (the
    # todo sets) is regenerated before the proofs are checked, validated after
    from props import gen_tie
    g = None if ctx.replay else gen_tie.fifo_generate(ctx)
    sc.sched_check(
        ctx, so.c03, ['sched', 'mixed'], nontrivial,
        witnesses=['duplicate-flight'],
        rule='random engines x random histories biased to re-requesting units that are queued or in flight, replies in any order; corpus of directed scenarios first. Non-trivial = a unit was (re)requested while released or in flight, or two replies for the same job were delivered')
    if not ctx.replay and not ctx.nviol:
        sc.fault_study(ctx, so.c03)
    if not ctx.replay and not ctx.nviol:
        once_study(ctx)
    if g is not None:
        gen_tie.fifo_validate(ctx, g, PID)


def c03_and_once(r):
    return so.c03(r) + once_counts(r)[2]


def replay(ctx, obj):
    # a case recorded by once_study is judged by the oracle of that study too
    once = str(obj.get('source', '')).startswith('oracle (release/message count')
    sc.sched_replay(ctx, obj, c03_and_once if once else so.c03)
