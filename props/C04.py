'''C04 -- idle means idle: runnable work is released and the pipeline quiesces.'''
import json

from vlib import core
from props import sched_common as sc, sched_oracles as so

PID = 'C04'
META = {
    'text': 'C04_progress: in every history from boot, a pending target unit whose upstream algorithms are idle for its target and for the all-targets marker is released by the next dispatch (leaves todo, enters doing, a task message is queued or handed out) -- proved from the invariants of C01. All-targets units: partial (released when no upstream node is queued) + refuted witness (a stale queue entry blocks the analysis for ever). Idle => empty queue and empty waiter views: proved for histories without failed/invalid replies and without empty-target requests (C04_idle_empty_partial); refuted in general with two witnesses (open known findings stale-queue-entry, causes purge and empty-target-list). Model tied to the code by step correspondence; the oracle checks idle=>empty, progress and that no released unit is lost on the implementation at every step; a database that refuses a run id during a dispatch is modelled (Model/SchedFault.v, TickFault k): such a dispatch loses no job (C04_fault_keeps_jobs) and the next ordinary dispatch turns every kept job into messages (C04_dispatch_empties_jobs); fault histories are tied by correspondence and searched by the oracle; a history without refused requests is a Sched history (C04_fault_free_is_sched). EXTENSION. Histories with refused run ids (Proofs/SchedFaultInv.v; invariant GInv = node-table length + queue membership + analysis targets, which survives kept jobs; origin invariant for do sets and the job list): C04_progress_faults (a runnable unit is released by the next dispatch even if that dispatch has a request refused: message made, or job held with the target in its do set), C04_progress_after_faults (ordinary dispatch at the end of any such history: message made), C04_progress_all_faults_partial. QUIESCENCE machine-checked as a termination measure (Proofs/SchedQuiesce.v): Phi = sum_x B^(H-depth x) * (2|todo x| + |doing x|) inside a finite target universe U, depth = number of ancestors, B = 2|U|N+1; C04_quiesce_step: every dispatch (with or without refused request) lowers Phi by at least the number of units it released, every reply for a unit the scheduler counts as executing lowers it by at least 1, worker/flag events leave it; C04_quiesce_partial: in any continuation without requests/rebuilds #released units + #replies <= Phi(start) <= N*B^H*3|U|; C04_quiesce_idle_partial: when nothing is executing and a dispatch of the active unpaused pipeline releases nothing, nothing is pending, and with no stale queue entry the queue and both waiter views are empty. Assumed: no feedback edge (gfb = []), depth_okb (checked on every graph the real Construct produced), replies only for units counted as executing, no stale entry for the empty queue (open known findings). Tie: drain histories (tools/harness/drive_quiesce.py drives the real scheduler/farm through drive_sched.py: generated prefix, then only dispatches, registrations and replies for held units) -- correspondence with SchedFault.v, C04 oracle, the inequality of C04_quiesce_step evaluated on the IMPLEMENTATION\'s states at every quiet step, the rest-state conclusion at every rest state reached; Phi of the Coq development is compared with the Python evaluation on a directed history.',
    'note': 'Trusted: Coq kernel; Sched.v + drive_sched.py correspondence (view_todo/view_doing/crew read from the real functions). Partial: all-targets progress needs the no-stale-entry hypothesis. Open known findings C04/stale-queue-entry (purge; empty-target-list). Quiescence: the measure bounds the work and characterises the rest state; fairness of the environment (workers answer, the dispatcher ticks) is the hypothesis of the property; engines with feedback edges are outside the measure theorem; the empty queue at rest needs the no-stale-entry hypothesis (open known findings).',
    'technique': 'Coq proof (invariants + induction over histories; refutation witnesses by vm_compute) over hand-written executable model + model/implementation correspondence + implementation-side oracle',
}


def nontrivial(r):
    W = so.Walk(r)
    seen_fail = False
    for c in W.steps():
        ev = c['ev']
        if ev[0] == 'rep' and ev[5] != 3:
            seen_fail = True
        if ev[0] == 'org' and not ev[3]:
            seen_fail = True
        ob = c['after']
        if seen_fail and not so.executing(c, 'after') and all(not n[0] and not n[1] for n in ob['nodes']):
            return True
    return False


def run(ctx):
    results = sc.sched_check(
        ctx, so.c04, ['sched', 'mixed'], nontrivial,
        witnesses=['stale-queue-entry'],
        rule='(plus fault histories in which the k-th db.next() of a dispatch fails: correspondence with SchedFault.v + oracle; plus drain histories: a generated prefix followed by dispatches, registrations and replies for held units only -- correspondence with SchedFault.v, the C04 oracle, and the termination measure of C04_quiesce_step evaluated on the implementation\'s own states at every quiet step) random engines (including analyses downstream of tasks) x random histories with failures, invalid replies and empty target lists; corpus of directed scenarios first. Non-trivial = the history reached an idle state (nothing pending, nothing executing) after >= 1 failed/invalid reply or empty-target request')

    if not ctx.replay and not ctx.nviol:
        sc.fault_study(ctx, so.c04)
    if not ctx.replay and not ctx.nviol:
        level_hypothesis(ctx, results or [])
        fault_witness(ctx)
        quiesce_study(ctx)


# ---------------------------------------------------------------------------
# extension: histories with refused run ids (Proofs/SchedFaultInv.v) and the
# termination measure (Proofs/SchedQuiesce.v)
# ---------------------------------------------------------------------------

def lvl_ok(g):
    '''depth_okb of Proofs/SchedQuiesce.v on a graph the REAL dag.Construct made'''
    for x, nd in enumerate(g['nodes']):
        for y in nd['kids']:
            if not len(nd['anc']) < len(g['nodes'][y]['anc']):
                return False, 'child %s (depth %d) of %s (depth %d)' % (
                    g['tags'][y], len(g['nodes'][y]['anc']), g['tags'][x], len(nd['anc']))
        for a in nd['anc']:
            if not len(g['nodes'][a]['anc']) < len(nd['anc']):
                return False, 'ancestor %s (depth %d) of %s (depth %d)' % (
                    g['tags'][a], len(g['nodes'][a]['anc']), g['tags'][x], len(nd['anc']))
    return True, ''


def level_hypothesis(ctx, results):
    bad = [(r, lvl_ok(r['graph'])[1]) for r in results if not lvl_ok(r['graph'])[0]]
    ctx.note('quiesce_level_hypothesis', {'graphs_checked': len(results), 'failing': len(bad)})
    if bad and ctx.nviol == 0:
        r, why = bad[0]
        ctx.broken('hypothesis depth_okb of C04_quiesce_partial fails on a graph the real dag.Construct built',
                   'seed=%s: %s' % (r.get('seed'), why), {'source': 'correspondence', 'case': sc.strip(r)})


def xtrace_mismatch(ctx, results):
    '''correspondence of histories with tickf events with Model/SchedFault.v'''
    exprs = []
    for r in results:
        evs = '[' + '; '.join('(TickFault %d)' % e[1] if e[0] == 'tickf' else '(Ev %s)' % sc.ev_term(e)
                              for e in r['events']) + ']'
        exprs.append('obs_xtrace %s %s' % (sc.cfg_term(r['graph']), evs))
    vals = ctx.coq_eval(['DV.Model.Sched', 'DV.Model.SchedObs', 'DV.Model.SchedFault'], exprs,
                        z_scope=False, chunk=30)
    out = []
    for r, v in zip(results, vals):
        mm = sc.first_mismatch(r['obs'], [sc.canon_model(t) for t in v])
        if mm:
            out.append((r, mm))
    return out


def report_xmismatch(ctx, what, mis):
    if mis and ctx.nviol == 0:
        r, (i, keys, a, m) = mis[0]
        ctx.broken('correspondence %s: model SchedFault.v and implementation disagree' % what,
                   'case seed=%s step=%d event=%s differing=%s\nimpl=%s\nmodel=%s'
                   % (r.get('seed'), i, r['events'][i] if i < len(r['events']) else None, keys,
                      json.dumps(a)[:1500], json.dumps(m)[:1500]),
                   {'source': 'correspondence', 'step': i, 'case': sc.strip(r, i), 'impl': a, 'model': m})


CHAIN2 = {'pkgs': {'p0': {'task': [
    {'name': 'a0', 'svs': [{'name': 's0', 'vals': [['v0', [1, 0, 0]]]}], 'deps': [], 'fb': []},
    {'name': 'a1', 'svs': [{'name': 's0', 'vals': [['v0', [1, 0, 0]]]}],
     'deps': [['alg', 'p0', 'task', 'a0', None, None]], 'fb': []}]}}}


def fault_witness(ctx):
    '''C01_doing_faults_refuted / C03_faults_example replayed on the real farm.dispatch:
    the observations of the implementation must be those of the model (the
    witness is a candidate finding reported to the maintainer; it is recorded
    in the evidence, it is not a verdict of this check)'''
    cases = [
        {'seed': 'c01-kept-job-sent-while-ancestor-pending', 'desc': CHAIN2, 'targets': ['T1'], 'nev': 0,
         'events': [['reg', 1, 0, True], ['org', [1], None, [1]], ['tickf', 1], ['org', [0], None, [1]], ['tick']]},
        {'seed': 'c03-kept-job-released-twice', 'desc': CHAIN2, 'targets': ['T1', 'T2'], 'nev': 0,
         'events': [['reg', 1, 0, True], ['org', [0, 1], None, [1]], ['tickf', 2], ['tick']]},
    ]
    out = ctx.harness('drive_sched.py', {'cases': cases})
    res = out['cases']
    for c, r in zip(cases, res):
        r['seed'] = c['seed']
    mis = xtrace_mismatch(ctx, res)
    report_xmismatch(ctx, 'fault witnesses', mis)
    r = res[0]
    last, before = r['obs'][-1], r['obs'][-2]
    sent = [o for o in last['outs'] if o[0] == 1]
    reproduces = bool(sent and sent[0][2] == 1 and sent[0][3] == 1 and 1 in before['nodes'][0][0]
                      and 1 in last['nodes'][0][1] and 0 in r['graph']['nodes'][1]['anc'])
    ctx.note('c01_fault_witness', {
        'events': r['events'], 'reproduces_on_implementation': reproduces,
        'what': 'the job of a1 kept after a refused run id is turned into a task message by the next '
                'dispatch while its ancestor a0 has the same target pending (before) / executing (after): '
                'C01_doing_faults_refuted; the release decision itself was safe (C01_doing_faults_partial)'})
    ctx.count(evaluations=len(cases))


def measure(g, ob, U):
    '''Phi of Proofs/SchedQuiesce.v on an observation of the IMPLEMENTATION'''
    n = len(g['nodes'])
    H = 1 + max([len(nd['anc']) for nd in g['nodes']] or [0])
    B = 2 * len(U) * n + 1
    return sum(B ** (H - len(g['nodes'][x]['anc']))
               * (2 * len(set(ob['nodes'][x][0]) & U) + len(set(ob['nodes'][x][1]) & U)) for x in range(n))


def quiesce_study(ctx):
    n = ctx.n(24, 360)
    cases = [{'seed': '%d:drain:%d' % (ctx.seed, i), 'prefix': 14 + (i % 4) * 6, 'drain': 80,
              'pprofile': 'fault' if i % 2 else 'sched', 'nalg': 6 if i % 3 else 8,
              'shape': 'fan' if i % 2 else 'random', 'feedback': i % 6 == 5} for i in range(n)]
    # directed: C04_quiesce_example on the chain a0 -> a1 -> analysis a2
    try:
        d = json.load(open(core.VERIF + '/corpus/sched/c04_analysis_blocked_by_stale.json'))
        cases.insert(0, {'seed': 'quiesce-directed', 'desc': d['desc'], 'targets': ['T1'], 'drain': 0, 'events': [
            ['reg', 1, 0, True], ['reg', 2, 0, True], ['reg', 3, 0, True], ['org', [0], None, [1]],
            ['tickf', 1], ['tick'], ['rep', 1, 0, 1, 1, 3, [[1, 0, True]]], ['tick'],
            ['rep', 2, 1, 1, 1, 3, [[1, 1, True]]], ['tick'], ['rep', 3, 2, 0, 1, 3, [[0, 2, False]]]]})
    except OSError:
        pass
    out = ctx.harness('drive_quiesce.py', {'cases': cases})
    results = out['cases']
    stats = {'histories': len(results), 'quiet_steps_checked': 0, 'replies_checked': 0, 'units_released': 0,
             'steps_skipped_hypothesis': 0, 'histories_with_feedback_or_bad_depths': 0,
             'reached_rest': 0, 'rest_with_stale_entry': 0, 'refused_requests': 0}
    keys = []
    for c, r in zip(cases, results):
        r['seed'] = c['seed']
        g = r['graph']
        for kind, fields, what, step in so.c04(r):
            ctx.violation(kind, fields, what, {'source': 'oracle (drain history)', 'step': step,
                                               'case': sc.strip(r, step)})
        hyp = (not g['fb']) and lvl_ok(g)[0]
        if not hyp:
            stats['histories_with_feedback_or_bad_depths'] += 1
        U = set(range(len(g['tnames'])))
        empty = {'nodes': [[[], [], [], 0, None] for _ in g['nodes']], 'flags': [False, True, False], 'que': []}
        rest = False
        for i, ev in enumerate(r['events']):
            bf = r['obs'][i - 1] if i else empty
            af = r['obs'][i]
            stats['refused_requests'] += 1 if [10] in af['outs'] else 0
            k = ev[0]
            if k in ('org', 'build', 'buildch'):
                continue
            if k == 'rep' and ev[3] not in bf['nodes'][ev[2]][1]:
                continue    # not a unit the scheduler counts as executing: outside quiet_run
            if not hyp:
                stats['steps_skipped_hypothesis'] += 1
            else:
                released = sum(max(0, len(set(af['nodes'][x][1]) & U) - len(set(bf['nodes'][x][1]) & U))
                               for x in range(len(g['nodes'])))
                pb, pa = measure(g, bf, U), measure(g, af, U)
                stats['quiet_steps_checked'] += 1
                stats['replies_checked'] += k == 'rep'
                stats['units_released'] += released
                if pa + released + (1 if k == 'rep' else 0) > pb:
                    ctx.violation('measure-not-decreasing', {'event': k},
                                  'C04_quiesce_step fails on the implementation: Phi before=%d after=%d released=%d event=%s'
                                  % (pb, pa, released, ev),
                                  {'source': 'oracle (termination measure)', 'step': i, 'case': sc.strip(r, i)})
            # the rest state of C04_quiesce_idle_partial, on the implementation
            if k == 'tick' and i >= r.get('prefix', 0) and bf['flags'][1] and not bf['flags'][2] \
                    and not any(nd[1] for nd in bf['nodes']) and not any(nd[1] for nd in af['nodes']):
                rest = True
                stale = [x for x in bf['que'] if not bf['nodes'][x][0] and not bf['nodes'][x][1]]
                if stale:
                    stats['rest_with_stale_entry'] += 1
                pend = [x for x in range(len(g['nodes'])) if bf['nodes'][x][0]]
                if lvl_ok(g)[0] and not stale and (pend or bf['que']):
                    ctx.violation('rest-not-idle', {},
                                  'nothing executing, a dispatch released nothing, no stale queue entry, yet pending=%s que=%s'
                                  % (pend, bf['que']),
                                  {'source': 'oracle (rest state)', 'step': i, 'case': sc.strip(r, i)})
        if rest:
            stats['reached_rest'] += 1
            if any(e[0] == 'rep' and e[5] == 3 and any(v[2] for v in e[6]) for e in r['events'][r.get('prefix', 0):]):
                keys.append('drain:' + str(r['seed']))
    mis = xtrace_mismatch(ctx, results)
    stats['correspondence_mismatches'] = len(mis)
    report_xmismatch(ctx, 'drain histories', mis)
    # the measure of the theorem is the measure evaluated above: Phi of the model
    # on the directed history = measure() on the implementation's observations
    if results and results[0]['seed'] == 'quiesce-directed' and not mis:
        r = results[0]
        c = sc.cfg_term(r['graph'])
        evs = '[' + '; '.join('(TickFault %d)' % e[1] if e[0] == 'tickf' else '(Ev %s)' % sc.ev_term(e)
                              for e in r['events']) + ']'
        try:
            vals = ctx.coq_eval(['DV.Model.Sched', 'DV.Model.SchedFault', 'DV.Proofs.SchedQuiesce'],
                                ['map (fun so => Z.of_nat (Phi %s [0; 1] (fst so))) (xtrace %s (init %s) %s)'
                                 % (c, c, c, evs)], z_scope=False)
            mine = [measure(r['graph'], ob, {0, 1}) for ob in r['obs']]
            stats['phi_directed'] = mine
            if list(vals[0]) != mine and ctx.nviol == 0:
                ctx.broken('termination measure: Phi of Proofs/SchedQuiesce.v and the measure evaluated on the implementation differ',
                           'coq=%s python=%s' % (vals[0], mine), {'source': 'correspondence', 'case': sc.strip(r)})
        except core.CoqEvalError as e:
            if ctx.nviol == 0:
                ctx.broken('evaluation of Phi failed', str(e.args[-1])[-1500:], {'source': 'correspondence'})
    ctx.note('quiesce_study', stats)
    ctx.count(evaluations=len(results), nontrivial_keys=keys)


def replay(ctx, obj):
    sc.sched_replay(ctx, obj, so.c04)
