'''C04 -- idle means idle: runnable work is released and the pipeline quiesces.'''
from props import sched_common as sc, sched_oracles as so

PID = 'C04'
META = {
    'text': 'C04_progress: in every history from boot, a pending target unit whose upstream algorithms are idle for its target and for the all-targets marker is released by the next dispatch (leaves todo, enters doing, a task message is queued or handed out) -- proved from the invariants of C01. All-targets units: partial (released when no upstream node is queued) + refuted witness (a stale queue entry blocks the analysis for ever). Idle => empty queue and empty waiter views: proved for histories without failed/invalid replies and without empty-target requests (C04_idle_empty_partial); refuted in general with two witnesses (open known findings stale-queue-entry, causes purge and empty-target-list). Quiescence is argued from these lemmas, not machine-checked. Model tied to the code by step correspondence; the oracle checks idle=>empty, progress and that no released unit is lost on the implementation at every step; a database that refuses a run id during a dispatch is modelled (Model/SchedFault.v, TickFault k): such a dispatch loses no job (C04_fault_keeps_jobs) and the next ordinary dispatch turns every kept job into messages (C04_dispatch_empties_jobs); fault histories are tied by correspondence and searched by the oracle; the invariant theorems cover fault-free histories (C04_fault_free_is_sched).',
    'note': 'Trusted: Coq kernel; Sched.v + drive_sched.py correspondence (view_todo/view_doing/crew read from the real functions). Partial: the liveness clause (quiescence, waiters eventually satisfied) is not a theorem; all-targets progress needs the no-stale-entry hypothesis. Open known findings C04/stale-queue-entry (purge; empty-target-list).',
    'technique': 'Coq proof (invariants + induction over histories; refutation witnesses by vm_compute) over hand-written executable model + model/implementation correspondence + implementation-side oracle',
}


def nontrivial(r):
    W = so.Walk(r)
    seen_fail = False
    for c in W.steps():
        ev = c['ev']
        if ev[0] == 'rep' and ev[5] != 3:
            seen_fail = True
        if ev[0] == 'org' and not ev[3]:
            seen_fail = True
        ob = c['after']
        if seen_fail and not so.executing(c, 'after') and all(not n[0] and not n[1] for n in ob['nodes']):
            return True
    return False


def run(ctx):
    sc.sched_check(
        ctx, so.c04, ['sched', 'mixed'], nontrivial,
        witnesses=['stale-queue-entry'],
        rule='(plus fault histories in which the k-th db.next() of a dispatch fails: correspondence with SchedFault.v + oracle) random engines (including analyses downstream of tasks) x random histories with failures, invalid replies and empty target lists; corpus of directed scenarios first. Non-trivial = the history reached an idle state (nothing pending, nothing executing) after >= 1 failed/invalid reply or empty-target request')


    if not ctx.replay and not ctx.nviol:
        sc.fault_study(ctx, so.c04)


def replay(ctx, obj):
    sc.sched_replay(ctx, obj, so.c04)
