'''C05 -- a failed run is contained to its own target and its dependents.'''
from props import sched_common as sc, sched_oracles as so

PID = 'C05'
META = {
    'text': 'One-step theorems about Hand._res with a failed/invalid outcome (complete + purge), for every engine graph satisfying the checked hypothesis wf_graphb and EVERY scheduler state: the target is withdrawn from every transitive dependent, all other targets and all independent algorithms are unchanged, nothing is triggered, the queue loses at most the failed node, one history entry is written. The model Sched.v is tied to pl/schedule.py + pl/farm.py by step-by-step correspondence on generated histories; the property oracle is also evaluated on the implementation snapshots around every failed reply. Worker side (pl/worker/cluster.py::execute, Model/WorkerReply.v): every ending of a run other than a normal return -- exception, invalid data, SystemExit, KeyboardInterrupt -- reaches the farm as a non-success response carrying the unit (C05_worker_reports_every_failure, C05_worker_reply_exact); the case space is finite and swept exhaustively against the real function on every run. The journal behind complete() is the real chronicle.append (scratch directory), with failure replies of units that never started.',
    'note': 'Trusted: Coq kernel; hand-written model Sched.v + correspondence driver drive_sched.py (fakes: transports, fsm stub, db.next/targets, chronicle recorder, in-memory AE packages); graph hypothesis checked per generated graph. Not covered: promotion engine on, AWS agency, real chronicle files (C18).',
    'technique': 'Coq proof over hand-written executable models (scheduler; worker reply) + model/implementation correspondence (vm_compute vs real scheduler; exhaustive sweep of cluster.execute) + implementation-side oracle',
}


def nontrivial(r):
    W = so.Walk(r)
    prev = None
    for ev, ob in zip(r['events'], r['obs']):
        if ev[0] == 'rep' and ev[5] != 3 and prev is not None:
            x = ev[2]
            dep = any(prev['nodes'][y][0] for y in W.desc[x])
            other = any(prev['nodes'][y][0] or prev['nodes'][y][1] for y in range(W.n)
                        if y != x and y not in W.desc[x])
            if dep and other:
                return True
        prev = ob
    return False


def run(ctx):
    sc.sched_check(
        ctx, so.c05, ['sched', 'mixed'], nontrivial,
        rule='random acyclic engines (<= 8 algorithms, task/analysis/regress, 2 targets) x random histories of organize / dispatch / replies (success, failure, invalid) / worker events; corpus of directed scenarios first. Non-trivial = a failed or invalid reply arrived while >= 1 dependent and >= 1 unrelated node had pending work')
    if not ctx.replay:
        worker_study(ctx)


def worker_study(ctx):
    '''worker side (cluster.execute, Model/WorkerReply.v): every way a run can
    end x told-to-abort or not x unit identities.  Small finite domain: swept
    exhaustively on every run.  Oracle (the property): a run that did not
    return normally is answered by exactly one response that is not a success,
    carrying the unit's identity; nothing else is ever written; silence only
    when the pipeline asked for it.'''
    from vlib import core
    ctx.trust('hand-written Model/WorkerReply.v (cluster.execute: how the end of a run becomes the reply) tied to the '
              'real function by an exhaustive sweep of its finite case space (drive_worker.py: scripted farm '
              'connection; Context.run replaced by a function that ends as the case says)')
    cases = []
    for e in range(6):
        for abort in (False, True):
            for (jid, rid, tgt) in (('p.a', 3, 'T1'), ('p.z', 4, None), ('q.b', 7, 'T2')):
                cases.append({'ending': e, 'abort': abort, 'jobid': jid, 'runid': rid, 'target': tgt})
    out = ctx.harness('drive_worker.py', {'cases': cases})['cases']
    vals = ctx.coq_eval(['DV.Model.WorkerReply'],
                        ['obs_reply (reply (ending_of %d) %s)' % (c['ending'], 'true' if c['abort'] else 'false')
                         for c in cases], z_scope=False, chunk=60)
    names = ['return', 'NoValidInputDataError', 'NoValidOutputDataError', 'Exception', 'SystemExit',
             'KeyboardInterrupt']
    mism = None
    for c, o, mv in zip(cases, out, vals):
        rep = {'source': 'oracle', 'worker_case': c, 'observed': o}
        sent = o['sent']
        if not c['abort']:
            bad = None
            if len(sent) != 1:
                bad = 'wrote %d messages to the farm' % len(sent)
            elif sent[0]['type'] != 'response':
                bad = 'sent a %s message back instead of a response' % sent[0]['type']
            elif (sent[0]['success'] is True) != (c['ending'] == 0):
                bad = 'reported success=%s' % sent[0]['success']
            elif (sent[0]['jobid'], sent[0]['runid'], sent[0]['target']) != (c['jobid'], c['runid'], c['target']):
                bad = 'answered for another unit: %s' % sent[0]
            elif o['escaped'] is not None and c['ending'] < 4:
                bad = 'let %s escape' % o['escaped']
            if bad:
                ctx.violation('worker-failure-not-reported' if c['ending'] else 'worker-success-not-reported',
                              {'ending': names[c['ending']]},
                              'C05: a run of %s[%s] that ends with %s: the worker %s -- the farm never learns the '
                              'outcome: nothing is recorded, nothing withdrawn'
                              % (c['jobid'], c['target'], names[c['ending']], bad), rep)
        elif sent:
            ctx.violation('worker-wrote-after-abort', {'ending': names[c['ending']]},
                          'C05: worker told to stop still wrote %s' % sent, rep)
        # correspondence
        if not sent:
            io = [0]
        elif sent[0]['type'] == 'task':
            io = [1]
        else:
            io = [2, {False: 0, True: 1, None: 2}[sent[0]['success']], 1 if sent[0]['values'] else 0]
        if list(mv) != io and mism is None:
            mism = (c, list(mv), io)
    if mism and not ctx.nviol:
        c, mv, io = mism
        ctx.broken('correspondence WorkerReply.v vs cluster.execute',
                   'case %s: model %s implementation %s' % (c, mv, io),
                   {'source': 'correspondence', 'worker_case': c, 'expected': mv, 'observed': io})
    ctx.note('worker_reply_cases', {'cases': len(cases), 'endings': names, 'exhaustive': True})
    ctx.count(evaluations=len(cases), nontrivial_keys=[('worker', c['ending'], c['abort']) for c in cases if c['ending']])
    ctx.note('fingerprint_cluster', core.fingerprint('Python/dawgie/pl/worker/cluster.py', ['execute']))


def replay(ctx, obj):
    if obj.get('worker_case'):
        out = ctx.harness('drive_worker.py', {'cases': [obj['worker_case']]})['cases'][0]
        print('replayed worker case %s: %s' % (obj['worker_case'], out))
        c, sent = obj['worker_case'], out['sent']
        if not c['abort'] and (len(sent) != 1 or sent[0]['type'] != 'response'
                               or (sent[0]['success'] is True) != (c['ending'] == 0)):
            ctx.violation('worker-failure-not-reported', {'ending': c['ending']},
                          'C05: the worker still does not report the outcome: %s' % sent,
                          {'source': 'oracle', 'worker_case': c, 'observed': out})
        return
    sc.sched_replay(ctx, obj, so.c05)
