'''C05 -- a failed run is contained to its own target and its dependents.'''
from props import sched_common as sc, sched_oracles as so

PID = 'C05'
META = {
    'text': 'One-step theorems about Hand._res with a failed/invalid outcome (complete + purge), for every engine graph satisfying the checked hypothesis wf_graphb and EVERY scheduler state: the target is withdrawn from every transitive dependent, all other targets and all independent algorithms are unchanged, nothing is triggered, the queue loses at most the failed node, one history entry is written. The model Sched.v is tied to pl/schedule.py + pl/farm.py by step-by-step correspondence on generated histories; the property oracle is also evaluated on the implementation snapshots around every failed reply.',
    'note': 'Trusted: Coq kernel; hand-written model Sched.v + correspondence driver drive_sched.py (fakes: transports, fsm stub, db.next/targets, chronicle recorder, in-memory AE packages); graph hypothesis checked per generated graph. Not covered: promotion engine on, AWS agency, real chronicle files (C18).',
    'technique': 'Coq proof over hand-written executable model + model/implementation correspondence (vm_compute vs real scheduler) + implementation-side oracle',
}


def nontrivial(r):
    W = so.Walk(r)
    prev = None
    for ev, ob in zip(r['events'], r['obs']):
        if ev[0] == 'rep' and ev[5] != 3 and prev is not None:
            x = ev[2]
            dep = any(prev['nodes'][y][0] for y in W.desc[x])
            other = any(prev['nodes'][y][0] or prev['nodes'][y][1] for y in range(W.n)
                        if y != x and y not in W.desc[x])
            if dep and other:
                return True
        prev = ob
    return False


def run(ctx):
    sc.sched_check(
        ctx, so.c05, ['sched', 'mixed'], nontrivial,
        rule='random acyclic engines (<= 8 algorithms, task/analysis/regress, 2 targets) x random histories of organize / dispatch / replies (success, failure, invalid) / worker events; corpus of directed scenarios first. Non-trivial = a failed or invalid reply arrived while >= 1 dependent and >= 1 unrelated node had pending work')


def replay(ctx, obj):
    sc.sched_replay(ctx, obj, so.c05)
