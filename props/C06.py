'''C06 -- Stored values come back intact and only to their own identity.

Model: coq/Model/Store.v (Interface.__to_key/_update/_load, Worker.do
set/get/upd, db.util encode/decode/move) over coq/Model/Catalogue.v.
Theorems: coq/Props/C06.v.  Tie: histories on the real shelve backend
(tools/harness/drive_store.py) vs the model + a reference dictionary oracle.'''
from props import store_common

PID = 'C06'
META = {
    'text': 'Theorems over the hand-written Gallina model of the shelve value path: the primary key computed for an identity (task, algorithm+version, state vector+version, value+version), target and run is stable for ever and distinct identities never share a key (ids are in bijection with versioned names), a load returns the content recorded under exactly that key, else under the highest run of the same identity and target, else leaves the slot untouched, and what it returns was stored under the same identity and target. Tied to the code by correspondence on generated histories (updates, loads, removals, version bumps, target additions, close/reopen, crashes) and a reference-dictionary oracle on the implementation. The roundtrip also holds for histories in which a client call has its k-th write to one of the five name tables refused with OSError while the database carries on (Model/StoreFault.v, C06_roundtrip_faults: the reference dictionary records only the updates that answered; C06_key_stable_faults); those histories are compared with the real code by the C08 check.',
    'note': 'Trusted: Coq kernel; hand model Store.v/Catalogue.v; driver drive_store.py (sockets bypassed); pickle round trip and digest injectivity are hypotheses. The version attribute of a loaded Value is reset by Value.__setstate__ (contents are compared, with the sealed version). No axioms.',
    'technique': 'Coq proof over a hand-written model + model/implementation correspondence on generated histories + reference-dictionary oracle on the implementation',
}


def run(ctx):
    store_common.run_check(ctx, PID)
