'''C07 -- Content-addressed store: novelty flag, single copy, digest names, no
dangling catalogue entry at any crash point of an update.

Model: coq/Model/Store.v (the six atomic steps of one value update).
Theorems: coq/Props/C07.v.  Tie: the real code run with a crash raised at
every wrapped step (tools/harness/drive_store.py) vs the model's truncated
step list + oracles over the real store directory and prime table.'''
from props import store_common

PID = 'C07'
META = {
    'text': 'Theorems over the hand-written Gallina model of one value update as six atomic steps (mkstemp, dump, md5sum, sha1sum, unlink-or-rename, table write): for every history and every crash point of every update, every stored file is named by the digest of its content, the store holds one file per name, the novelty flag is true exactly when the digest was absent before (with injective digest: exactly when the content was absent), and every primary entry names an existing stored file. Tied to the code by running the real update with a crash injected at every wrapped step, reopening, and comparing store, staging area and primary table with the model; digests are recomputed with hashlib over every stored file.',
    'note': 'Trusted: Coq kernel; hand model Store.v; driver (crash = exception raised before an atomic step; rename atomic on one device; dbm durability not modelled); md5sum/sha1sum stand-in after 40 real calls (cross-checked). No axioms; digest collision freedom is an explicit hypothesis.',
    'technique': 'Coq proof over a hand-written step model + step-instrumented model/implementation correspondence + store oracle on the implementation',
}


def run(ctx):
    store_common.run_check(ctx, PID)
