'''C07 -- Content-addressed store: novelty flag, single copy, digest names, no
dangling catalogue entry at any crash point of an update.

Model: coq/Model/Store.v (the six atomic steps of one value update).
Theorems: coq/Props/C07.v.  Tie: the real code run with a crash raised at
every wrapped step (tools/harness/drive_store.py) vs the model's truncated
step list + oracles over the real store directory and prime table.'''
from props import store_common

PID = 'C07'
META = {
    'text': 'Theorems over the hand-written Gallina model of one value update as six atomic steps (mkstemp, dump, md5sum, sha1sum, unlink-or-rename, table write): for every history and every crash point of every update, every stored file is named by the digest of its content, the store holds one file per name, the novelty flag is true exactly when the digest was absent before (with injective digest: exactly when the content was absent), and every primary entry names an existing stored file. Tied to the code by running the real update with a crash injected at every wrapped step, reopening, and comparing store, staging area and primary table with the model; digests are recomputed with hashlib over every stored file. Faults the process survives are inside the model as well (Model/StoreFault.v): for every history in which, besides the stops inside updates, the k-th write of a client call to one of the five name tables is refused with OSError and the database carries on, no primary entry names a missing file, files are named by their digest, one copy per name, the novelty flag is exact (C07_no_dangling_faults, C07_isnew_iff_faults), a refused call stores and records nothing (C07_refused_call_stores_nothing), and close/reopen is the identity on the state, so a surviving process holds nothing in memory that a restart would not rebuild (C07_survivor_is_restart); those histories run in the model and on the real code and are compared after every call, with the store oracle on the implementation.',
    'note': 'Trusted: Coq kernel; hand model Store.v; driver (crash = exception raised before an atomic step; rename atomic on one device; dbm durability not modelled); md5sum/sha1sum stand-in after 40 real calls (cross-checked). No axioms; digest collision freedom is an explicit hypothesis.',
    'technique': 'Coq proof over a hand-written step model + step-instrumented model/implementation correspondence + store oracle on the implementation',
}


def run(ctx):
    store_common.run_check(ctx, PID)
