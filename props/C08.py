'''C08 -- Catalogue integrity and exact addressing (shelve backend).

Model: coq/Model/Catalogue.v (util.append/construct/dissect/subset/indexed,
DBI.open/close, next/remove/reset/trace).  Theorems: coq/Props/C08.v.  Tie:
operation histories and pure-function units on the real code
(tools/harness/drive_store.py) against the model + the exactness oracles
(props/store_common.py).'''
from props import store_common

PID = 'C08'
META = {
    'text': 'Theorems over a hand-written Gallina model of the shelve catalogue (names as code-point lists): construct is injective, every reachable catalogue is a gap-free bijection between names and ids that close/reopen preserves and that never reassigns an id, every primary key resolves through task/algorithm/state vector/value, next() exceeds every stored run id, and subset()/remove() address exactly the entries with the given names (the repaired subset; the pre-fix prefix match is refuted by a witness). Tied to the code by correspondence on generated operation histories over prefix families of names and on the pure util functions.',
    'note': 'Trusted: Coq kernel; the hand model Catalogue.v/Store.v and the driver drive_store.py (sockets bypassed, as Test/test_07); the canonicalisers. reset()/trace() are modelled and compared, their exactness is checked by the oracle; names are assumed plain (no ":"). No axioms.',
    'technique': 'Coq proof over a hand-written model + model/implementation correspondence on generated histories + property oracle on the implementation',
}


def run(ctx):
    store_common.run_check(ctx, PID, with_units=True)
