'''C08 -- Catalogue integrity and exact addressing (shelve backend).

Model: coq/Model/Catalogue.v (util.append/construct/dissect/subset/indexed,
DBI.open/close, next/remove/reset/trace).  Theorems: coq/Props/C08.v.  Tie:
operation histories and pure-function units on the real code
(tools/harness/drive_store.py) against the model + the exactness oracles
(props/store_common.py).'''
from props import store_common

PID = 'C08'
META = {
    'text': 'Theorems over a hand-written Gallina model of the shelve catalogue (names as code-point lists): construct is injective, every reachable catalogue is a gap-free bijection between names and ids that close/reopen preserves and that never reassigns an id, every primary key resolves through task/algorithm/state vector/value, next() exceeds every stored run id, and subset()/remove() address exactly the entries with the given names (the repaired subset; the pre-fix prefix match is refuted by a witness). Tied to the code by correspondence on generated operation histories over prefix families of names and on the pure util functions. util.construct, util.dissect, util.subset and Version.asstring are in addition regenerated from the python source on every run by a fail-closed translator (Gen/UtilGen.v) and PROVED equal, for all arguments, to the model functions the theorems speak about (C08_construct_is_source, C08_dissect_is_source, C08_subset_is_source): for these three functions the tie to the code is a proof obligation, not a sample.',
    'note': 'Trusted: Coq kernel; the hand model Catalogue.v/Store.v and the driver drive_store.py (sockets bypassed, as Test/test_07); the canonicalisers. reset()/trace() are modelled and compared, their exactness is checked by the oracle; names are assumed plain (no ":"). No axioms.',
    'technique': 'Coq proof over a hand-written model + source-generated definitions proved equal to the model functions (translator validated by a finite sweep) + model/implementation correspondence on generated histories + property oracle on the implementation',
}


def run(ctx):
    # source tie by translation + proof (props/gen_tie.py): regenerate
    # Gen/UtilGen.v before the proofs are checked, validate it afterwards
    from props import gen_tie
    g = None if ctx.replay else gen_tie.util_generate(ctx)
    store_common.run_check(ctx, PID, with_units=True)
    if g is not None:
        gen_tie.util_validate(ctx, g, PID)
