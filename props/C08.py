'''C08 -- Catalogue integrity and exact addressing (shelve backend).

Model: coq/Model/Catalogue.v (util.append/construct/dissect/subset/indexed,
DBI.open/close, next/remove/reset/trace).  Theorems: coq/Props/C08.v.  Tie:
operation histories and pure-function units on the real code
(tools/harness/drive_store.py) against the model + the exactness oracles
(props/store_common.py).'''
from props import store_common

PID = 'C08'
META = {
    'text': 'Theorems over a hand-written Gallina model of the shelve catalogue (names as code-point lists): construct is injective, every reachable catalogue is a gap-free bijection between names and ids that close/reopen preserves and that never reassigns an id, every primary key resolves through task/algorithm/state vector/value, next() exceeds every stored run id, and subset()/remove() address exactly the entries with the given names (the repaired subset; the pre-fix prefix match is refuted by a witness). Tied to the code by correspondence on generated operation histories over prefix families of names and on the pure util functions. util.construct, util.dissect, util.subset and Version.asstring are in addition regenerated from the python source on every run by a fail-closed translator (Gen/UtilGen.v) and PROVED equal, for all arguments, to the model functions the theorems speak about (C08_construct_is_source, C08_dissect_is_source, C08_subset_is_source): for these three functions the tie to the code is a proof obligation, not a sample. Refused writes are inside the model (Model/StoreFault.v, extending Catalogue.v/Store.v): a client call (add, registration, update, load) whose k-th write to one of the five name tables raises OSError while the database process carries on; util.append writes the table first and the in-memory index afterwards, so the refused row is in neither, the rows the call appended before it stay and the call answers with the exception. For every history of such calls (C08_catalogue_inv_faults, C08_ids_never_reassigned_faults) every name table is still a gap-free bijection with the index as its inverse, close/reopen is the identity, ids are never reassigned and every primary key resolves; a refused call changes neither the primary table nor the store (C08_refused_call_keeps_registered); with nothing armed the extended model equals the model (C08_faults_conservative); with the index extended before the table write (the order of seeded change C08-4) the invariant is refuted by a two-call witness (C08_catalogue_inv_faults_refuted). Tie: the same fault histories (a directed sweep over every k for add/registration/update/load plus random ones) run in the model and on the real code and compared after every call (reply, refused or not, primary table, store, staging area, the five indices, the five tables), plus the structural oracle on the implementation own tables.',
    'note': 'Trusted: Coq kernel; the hand model Catalogue.v/Store.v and the driver drive_store.py (sockets bypassed, as Test/test_07); the canonicalisers. reset()/trace() are modelled and compared, their exactness is checked by the oracle; names are assumed plain (no ":"). A refused write is an OSError raised by shelve.Shelf.__setitem__ before the dbm write (the dbm file is assumed unchanged by a refused write). No axioms.',
    'technique': 'Coq proof over a hand-written model + source-generated definitions proved equal to the model functions (translator validated by a finite sweep) + model/implementation correspondence on generated histories + property oracle on the implementation',
}


def run(ctx):
    # source tie by translation + proof (props/gen_tie.py): regenerate
    # Gen/UtilGen.v before the proofs are checked, validate it afterwards
    from props import gen_tie
    g = None if ctx.replay else gen_tie.util_generate(ctx)
    store_common.run_check(ctx, PID, with_units=True)
    if g is not None:
        gen_tie.util_validate(ctx, g, PID)
