'''C09 -- the derived task graph (dawgie.pl.dag.Construct) is faithful to the
declared dependencies.

Model: coq/Model/Dag.v (hand-written, one Gallina function per Python
function); theorems: coq/Props/C09.v over coq/Proofs/DagProofs.v.
Tie: tools/harness/drive_dag.py runs the real Construct on in-memory engines
generated from descriptors (tools/harness/engine_gen.py); the same descriptor
rendered as a Gallina term goes through Dag.observe; every attribute the
scheduler reads is compared.  Oracle: an independent reference (Warshall
closure on the descriptor) against the implementation's observation.
'''
import copy
import json
import os
import random
import sys

from vlib import core

sys.path.insert(0, os.path.join(core.VERIF, 'tools', 'harness'))
import engine_gen  # noqa: E402

PID = 'C09'
META = {
    'text': 'Theorems over a hand-written Gallina model of dag.Construct (value-level build, _feedback, _parents DFS, _ancestry closure, Node.trim at every granularity, levels): for every engine descriptor with unique names, resolved references and a rank witness (acyclic), the trimmed trees have exactly one node per algorithm / state vector / package / value, an edge exactly where an input is declared, ancestry = transitive closure of the algorithm-level edges, feedback references add no edge and no ancestry and every fed-back value is a key of feedbacks mapped to a consumer that declares it; the exported per-algorithm record is well formed (anc = closure of inverse kids, kids acyclic). Unbounded (any number of packages, algorithms, state vectors, values, references).',
    'note': 'Trusted: Coq kernel; the hand-written model Model/Dag.v tied to dag.Construct by per-run correspondence on generated engines (every attribute the scheduler reads, ordered where the code is ordered; the iteration order of two python sets is taken from the implementation as an oracle input); engine_gen (descriptor -> python engine and descriptor -> Gallina term denote the same engine; spot-checked each run by asking the generated engine for its own routines/state vectors/references). Acyclicity enters as a boolean rank witness. No axioms.',
    'technique': 'Coq proof over hand model + model/implementation correspondence on generated engines + independent reference oracle (Warshall closure)',
}

FP = ('Python/dawgie/pl/dag.py',
      ['Construct.__init__', 'Construct._ancestry', 'Construct._build_tree',
       'Construct._feedback', 'Construct._parents', 'Construct._sub_analysis',
       'Construct._sub_regression', 'Construct._sub_task',
       'Construct._trim_trees', 'Construct.trim', 'Node.add', 'Node.graph',
       'Node.trim', 'Node.iter', 'Node.locate'])
FP2 = ('Python/dawgie/util/refs.py',
       ['algref2svref', 'as_vref', 'svref2vref', 'vref_as_name'])
# expected fingerprints live in corpus/C09/fingerprints.json; a change escalates
# the run to thorough depth (DESIGN 5.2)


# ---------------------------------------------------------------------------
# generators
# ---------------------------------------------------------------------------

def _alg(name, deps=(), fb=(), svs=(('s0', ('v0',)),)):
    return {'alg': name, 'ver': [1, 0, 0], 'where': 'cluster',
            'svs': [{'name': s, 'ver': [1, 0, 0],
                     'vals': [{'name': v, 'ver': [1, 0, 0]} for v in vs]}
                    for s, vs in svs],
            'deps': list(deps), 'feedback': list(fb)}


def _r(lvl, pkg, fac, alg, sv=None, val=None):
    r = {'lvl': lvl, 'pkg': pkg, 'fac': fac, 'alg': alg}
    if sv is not None:
        r['sv'] = sv
    if val is not None:
        r['val'] = val
    return r


def _eng(*pkgs):
    out = []
    for name, task, analysis, regress in pkgs:
        out.append({'name': name, 'task': task, 'analysis': analysis,
                    'regress': regress, 'events': []})
    return {'base': 'vae', 'packages': out, 'targets': ['T1']}


TWO = (('s0', ('v0', 'v1')), ('s1', ('v0',)))


def directed():
    '''branch-covering scenarios (always run first).'''
    c = []
    # chain a0 -> a1 -> a2 at the three reference levels
    c.append(('chain', _eng(('p0', [
        _alg('a0', svs=TWO),
        _alg('a1', [_r('alg', 'p0', 'task', 'a0')], svs=TWO),
        _alg('a2', [_r('sv', 'p0', 'task', 'a1', 's1')]),
        _alg('a3', [_r('v', 'p0', 'task', 'a2', 's0', 'v0')])], [], []))))
    # diamond + shared input + feedback from the bottom to the top
    c.append(('diamond', _eng(
        ('p0', [_alg('a0', fb=[_r('v', 'p1', 'task', 'a3', 's0', 'v0')], svs=TWO),
                _alg('a1', [_r('sv', 'p0', 'task', 'a0', 's0')])], [], []),
        ('p1', [_alg('a2', [_r('v', 'p0', 'task', 'a0', 's1', 'v0')]),
                _alg('a3', [_r('alg', 'p0', 'task', 'a1'),
                            _r('alg', 'p1', 'task', 'a2')])], [], []))))
    # analysis above tasks, regression beside, analysis consumed by a task
    c.append(('kinds', _eng(
        ('p0', [_alg('t0'), _alg('t2', [_r('alg', 'p0', 'analysis', 'n0')])],
         [_alg('n0', [_r('alg', 'p0', 'task', 't0')])],
         [_alg('r0', [_r('v', 'p0', 'task', 't0', 's0', 'v0')])]),
        ('p1', [], [_alg('n1', [_r('alg', 'p0', 'regress', 'r0'),
                                _r('alg', 'p0', 'task', 't2')])], []))))
    # same algorithm referenced at several levels by one consumer; two consumers
    # of the same fed-back value (last one in _flat order wins in feedbacks)
    c.append(('multi', _eng(('p0', [
        _alg('a0', svs=TWO, fb=[_r('alg', 'p0', 'task', 'a2')]),
        _alg('a1', [_r('alg', 'p0', 'task', 'a0'),
                    _r('sv', 'p0', 'task', 'a0', 's0'),
                    _r('v', 'p0', 'task', 'a0', 's0', 'v1')],
             fb=[_r('v', 'p0', 'task', 'a2', 's0', 'v0'),
                 _r('v', 'p0', 'task', 'a2', 's0', 'v0')]),
        _alg('a2', [_r('v', 'p0', 'task', 'a1', 's0', 'v0'),
                    _r('v', 'p0', 'task', 'a0', 's1', 'v0')])], [], []))))
    # two independent roots, fan-in, fan-out over three packages
    c.append(('fan', _eng(
        ('p0', [_alg('a0'), _alg('a1')], [], []),
        ('p1', [_alg('a2', [_r('alg', 'p0', 'task', 'a0'),
                            _r('alg', 'p0', 'task', 'a1')]),
                _alg('a3', [_r('alg', 'p0', 'task', 'a0')]),
                _alg('a4', [_r('alg', 'p0', 'task', 'a0')])], [], []),
        ('p2', [_alg('a5', [_r('alg', 'p1', 'task', 'a2'),
                            _r('alg', 'p1', 'task', 'a3'),
                            _r('alg', 'p1', 'task', 'a4')])], [], []))))
    # a single root, nothing else
    c.append(('single', _eng(('p0', [_alg('a0')], [], []))))
    return c


def malformed():
    '''outside the theorem hypotheses; correspondence only.'''
    c = []
    # V reference to a feature that does not exist: placeholder node
    c.append(('ghost-value', _eng(('p0', [
        _alg('a0'), _alg('a1', [_r('v', 'p0', 'task', 'a0', 's0', 'nope')]),
        _alg('a2', [_r('alg', 'p0', 'task', 'a0')])], [], []))))
    # an algorithm that depends on itself (besides a root)
    c.append(('self-dep', _eng(('p0', [
        _alg('a0'),
        _alg('a1', [_r('alg', 'p0', 'task', 'a0'), _r('alg', 'p0', 'task', 'a1')]),
        _alg('a2', [_r('alg', 'p0', 'task', 'a1')])], [], []))))
    # reference to an algorithm without state vectors: consumer is no root and
    # has no parent
    c.append(('empty-alg', _eng(('p0', [
        _alg('a0', svs=()), _alg('a1', [_r('alg', 'p0', 'task', 'a0')]),
        _alg('a2')], [], []))))
    return c


def exhaustive():
    '''every dependency shape over 4 algorithms (algorithm i may depend on any
    subset of the earlier ones: 64 shapes), reference levels rotating, with and
    without a feedback reference from the first to the last algorithm.'''
    out = []
    lv = ['alg', 'sv', 'v']
    for mask in range(64):
        bits = [(mask >> k) & 1 for k in range(6)]
        pairs = [(1, 0), (2, 0), (2, 1), (3, 0), (3, 1), (3, 2)]
        for fb in (False, True):
            algs = []
            for i in range(4):
                deps = []
                for k, (c, p) in enumerate(pairs):
                    if c == i and bits[k]:
                        L = lv[(k + mask) % 3]
                        deps.append(_r(L, 'p%d' % (p % 2), 'task', 'a%d' % p,
                                       's1' if L != 'alg' else None,
                                       'v0' if L == 'v' else None))
                algs.append(_alg('a%d' % i, deps, svs=TWO))
            if fb:
                algs[0]['feedback'].append(_r('v', 'p1', 'task', 'a3', 's0', 'v1'))
            out.append(('ex%d%s' % (mask, 'f' if fb else ''), _eng(
                ('p0', [algs[0], algs[2]], [], []), ('p1', [algs[1], algs[3]], [], [])), True))
    return out


def gen_cases(ctx, n):
    cases = [(k, d, True) for k, d in directed()]
    cases += [(k, d, False) for k, d in malformed()]
    i = 0
    while len(cases) < n:
        rng = random.Random('%s:C09:%d' % (ctx.seed, i))
        shape = i % 4
        if shape == 0:
            d = engine_gen.random_desc(rng, npk=3, nalg=6)
        elif shape == 1:
            d = engine_gen.random_desc(rng, npk=2, nalg=9, feedback=0.7, ndep=4)
        elif shape == 2:
            d = engine_gen.random_desc(rng, npk=4, nalg=12, nsv=3, nval=2,
                                       ndep=3, feedback=0.6)
        else:
            d = engine_gen.random_desc(rng, npk=1, nalg=5, nsv=2, nval=3,
                                       feedback=0.9)
        cases.append(('rnd%d' % i, d, True))
        i += 1
    return cases


# ---------------------------------------------------------------------------
# independent reference on the descriptor
# ---------------------------------------------------------------------------

def trim(n, L):
    return '.'.join(n.split('.')[:L])


def reference(desc):
    own, vedges, fb = {}, set(), {}
    for pkg, kind, a in engine_gen.algorithms(desc):
        vals = engine_gen.own_values(pkg, a)
        own[pkg + '.' + a['alg']] = (kind, vals)
        for r in a.get('deps', []):
            for p in engine_gen.expand(desc, r):
                for c in vals:
                    vedges.add((p, c))
        for r in a.get('feedback', []):
            for v in engine_gen.expand(desc, r):
                fb.setdefault(v, set()).add(pkg + '.' + a['alg'])
    return own, vedges, fb


def warshall(nodes, edges):
    '''anc[x] = {a | a ->+ x}'''
    nodes = sorted(nodes)
    reach = {(a, b) for a, b in edges}
    for k in nodes:
        ins = [a for a in nodes if (a, k) in reach]
        outs = [b for b in nodes if (k, b) in reach]
        for a in ins:
            for b in outs:
                reach.add((a, b))
    anc = {n: set() for n in nodes}
    for a, b in reach:
        anc[b].add(a)
    return anc


def features(desc):
    '''what makes a case non-trivial (DESIGN Appendix B)'''
    own, vedges, fb = reference(desc)
    ae = {(trim(p, 2), trim(c, 2)) for p, c in vedges}
    lv = {r['lvl'] for _, _, a in engine_gen.algorithms(desc)
          for r in a.get('deps', [])}
    kids = {}
    par = {}
    for a, b in ae:
        kids.setdefault(a, set()).add(b)
        par.setdefault(b, set()).add(a)
    shared = any(len(v) >= 2 for v in kids.values())
    anc = warshall(set(own), ae)
    # two distinct parents of one node with a common ancestor-or-self: two paths
    diamond = any(
        (anc[p] | {p}) & (anc[q] | {q})
        for ps in par.values() for p in ps for q in ps if p < q)
    return {'levels': len(lv), 'shared': shared, 'diamond': diamond,
            'feedback': bool(fb), 'algs': len(own), 'vedges': len(vedges),
            'kinds': len({k for k, _ in own.values()})}


def oracle(desc, o):
    '''the property, on the implementation's own observation.  Returns a list
    of (kind, fields, text).'''
    bad = []
    own, vedges, fb = reference(desc)
    allv = [v for _, vs in own.values() for v in vs]
    trees = {2: o['at'], 3: o['svt'], 1: o['tt']}
    for L in (4, 3, 2, 1):
        if L == 4:
            nodes = set(o['flat'])
            got = {(p, c) for p, d in o['v'].items() for c in d['kids']}
        else:
            nodes = set(trees[L]['nodes'])
            got = {(p, c) for p, d in trees[L]['nodes'].items() for c in d['kids']}
        want_nodes = {trim(v, L) for v in allv}
        if nodes != want_nodes:
            bad.append(('nodes', {'level': L},
                        'level %d nodes differ: %s' % (L, sorted(nodes ^ want_nodes))))
        want = {(trim(p, L), trim(c, L)) for p, c in vedges}
        if got != want:
            bad.append(('edges', {'level': L},
                        'level %d edges differ: %s' % (L, sorted(got ^ want)[:6])))
    for tag, d in o['at']['nodes'].items():
        if len(d['kids']) != len(set(d['kids'])):
            bad.append(('edges', {'level': 2}, 'duplicate child under ' + tag))
    # one node per algorithm, with the right algorithm object and factory
    for tag, d in o['at']['nodes'].items():
        if tag in own and (d['fac'] != own[tag][0] or d['alg'] != tag.split('.')[1]):
            bad.append(('nodes', {'level': 2}, 'node %s carries %s/%s' % (tag, d['fac'], d['alg'])))
    # ancestry = transitive closure of the algorithm-level edges (X != Y)
    ae = {(trim(p, 2), trim(c, 2)) for p, c in vedges if trim(p, 2) != trim(c, 2)}
    anc = warshall(set(own), ae)
    for tag, d in o['at']['nodes'].items():
        if set(d['anc']) != anc.get(tag, set()):
            bad.append(('ancestry', {'level': 2},
                        'ancestry of %s: %s' % (tag, sorted(set(d['anc']) ^ anc.get(tag, set())))))
        pp = {a for a, b in ae if b == tag}
        if set(d['par']) != pp:
            bad.append(('ancestry', {'level': 2, 'attr': 'parents'},
                        'parents of %s: %s' % (tag, sorted(set(d['par']) ^ pp))))
    ve = {(p, c) for p, c in vedges if trim(p, 2) != trim(c, 2)}
    vanc = warshall(set(allv), ve)
    for tag, d in o['v'].items():
        if set(d['anc']) != vanc.get(tag, set()):
            bad.append(('ancestry', {'level': 4},
                        'value ancestry of %s: %s' % (tag, sorted(set(d['anc']) ^ vanc.get(tag, set())))))
    # wf on the implementation's own tree: anc = closure of the inverse of kids
    ke = {(p, c) for p, d in o['at']['nodes'].items() for c in d['kids'] if c != p}
    kanc = warshall(set(o['at']['nodes']), ke)
    for tag, d in o['at']['nodes'].items():
        if set(d['anc']) != kanc[tag]:
            bad.append(('ancestry', {'level': 2, 'attr': 'wf'},
                        'anc of %s is not the closure of kids' % tag))
        if tag in kanc[tag]:
            bad.append(('ancestry', {'level': 2, 'attr': 'cycle'}, 'cycle through ' + tag))
    # feedback: every fed-back value is a key mapped to a consumer declaring it
    fbs = dict(map(tuple, o['feedbacks']))
    for v, consumers in fb.items():
        if v not in fbs or trim(fbs[v], 2) not in consumers:
            bad.append(('feedback', {'attr': 'feedbacks'},
                        'fed-back value %s -> %s, consumers %s' % (v, fbs.get(v), sorted(consumers))))
    for v in fbs:
        if v not in fb:
            bad.append(('feedback', {'attr': 'feedbacks'}, 'spurious feedback key ' + v))
    for tag, d in o['at']['nodes'].items():
        want = {trim(v, 2) for v, cs in fb.items() if tag in cs}
        if set(d['fb']) != want:
            bad.append(('feedback', {'attr': 'node'},
                        'feedback attribute of %s: %s' % (tag, sorted(set(d['fb']) ^ want))))
    # iter()/locate() see every node of at (the scheduler's view)
    seen = set()
    for r, tags in o['iter'].items():
        seen.update(tags)
    if seen != {trim(v, 2) for v in allv}:
        bad.append(('nodes', {'level': 2, 'attr': 'iter'}, 'iter() misses nodes'))
    for tag in {trim(v, 2) for v in allv}:
        if not o['locate'].get(tag):
            bad.append(('nodes', {'level': 2, 'attr': 'locate'},
                        'locate(%s) finds nothing below the roots of at' % tag))
    return bad


# ---------------------------------------------------------------------------
# canonical forms of both observations
# ---------------------------------------------------------------------------

def canon_impl(o):
    def tree(t, anc):
        out = {'roots': t['roots'], 'nodes': {}}
        for k, d in t['nodes'].items():
            e = {'kids': d['kids'], 'fb': sorted(d['fb']), 'lvl': d['lvl']}
            if anc:
                e['anc'] = sorted(d['anc'])
                e['par'] = sorted(d['par'])
            out['nodes'][k] = e
        return out
    graph = {k: {'kids': d['kids'], 'anc': sorted(d['anc']), 'asp': d['asp'],
                 'fac': d['fac'], 'lvl': d['lvl'], 'ins': d['ins'],
                 'outs': d['outs']} for k, d in o['at']['nodes'].items()}
    return {
        'graph': graph,
        'flat': o['flat'], 'roots': o['roots'],
        'v': {k: {'kids': d['kids'], 'par': sorted(d['par']),
                  'anc': sorted(d['anc']), 'fb': sorted(d['fb']),
                  'lvl': d['lvl']} for k, d in o['v'].items()},
        'feedbacks': [list(x) for x in o['feedbacks']],
        'at': tree(o['at'], True), 'svt': tree(o['svt'], False),
        'tt': tree(o['tt'], False)}


def canon_model(val, t):
    u = t.undotted
    flat, rts, vn, fbs, at, svt, tt, gr = val

    def opt(x):
        return x[1] if isinstance(x, tuple) and x[0] == 'Some' else x

    def tree(tr, extra=None):
        roots, nodes = tr
        d = {u(x): {'kids': [u(k) for k in ks], 'fb': sorted(u(f) for f in fb),
                    'lvl': opt(lv)} for x, ks, fb, lv in nodes}
        if extra is not None:
            for x, anc, par in extra:
                d[u(x)]['anc'] = sorted(u(a) for a in anc)
                d[u(x)]['par'] = sorted(u(a) for a in par)
        # the driver can only see what is reachable from the roots by children
        seen, todo = set(), [u(r) for r in roots]
        while todo:
            n = todo.pop()
            if n in seen or n not in d:
                continue
            seen.add(n)
            todo.extend(d[n]['kids'])
        return {'roots': [u(r) for r in roots],
                'nodes': {k: v for k, v in d.items() if k in seen}}
    at_c = tree(at[:2], at[2])
    graph = {u(x): {'kids': [u(k) for k in ks], 'anc': sorted(u(a) for a in anc),
                    'asp': asp, 'fac': fac[0].lower(), 'lvl': lv,
                    'ins': [u(i) for i in ins], 'outs': [u(i) for i in outs]}
             for x, ks, anc, asp, fac, lv, ins, outs in gr if u(x) in at_c['nodes']}
    return {
        'graph': graph,
        'flat': [u(x) for x in flat], 'roots': [u(x) for x in rts],
        'v': {u(n): {'kids': [u(k) for k in ks], 'par': sorted(u(p) for p in par),
                     'anc': sorted(u(a) for a in anc), 'fb': sorted(u(f) for f in fb),
                     'lvl': opt(lv)} for n, ks, par, anc, fb, lv in vn},
        'feedbacks': [[u(k), u(v)] for k, v in fbs],
        'at': at_c, 'svt': tree(svt), 'tt': tree(tt)}


def first_diff(a, b, path=''):
    if type(a) is not type(b):
        return '%s: type %s vs %s' % (path, type(a).__name__, type(b).__name__)
    if isinstance(a, dict):
        for k in sorted(set(a) | set(b)):
            if k not in a or k not in b:
                return '%s/%s: only on %s side' % (path, k, 'impl' if k in a else 'model')
            d = first_diff(a[k], b[k], path + '/' + str(k))
            if d:
                return d
        return None
    if a != b:
        return '%s: impl=%s model=%s' % (path, json.dumps(a)[:300], json.dumps(b)[:300])
    return None


def gallina_case(desc, o):
    '''one Gallina expression per case: (observe e ro fo [, wf_engineb e rk]);
    the engine literal is elaborated once (it dominates the cost).'''
    term, t = engine_gen.to_gallina(desc)

    def nm(s):
        return '[' + ';'.join(str(i) for i in t.dotted(s)) + ']'
    ro = '[' + ';'.join(nm(r) for r in o['roots']) + ']'
    fo = '[' + ';'.join('(%s,[%s])' % (nm(k), ';'.join(nm(f) for f in d['fb']))
                        for k, d in o['v'].items() if len(d['fb']) > 1) + ']'
    rank = engine_gen.topo_rank(desc)
    if rank is None:
        body = 'observe e %s %s' % (ro, fo)
    else:
        rk = '[' + ';'.join('([%d;%d],%d)' % (t.id(p), t.id(a), r)
                            for (p, a), r in sorted(rank.items())) + ']'
        body = '(observe e %s %s, wf_engineb e %s)' % (ro, fo, rk)
    return '(let e : engine := %s in %s)%%nat' % (term, body), t, rank is not None


# ---------------------------------------------------------------------------
# shrinking
# ---------------------------------------------------------------------------

def shrink(desc, still_fails, budget=40):
    '''greedy delta debugging over the descriptor: drop algorithm, drop
    reference, drop state vector / value.'''
    def candidates(d):
        for pi, p in enumerate(d['packages']):
            for kind in engine_gen.KINDS:
                for ai, a in enumerate(p.get(kind, [])):
                    yield ('alg', pi, kind, ai)
                    for key in ('deps', 'feedback'):
                        for ri in range(len(a.get(key, []))):
                            yield (key, pi, kind, ai, ri)

    def apply(d, c):
        d = copy.deepcopy(d)
        p = d['packages'][c[1]]
        if c[0] == 'alg':
            a = p[c[2]].pop(c[3])
            gone = (p['name'], a['alg'])
            for q in d['packages']:
                for kind in engine_gen.KINDS:
                    for b in q.get(kind, []):
                        for key in ('deps', 'feedback'):
                            b[key] = [r for r in b.get(key, [])
                                      if (r['pkg'], r['alg']) != gone]
        else:
            p[c[2]][c[3]][c[0]].pop(c[4])
        d['packages'] = [q for q in d['packages']
                         if q['task'] or q['analysis'] or q['regress']]
        return d
    progress = True
    while progress and budget > 0:
        progress = False
        for c in list(candidates(desc)):
            if budget <= 0:
                break
            budget -= 1
            try:
                d2 = apply(desc, c)
                if d2['packages'] and still_fails(d2):
                    desc = d2
                    progress = True
                    break
            except Exception:  # noqa: BLE001
                continue
    return desc


# ---------------------------------------------------------------------------
# the check
# ---------------------------------------------------------------------------

def run_cases(ctx, cases, real_dot=2, model=True):
    '''implementation + oracle + model + diff on the given cases; returns
    (#violations reported, first correspondence mismatch or None)'''
    descs = [d for _, d, _ in cases]
    res = ctx.harness('drive_dag.py', {'cases': descs, 'real_dot': real_dot})
    impl = res['cases']
    if len(descs) > 50:
        ctx.note('impl_line_coverage', res.get('coverage'))
    nviol = 0
    keys = []
    hits = {}
    selfbad = []
    hist = {'levels>=2': 0, 'shared': 0, 'diamond': 0, 'feedback': 0, 'kinds>=2': 0}
    for (cid, desc, wf), o in zip(cases, impl):
        if o['selfcheck']:
            # the generated engine does not describe itself as its descriptor
            # does (renderer bug, or as_vref itself changed): keep looking for a
            # failing input, report the renderer only if none is found
            selfbad.append((cid, desc, o['selfcheck']))
        if o['exc'] is not None:
            ctx.violation('construct-raises', {'exception': o['exc']},
                          'Construct raised %s on engine %s' % (o['exc'], cid),
                          {'source': 'oracle', 'case': cid, 'engine': desc})
            nviol += 1
            continue
        if not wf:
            continue
        f = features(desc)
        for k, b in (('levels>=2', f['levels'] >= 2), ('shared', f['shared']),
                     ('diamond', f['diamond']), ('feedback', f['feedback']),
                     ('kinds>=2', f['kinds'] >= 2)):
            hist[k] += bool(b)
        if (f['diamond'] or f['shared']) and f['levels'] >= 2 and f['feedback']:
            keys.append(('engine', desc['packages']))
        for kind, fields, text in oracle(desc, o):
            sig = kind + json.dumps(fields, sort_keys=True)
            size = len(json.dumps(desc))
            if sig not in hits or size < hits[sig][0]:
                hits[sig] = (size, cid, desc, kind, fields, text)
    # one report per distinct (kind, fields): the smallest failing engine, shrunk
    for sig in sorted(hits)[:4]:
        _, cid, desc, kind, fields, text = hits[sig]

        def fails(d2, kind=kind, fields=fields):
            o2 = ctx.harness('drive_dag.py', {'cases': [d2]})['cases'][0]
            return o2.get('exc') is None and any(
                k == kind and f == fields for k, f, _ in oracle(d2, o2))
        small = shrink(desc, fails, budget=20)
        o2 = ctx.harness('drive_dag.py', {'cases': [small]})['cases'][0]
        again = [h for h in oracle(small, o2) if h[0] == kind and h[1] == fields]
        if again:
            text = again[0][2]
        else:
            small = desc
        ctx.violation(kind, fields,
                      'dag.Construct: %s (engine %s)' % (text, cid),
                      {'source': 'oracle', 'case': cid, 'engine': small,
                       'original_engine': desc, 'theorem': 'C09_%s' % kind})
        nviol += 1
    if selfbad and not nviol:
        cid, desc, sc = selfbad[0]
        ctx.broken('engine_gen: generated python engine differs from its descriptor',
                   '\n'.join(sc[:3]),
                   {'source': 'correspondence', 'case': cid, 'engine': desc})
    if not model:
        return nviol, None, impl
    # ---- model side ------------------------------------------------------
    # one expression per case: observe ... and, for every engine with a
    # topological rank, the theorems' hypothesis wf_engineb with that witness
    exprs, kinds = [], []
    for i, ((cid, desc, wf), o) in enumerate(zip(cases, impl)):
        if o['exc'] is not None:
            continue
        g, t, has_wf = gallina_case(desc, o)
        exprs.append(g)
        kinds.append((i, t, has_wf))
    ctx.log('implementation ran on %d cases' % len(impl))
    allvals = ctx.coq_eval(['DV.Model.Dag'], exprs, chunk=18, z_scope=False)
    ctx.log('model ran on %d cases' % len(allvals))
    mismatch = None
    widx, wvals = [], []
    nobs = 0
    for (i, t, has_wf), val in zip(kinds, allvals):
        if has_wf:
            widx.append(i)
            wvals.append(val[8])
            val = val[:8]
        nobs += 1
        a = canon_impl(impl[i])
        b = canon_model(val, t)
        d = first_diff(a, b)
        if d and mismatch is None:
            mismatch = (cases[i][0], cases[i][1], d)
    ctx.count(evaluations=nobs, nontrivial_keys=keys)
    for k, v in hist.items():
        ctx.cov.setdefault('input_histogram', {})
        ctx.cov['input_histogram'][k] = ctx.cov['input_histogram'].get(k, 0) + v
    nwf = 0
    for i, w in zip(widx, wvals):
        nwf += bool(w)
        if w is not cases[i][2]:
            ctx.broken('hypothesis checker wf_engineb answers %s on case %s (expected %s)'
                       % (w, cases[i][0], cases[i][2]), json.dumps(cases[i][1])[:3000],
                       {'source': 'correspondence', 'case': cases[i][0], 'engine': cases[i][1]})
    ctx.cov['hypotheses_hold_on'] = ctx.cov.get('hypotheses_hold_on', 0) + nwf
    return nviol, mismatch, impl


def run(ctx):
    ctx.cov['rule'] = (
        'case = engine descriptor (6 directed shapes + 3 malformed ones + seeded '
        'random acyclic engines: 1-4 packages, 2-12 algorithms over task / '
        'analysis / regress, 1-3 state vectors x 1-3 values, 0-4 references per '
        'algorithm at alg/sv/value level, 0-3 forward feedback references); '
        'evaluation = real dag.Construct and Dag.observe on the same descriptor, '
        'all attributes compared; non-trivial = the engine has a diamond or a '
        'shared input, references at >= 2 levels and >= 1 feedback reference')
    ctx.trust(
        'hand-written model coq/Model/Dag.v of dag.Construct (correspondence '
        'sampled each run: flat order, children order, parents, ancestry, '
        'feedback, feedbacks, at/svt/tt roots, children, feedback, level)',
        'tools/harness/engine_gen.py: descriptor -> in-memory python engine and '
        'descriptor -> Gallina term denote the same engine (the generated engine '
        'is asked for its own routines/state vectors/references every case)',
        'the iteration order of the python sets Construct._roots and '
        "node['feedback'] is read from the implementation and given to the "
        'model as an oracle (members are computed by the model and compared)',
        'pydot.Dot.write_svg replaced by a stub except for 2 cases per run '
        '(graphviz is the outside world; Construct.graph only reads bytes back)')
    ctx.assume(
        'names contain no "." (compliance rule); package names, (package, '
        'algorithm) names, state-vector names within an algorithm and value '
        'names within a state vector are unique',
        'every reference names an existing algorithm / state vector / value and '
        'expands to at least one value (compliance rules 05, 09, 11: no empty '
        'state vector, no algorithm without state vectors, references resolve); '
        'an unresolved feedback reference raises KeyError in Construct._feedback '
        'and is outside the model; an algorithm whose inputs all expand to nothing '
        'gets no node in the trees (modelled, outside the theorems)',
        'acyclic at algorithm level (rank witness); on a cycle below a root '
        'Construct._ancestry does not terminate (stated, not modelled)')
    fp = dict(core.fingerprint(*FP))
    fp.update(core.fingerprint(*FP2))
    ctx.note('fingerprints', fp)
    expect = _expected_fp()
    escalate = bool(expect) and fp != expect
    ctx.note('escalated_by_fingerprint', escalate)
    deep = (not ctx.quick) or escalate

    # ---- replay ------------------------------------------------------------
    if ctx.replay:
        rp = json.load(open(ctx.replay))
        if 'engine' not in rp:      # a broken proof: nothing to replay but the build
            r = ctx.coq_props()
            if not r['ok']:
                ctx.broken('theorem/file %s' % r['failing'], r['log'],
                           {'source': 'proof', 'theorem': r['failing']})
            return
        cases = [('replay', rp['engine'], True)]
        r = ctx.coq_props()
        nv, mm, _ = run_cases(ctx, cases, real_dot=1)
        if mm:
            ctx.broken('correspondence Dag.observe vs dag.Construct', mm[2],
                       {'source': 'correspondence', 'engine': mm[1]})
        return

    # ---- proofs --------------------------------------------------------------
    r = ctx.coq_props()
    ctx.log('proofs: ok=%s' % r['ok'])
    if r['ok'] and not ctx.quick:
        # independent re-check of the compiled theory (DESIGN section 6)
        rc, out = core.sh('timeout 900 coqchk -silent -o -R . DV DV.Props.C09', cwd=core.COQ)
        summary = out[out.find('CONTEXT SUMMARY'):][:1200] if 'CONTEXT SUMMARY' in out else out[-1200:]
        ctx.note('coqchk', {'exit': rc, 'summary': summary})
        ctx.cov['checker_cmd'] += ' && coqchk -silent -o -R . DV DV.Props.C09'
        if rc != 0 or 'Axioms: <none>' not in out:
            r = dict(r, ok=False, failing='coqchk Props/C09', log=out[-3000:])
        ctx.log('coqchk: exit=%d' % rc)
    # thorough: 1500 engines; quick: 240, or 720 when a fingerprint changed
    n = 1500 if not ctx.quick else (720 if escalate else 240)
    cases = gen_cases(ctx, n)
    if deep:
        cases += exhaustive()
    for c in cases[:3]:
        ctx.sample({'case': c[0], 'engine': c[1]}, limit=3)
    nviol, mismatch, impl = run_cases(ctx, cases)
    ctx.note('cases', {'directed': len(directed()), 'malformed': len(malformed()),
                       'random': n - len(directed()) - len(malformed()),
                       'exhaustive_4_algorithms': len(exhaustive()) if deep else 0})
    ctx.note('not_covered', 'cyclic engines (non-termination of _ancestry), '
             'unresolved feedback references (KeyError), duplicate names, the '
             'SVG bytes, Construct.__getitem__ beyond 3 keys per engine')

    if mismatch and not nviol:
        cid, desc, d = mismatch

        def fails(d2):
            _, mm, _ = run_cases(ctx, [('s', d2, True)], real_dot=0)
            return mm is not None
        small = shrink(desc, fails, budget=8)
        # the property oracle on more seeds (implementation only) before
        # answering "no failing input found"
        extra = gen_cases(ctx, n + (600 if ctx.quick else 3000))[n:]
        nv2, _, _ = run_cases(ctx, extra, real_dot=0, model=False)
        if not nv2:
            ctx.broken('correspondence Dag.observe vs dag.Construct (case %s)' % cid,
                       d, {'source': 'correspondence', 'case': cid,
                           'engine': small, 'original_engine': desc,
                           'first_difference': d})
    if not r['ok'] and not nviol:
        extra = gen_cases(ctx, n + 600)[n:]
        nv2, _, _ = run_cases(ctx, extra, real_dot=0, model=False)
        if not nv2:
            ctx.broken('theorem/file %s' % r['failing'], r['log'],
                       {'source': 'proof', 'theorem': r['failing']})


def _expected_fp():
    p = os.path.join(core.VERIF, 'corpus', 'C09', 'fingerprints.json')
    if os.path.exists(p):
        return json.load(open(p))
    return None
