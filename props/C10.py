'''C10 -- Life-cycle follows the documented state machine and returns to rest.

Gen/FsmTable.v (edges of pl/state.dot) and Gen/TriggerSites.v (every trigger
call site) are regenerated on every run; Model/Fsm.v interprets the table with
the callbacks of dawgie.pl.state.FSM; Props/C10.v proves the properties over
all event sequences; the real FSM (non-doctest mode) and the real submit
Process classes are run against the model event by event.
'''
import random

from props import fsm_common as FC
from props import state_tie as ST

PID = 'C10'
GENERATORS = FC.GENERATORS
META = {
    'text': 'Coq theorems over a model of pl.state.FSM that interprets the transition table regenerated from pl/state.dot on every run: every state change in every run (hand-fired and nested triggers included) is a table edge; a trigger without an edge is rejected leaving the whole state unchanged; active iff running and not transitioning; under the environment given by the generated trigger call sites (single submit endpoint) the machine always returns to rest within 6 completions (partial: the two-endpoint environment is refuted with a witness, open finding). The real FSM and submit Process classes are run event by event against the model with deferred steps scheduled by the case. Source tie: the transitioning setter, is_pipeline_active, every callback named in state.dot (start, load, navel_gaze, save_prior_state, archive/_archive_done, reload, reset) and every completion (load.done, _navel_gaze, reload.done) are regenerated from pl/state.py on every run (state2coq.py -> Gen/StateGen.v) and PROVED equal to run_cb / complete of Model/Fsm.v (C10_*_source).',
    'note': 'Trusted: Coq kernel; dot2coq.py (own dot parser cross-checked against pydot each run; call-site scan); state2coq.py (validated each run by 504 single method calls on a real FSM object); Model/Fsm.v: method bodies tied by translation + proof, the table interpreter (transitions.Machine semantics) and the submit Process events by correspondence; fakes for deferToThread/reactor/db/scan/git only. Modelled not verified: transitions.Machine semantics, background steps complete without raising. No axioms.',
    'technique': 'Coq proof over source-generated table and source-generated method bodies (proved equal to the model) + invariants + model/implementation correspondence with case-controlled interleaving',
}

# pinned fingerprints of the hand-modelled functions (escalation only)
PINNED = None

WITNESS_CROSSTALK = [
    ['EBoot'], ['Done', 0], ['Done', 0],
    ['ESubStart', 0, 'todo_empty'], ['ESubDone', 0, 'todo_empty'],
    ['ESubStart', 0, 'todo_empty'], ['ESubStart', 1, 'todo_empty'],
    ['ENewData'], ['EIdleArchive'], ['ESubDone', 0, 'crew_idle'],
    ['Poll', 'todo', False, False, False], ['DoneCb', 'todo', False, False, False],
    ['Done', 0]]
WITNESS_SECOND_STEP3 = [
    ['EBoot'], ['Done', 0], ['Done', 0],
    ['ESubStart', 1, 'todo_empty'], ['ENewData'], ['EIdleArchive'],
    ['ESubDone', 1, 'todo_empty'],
    ['Poll', 'todo', False, False, False], ['DoneCb', 'todo', False, False, False],
    ['Done', 0]]


def stuck_cause(case, run):
    '''why an environment case did not return to rest: look for the hop that
    took `gitting`/`archiving` away from its owner'''
    insub = [0, 0]
    for ev, o in zip(case['events'], run):
        if ev[0] == 'ESubStart' and o['hops'][:1] == [['gitting', 'running']] and not o['insub'][ev[1]]:
            # refused on endpoint k, yet it left gitting: the state belonged to the other endpoint
            if insub[1 - ev[1]] == 1:
                return 'failure-of-other-endpoint'
        if ev[0] == 'ESubFail' and ev[1] == 1 and o['hops'][:1] == [['gitting', 'running']] and insub[0] == 1:
            return 'failure-of-other-endpoint'
        if ev[0] == 'ESubDone' and ev[1] == 1 and o['hops'] and o['hops'][0][0] != 'gitting':
            return 'second-step3-of-deprecated-endpoint'
        if ev[0] == 'ESubDone' and ev[1] == 0 and o['hops'] and o['hops'][0][0] != 'gitting':
            # the other endpoint's completion (or failure) already took the
            # gitting state away; this endpoint's step_3 then fires its
            # running_trigger from wherever the machine stands
            return 'step3-after-other-endpoint-left-gitting'
        insub = o['insub']
    return 'unknown'


BG_STATES = ('loading', 'contemplation', 'archiving', 'updating')


def oracle(ctx, case, run, edges):
    '''the property itself on the implementation's observations; returns
    ("kind", fields, text) of the first violation or None'''
    table = {(a, b) for a, b, _t in edges}
    trig = {}
    for a, b, t in edges:
        trig.setdefault(t, set()).add(a)
    prev = None
    booted = False
    env = FC.is_env_case(case)
    came = None          # the state archiving was entered from
    for i, (ev, o) in enumerate(zip(case['events'], run)):
        for a, c in o['hops']:
            if (a, c) not in table:
                return ('undocumented-transition', {'from': a, 'to': c},
                        'state moved %s -> %s which is not an edge of state.dot (event %d %s)' % (a, c, i, ev))
            if env and a in BG_STATES and ev[0] != 'Done' and prev is not None and prev['pending']:
                # a state that owns a background step is left by that step's
                # completion only ("every accepted trigger ends, once its
                # background steps complete, at rest")
                cause = stuck_cause(case, run) if not FC.single_endpoint(case) else 'unknown'
                if ev[0] == 'ESubDone' and ev[1] == 1:
                    cause = 'second-step3-of-deprecated-endpoint'
                return ('stuck-after-submit-crosstalk', {'cause': cause, 'symptom': 'left-while-outstanding'}
                        if cause == 'unknown' else {'cause': cause},
                        'event %d %s moved the pipeline %s -> %s while the background step of %s is outstanding (%s)'
                        % (i, ev, a, c, a, prev['pending']))
            if env and c == 'archiving':
                came = a
            if env and a == 'archiving' and came is not None and c != came:
                return ('archive-not-back', {'from': came, 'to': c},
                        'archiving was entered from %s and left for %s (event %d %s)' % (came, c, i, ev))
        if o['hops']:
            booted = True
        if ev[0] == 'Fire' and prev is not None and o['out'] in ('Rejected', 'SetterErr') and not o['hops']:
            # refused before the state moved (no edge from the current state, or
            # the guard of a `before` callback because a background step owns
            # the machine): nothing may have changed.  (A trigger WITH an edge
            # whose `after` callback raises has moved the state: that is an
            # accepted trigger, C10_edges speaks about it.)
            same = all(prev[k] == o[k] for k in
                       ('st', 'tr', 'prior', 'pending', 'archive', 'priority', 'waits', 'handles'))
            if not same:
                diff = [k for k in ('st', 'tr', 'prior', 'pending', 'archive', 'priority', 'waits', 'handles')
                        if prev[k] != o[k]]
                return ('reject-not-pure', {'trigger': ev[1], 'state': prev['st'], 'outcome': o['out']},
                        '%s fired in %s/%s was refused (%s) but changed %s'
                        % (ev[1], prev['st'], prev['tr'], o['out'],
                           {k: [prev[k], o[k]] for k in diff}))
        if ev[0] == 'Fire' and prev is not None:
            t = ev[1]
            allowed = prev['st'] in trig.get(t, ())
            if not allowed:
                same = all(prev[k] == o[k] for k in
                           ('st', 'tr', 'prior', 'pending', 'archive', 'priority', 'waits', 'handles'))
                if o['out'] != 'Rejected' or not same or o['hops']:
                    return ('reject-not-pure', {'trigger': t, 'state': prev['st']},
                            '%s fired in %s: outcome %s, state changed: %s' % (t, prev['st'], o['out'], not same))
        if ev[0] == 'Done' and o['out'] != 'Noop' and not o['pending'] and o['st'] in ('running', 'gitting') \
                and o['tr'] != 'active':
            # the last outstanding background step has completed and the
            # machine stands in a rest state: it must be at rest there
            return ('not-at-rest', {'state': o['st'], 'transitioning': o['tr']},
                    'event %d: every background step has completed, the pipeline is in %s but '
                    'transitioning is %s (outcome of the completion: %s)' % (i, o['st'], o['tr'], o['out']))
        if o['active'] != (o['st'] == 'running' and o['tr'] == 'active'):
            return ('active-predicate', {}, 'is_pipeline_active() = %s in %s/%s' % (o['active'], o['st'], o['tr']))
        if o['active'] and o['pending']:
            # "declares itself active only when at rest in running": not while a
            # background step is queued or executing
            return ('active-while-outstanding', {'state': o['st']},
                    'event %d %s: is_pipeline_active() is True while the background step(s) %s are outstanding'
                    % (i, ev, o['pending']))
        prev = o
    if FC.is_env_case(case) and run:
        last = run[-1]
        if last['active'] and last['pending']:
            return ('active-while-outstanding', {}, 'active with outstanding %s' % last['pending'])
        drained = case['events'][-8:] == [['Done', 0]] * 8
        at_rest = last['st'] in ('running', 'gitting') and last['tr'] == 'active'
        if drained and booted and last['st'] != 'starting' and not at_rest:
            cause = 'unknown'
            if not FC.single_endpoint(case):
                cause = stuck_cause(case, run)
            return ('stuck-after-submit-crosstalk', {'cause': cause},
                    'after completing everything outstanding the pipeline is in %s/%s, outstanding %s'
                    % (last['st'], last['tr'], last['pending']))
    return None


def nontrivial(case, run):
    '''a trigger was fired while a background step was outstanding'''
    prev_pending = []
    for ev, o in zip(case['events'], run):
        if prev_pending and ev[0] != 'Done' and (o['hops'] or o['out'] in ('Rejected', 'SetterErr')):
            return True
        prev_pending = o['pending']
    return False


def run(ctx):
    ctx.cov['rule'] = (
        'event sequences on the real FSM (non-doctest) + real submit Process classes: '
        'environment cases (call sites with their guards, 1 or 2 submit endpoints, '
        'pollers, completions in case-chosen order, 8 completions appended) and free '
        'cases (any trigger by hand at any moment from any initial state); a case is '
        'non-trivial when a trigger was fired or refused while a background step was outstanding')
    ctx.trust(
        'translator tools/translate/dot2coq.py (own dot tokenizer cross-checked against pydot on every run; ast scan for call sites; fail closed)',
        'translator tools/translate/priority2coq.py (Priority.max, fail closed; validated by C12 on every priority list of length <= 3)',
        'Model/Fsm.v (one function per FSM method): callbacks and completions proved equal to the translation of pl/state.py (Proofs/StateGenEq.v); the table interpreter fire/run_cbs (transitions.Machine) and the submit events tied by the event-by-event correspondence below',
        'driver fakes (outside world only): deferToThread/reactor.callLater -> case-scheduled thunks, db/scan/schedule.build/git/mail stubs, graphviz output',
    )
    ctx.assume(
        'transitions.Machine 0.9: trigger without edge raises MachineError and runs nothing; before, state change, after; exceptions propagate',
        'background steps (_pipeline, _navel_gaze, _reload, _archive) complete without raising; if one raises the machine stays where it is (not covered)',
        'callbacks of one reactor turn run atomically; _navel_gaze/_archive fire triggers from a worker thread (thread-safety of transitions not modelled)',
        'C10_returns_to_rest_partial is stated over the relation envr; that every single-endpoint event is a sequence of envr moves is tested (shape evaluated on every model trace), not proved',
    )
    changed = []
    if PINNED:
        changed = FC.fingerprint_changed(ctx, PINNED)
    else:
        ctx.note('fingerprints', FC.fingerprints())
    deep = (not ctx.quick) or bool(changed)

    ok, msg = FC.generate_all(ctx)
    sg = ST.state_generate(ctx)          # Gen/StateGen.v from the FSM method bodies of pl/state.py
    proofs = {'ok': False, 'failing': 'translator', 'log': msg}
    if ok:
        proofs = ctx.coq_props()
    else:
        ctx.coq_props()
        ctx.cov['discharged'] = 0

    # ---- cases ---------------------------------------------------------------
    n_env1, n_env2, n_free = (60, 60, 80) if not deep else (400, 400, 500)
    length = 30
    cases = [
        {'initial': None, 'events': WITNESS_CROSSTALK + [['Done', 0]] * 8, 'class': 'witness-crosstalk'},
        {'initial': None, 'events': WITNESS_SECOND_STEP3 + [['Done', 0]] * 8, 'class': 'witness-step3'},
    ]
    for i in range(n_env1):
        cases.append(FC.env_case(random.Random('%s:env1:%d' % (ctx.seed, i)), length, 1))
    for i in range(n_env2):
        cases.append(FC.env_case(random.Random('%s:env2:%d' % (ctx.seed, i)), length, 2))
    for i in range(n_free):
        cases.append(FC.free_case(random.Random('%s:free:%d' % (ctx.seed, i)), length))
    if deep:
        # exhaustive small scope: all hand-fired trigger/completion sequences of length 2 from every state
        import itertools
        alpha = [['Fire', t + '_trigger'] for t in FC.TRIGGERS] + [['Done', 0], ['Done', 1]]
        for init in FC.STATES:
            for seq in itertools.product(alpha, repeat=2):
                cases.append({'initial': init, 'events': [list(e) for e in seq], 'class': 'exhaustive2'})

    out = ctx.harness('drive_fsm.py', {'cases': [{'initial': c['initial'], 'events': c['events']} for c in cases]})
    runs, edges = out['runs'], out['edges']

    # ---- the property on the implementation (failing-input search) -----------
    hits = 0
    seen_known = set()
    shrunk = set()
    for c, r in zip(cases, runs):
        v = oracle(ctx, c, r, edges)
        if v:
            kind, fields, text = v
            small = c
            sig = (kind, tuple(sorted(fields.items())))
            if kind != 'stuck-after-submit-crosstalk' and sig not in shrunk and len(shrunk) < 3:
                shrunk.add(sig)
                def fails(cc, _k=kind):
                    rr = ctx.harness('drive_fsm.py', {'cases': [{'initial': cc['initial'], 'events': cc['events']}]})
                    vv = oracle(ctx, cc, rr['runs'][0], rr['edges'])
                    return bool(vv) and vv[0] == _k
                small = FC.shrink(c, fails, budget=25)
            hits += ctx.violation(kind, fields, text,
                                  {'source': 'oracle', 'case': small, 'theorem': 'C10_edges / C10_reject_pure / C10_returns_to_rest_partial'}) and 1 or 0
            seen_known.add((kind, fields.get('cause')))
    ctx.expect_known('stuck-after-submit-crosstalk',
                     ('stuck-after-submit-crosstalk', 'failure-of-other-endpoint') in seen_known)
    if ('stuck-after-submit-crosstalk', 'failure-of-other-endpoint') not in seen_known:
        ctx.broken('witness of C10_returns_to_rest_refuted no longer reproduces on the implementation',
                   'the recorded event list now returns to rest: model and code have diverged',
                   {'source': 'correspondence', 'case': cases[0]})

    # ---- proofs -----------------------------------------------------------------
    # source tie of the life-cycle methods (translation + proof + sweep)
    _tie, reported = ST.state_validate(ctx, sg, proofs, bool(hits), PID)
    if not proofs['ok'] and not hits and not reported:
        ctx.broken('theorem/file %s' % proofs['failing'], proofs['log'],
                   {'source': 'proof', 'theorem': proofs['failing']})

    # ---- correspondence ----------------------------------------------------------
    if ok and proofs['ok']:
        mruns = FC.model_runs(ctx, cases)
        nt, ndiff, first = [], 0, None
        hist = {}
        for c, r, m in zip(cases, runs, mruns):
            hist[c['class']] = hist.get(c['class'], 0) + 1
            d = FC.first_diff(r, m)
            if d:
                ndiff += 1
                first = first or (c, d)
            if nontrivial(c, r):
                nt.append(c['events'])
        ctx.count(evaluations=sum(len(c['events']) for c in cases), nontrivial_keys=nt)
        ctx.note('cases', hist)
        ctx.note('events_by_kind', _hist(cases))
        ctx.note('outcomes', _outcomes(runs))
        ctx.sample({'events': cases[2]['events'][:8], 'impl': [[o['st'], o['tr'], o['out']] for o in runs[2][:8]]})
        ctx.sample({'witness': 'crosstalk', 'end': [runs[0][-1]['st'], runs[0][-1]['tr'], runs[0][-1]['pending']]})
        # shape of the model states of single-endpoint environment cases (the
        # untied step of C10_returns_to_rest_partial)
        single = [c for c in cases if FC.is_env_case(c) and FC.single_endpoint(c)]
        exprs = ['forallb shape (scan_states init [%s])' % '; '.join(FC.ev_to_coq(e) for e in c['events'])
                 for c in single]
        pre = ('Definition scan_states (s : fstate) (evs : list event) : list fstate :=\n'
               '  snd (fold_left (fun a e => let s1 := fst (step (fst a) e) in (s1, s1 :: snd a)) evs (s, [s])).\n')
        shapes = ctx.coq_eval(['DV.Gen.FsmTable', 'DV.Gen.PriorityGen', 'DV.Model.Fsm',
                               'DV.Proofs.FsmEnvProofs'], exprs, preamble=pre, chunk=60)
        ctx.note('shape_checked_traces', len(shapes))
        if not all(x is True for x in shapes):
            k = [x is True for x in shapes].index(False)
            ctx.broken('shape invariant fails on a single-endpoint environment trace of the model',
                       str(single[k]['events']), {'source': 'proof', 'case': single[k],
                                                  'theorem': 'C10_returns_to_rest_partial'})
        if first:
            c, d = first
            small = FC.shrink(c, lambda cc: _differs(ctx, cc), budget=25)
            dd = _diff(ctx, small) or d
            ctx.log('correspondence: %d of %d cases differ' % (ndiff, len(cases)))
            # failing-input search on the shrunk case and its neighbourhood
            rr = ctx.harness('drive_fsm.py', {'cases': [{'initial': small['initial'], 'events': small['events'] + [['Done', 0]] * 8}]})
            probe = dict(small, events=small['events'] + [['Done', 0]] * 8)
            v = oracle(ctx, probe, rr['runs'][0], rr['edges'])
            if v:
                ctx.violation(v[0], v[1], v[2], {'source': 'correspondence', 'case': probe})
            else:
                ctx.broken('correspondence: real FSM and Model/Fsm.v disagree',
                           'event %d field %s: implementation %r, model %r' % dd,
                           {'source': 'correspondence', 'case': small,
                            'step': dd[0], 'field': dd[1], 'observed': dd[2], 'expected': dd[3]})


def _diff(ctx, case):
    r = ctx.harness('drive_fsm.py', {'cases': [{'initial': case['initial'], 'events': case['events']}]})
    m = FC.model_runs(ctx, [case])
    return FC.first_diff(r['runs'][0], m[0])


def _differs(ctx, case):
    return _diff(ctx, case) is not None


def _hist(cases):
    h = {}
    for c in cases:
        for e in c['events']:
            h[e[0]] = h.get(e[0], 0) + 1
    return h


def _outcomes(runs):
    h = {}
    for r in runs:
        for o in r:
            h[o['out']] = h.get(o['out'], 0) + 1
    return h
