'''C11 -- work goes only to eligible workers, only while the pipeline is active.'''
from props import sched_common as sc, sched_oracles as so

PID = 'C11'
META = {
    'text': 'Theorems over the farm model (dispatch, _put, rerunid, Hand._reg/_process/connectionLost, notify_all) for every engine, state and history: a task is written only by an active dispatch to a connection on the idle list; the idle list holds exactly connections that registered with the current revision and have not dropped (trace theorem); a tasked worker gets one task and leaves the list; nothing but abort answers while inactive; unplaced tasks stay queued (permutation); message fields (job, target, factory, run 0 for regressions, carried run id or db.next()=stored+1 exactly when none). Tied to pl/farm.py by step-by-step correspondence with fake transports; the oracle is also evaluated on the implementation, including histories in which the database refuses a run id during a dispatch (Model/SchedFault.v, tied by correspondence; the invariant theorems speak about fault-free histories). Hand._reg, the status branch of Hand._process, something_to_do and the _cluster_sort comparator are in addition regenerated from the python source on every run by a fail-closed translator (Gen/FarmGen.v) and PROVED to be what the model does (C11_reg_is_source, C11_poll_is_source, C11_dispatch_guard_is_source -- the waiting_on_crew conjunct is dead code --, C11_cluster_sort_is_source); _workers_sort is regenerated statement by statement and proved equal to workers_sort of the model for EVERY pool with one registration per connection, including that the python neither raises IndexError nor loops (C11_workers_sort_is_source, Proofs/FarmSortEq.v: loop invariant wg = [(k, of_host w k) | k <- keys] over the fixed sorted keys, and the scan for `longest` over all keys = pick_host over the hosts that still have a worker; the NoDup hypothesis is necessary, witness workers_sort_gen_eq_needs_nodup).',
    'note': 'Trusted: Coq kernel; Sched.v model + drive_sched.py (fake transports decoded with message.loads, fsm stub, db.next stub). Reading taken: "told to leave" constrains what a worker can be told while inactive; the code does not proactively notify during gitting/archiving. One registration per connection is an input restriction (NoDup hypothesis). Not covered: AWS agency, TLS transport.',
    'technique': 'Coq proof (step + trace theorems) over hand-written executable model + source-generated definitions (eligibility tests, queue order) proved equal to the model functions + model/implementation correspondence + implementation-side oracle',
}


def nontrivial(r):
    reg = {}
    prev = None
    for ev, ob in zip(r['events'], r['obs']):
        if ev[0] == 'reg':
            reg[ev[1]] = 'ok' if ev[3] else 'stale'
        elif ev[0] == 'drop' and reg.get(ev[1]) == 'ok':
            reg[ev[1]] = 'dropped'
        elif ev[0] == 'tick' and prev is not None:
            queued = prev['cluster'] or any(n[0] for n in prev['nodes'])
            mixed = 'ok' in reg.values() and any(v != 'ok' for v in reg.values())
            if queued and (mixed or not prev['flags'][1]):
                return True
        for o in ob['outs']:
            if o[0] == 1:
                reg[o[1]] = 'tasked'
        prev = ob
    return False


def run(ctx):
    # source tie by translation + proof (props/gen_tie.py): the eligibility
    # tests and the queue order of farm.py are regenerated before the proofs
    # are checked, validated afterwards
    from props import gen_tie
    g = None if ctx.replay else gen_tie.farm_generate(ctx)
    sc.sched_check(
        ctx, so.c11, ['farm', 'mixed'], nontrivial,
        rule='random engines x random histories of registrations (matching / stale revision, 3 hosts), disconnects, status polls, dispatch ticks, activity flips, organize and replies; non-trivial = a tick with queued work and a worker pool mixing eligible and ineligible (stale, dropped, tasked) workers, or while inactive')
    if not ctx.replay and not ctx.nviol:
        sc.fault_study(ctx, so.c11)
    if g is not None:
        gen_tie.farm_validate(ctx, g, PID)


def replay(ctx, obj):
    sc.sched_replay(ctx, obj, so.c11)
