'''C12 -- A submitted update takes effect exactly when its priority allows.

Gen/PriorityGen.v is regenerated from tools.submit.Priority (enum + max) and
validated against the real Priority.max on every argument list of length <= 3;
the waiters of pl.state.FSM are part of Model/Fsm.v (the repaired code: every
done() gives its handle back) and run event by event against the real FSM with
the poller threads and reactor callbacks scheduled by the case.
'''
import itertools
import random

from props import fsm_common as FC
from props import state_tie as ST

PID = 'C12'
GENERATORS = FC.GENERATORS
META = {
    'text': 'Coq theorems: the Priority.max regenerated from tools/submit.py is a lattice with order NOW>CREW>DOING>TODO (any argument list); a submission is refused unless the pipeline is active; a poller that returns while still the active wait saw its condition; every done() callback gives its poller handle back (the repaired stale-handle defect); every submission at an active pipeline fires at once (NOW) or arms a live poller of the strongest priority. The headline (every waiter fire accepted at a moment its condition holds) is refuted by two machine-checked witnesses = the two open findings. Correspondence: real FSM waiters with case-scheduled poller iterations and callbacks vs the model, plus a property oracle on the real observations. Source tie: the bodies of set_submit_info, submit_crossroads, wait_for_crew/doing/todo/nothing, their done() callbacks, waiting_on_* and the loop tests of is_*_done are regenerated from pl/state.py on every run (state2coq.py -> Gen/StateGen.v) and PROVED equal to the functions of Model/Fsm.v (C12_*_is_source, ghost log entry explicit).',
    'note': 'Trusted: Coq kernel; priority2coq.py, dot2coq.py and state2coq.py (validated each run; state2coq.py by 504 single method calls on a real FSM object with attributes set one by one); Model/Fsm.v tied by translation + proof for the method bodies and by correspondence for the machine (transitions.Machine, event enabledness); fakes for deferToThread/time.sleep/reactor only. Real thread timing is represented by interleavings of atomic steps. No axioms.',
    'technique': 'Coq proof over source-generated definitions (Priority.max, FSM method bodies proved equal to the model) + refutation witnesses + model/implementation correspondence with case-controlled interleaving',
}

NAMES = ['NOW', 'CREW', 'DOING', 'TODO']
KIND_OF = {'CREW': 'crew', 'DOING': 'doing', 'TODO': 'todo'}

LOST = [['EBoot'], ['Done', 0], ['Done', 0],
        ['ESubStart', 0, 'x'], ['ESubDone', 0, 'crew_idle'],
        ['ENewData'], ['EIdleArchive'],
        ['Poll', 'crew', False, False, False], ['DoneCb', 'crew', False, False, False],
        ['Done', 0]]
RACE = [['EBoot'], ['Done', 0], ['Done', 0],
        ['ESubStart', 0, 'x'], ['ESubDone', 0, 'crew_idle'],
        ['Poll', 'crew', False, False, False], ['DoneCb', 'crew', True, False, False]]
# the repaired defect: cancelled waiter, reload, same priority again (witness_c12.py)
STALE = [['EBoot'], ['Done', 0], ['Done', 0],
         ['ESubStart', 0, 'x'], ['ESubDone', 0, 'todo_empty'],
         ['ESubStart', 0, 'x'], ['ESubDone', 0, 'crew_idle'],
         ['Poll', 'todo', True, True, True], ['DoneCb', 'todo', True, True, True],
         ['Poll', 'crew', False, True, True], ['DoneCb', 'crew', False, True, True],
         ['Done', 0], ['Done', 0], ['Done', 0], ['Done', 0],
         ['ESubStart', 0, 'x'], ['ESubDone', 0, 'todo_empty'],
         ['Poll', 'todo', False, False, False], ['DoneCb', 'todo', False, False, False]]

FAIR_END = ([['Poll', k, False, False, False] for k in FC.KINDS]
            + [['DoneCb', k, False, False, False] for k in FC.KINDS]
            + [['Done', 0]] * 6)


def c12_case(rng, n):
    '''single-endpoint environment, biased to submissions of different priority
    within one reload cycle, cancelled waiters and reload cycles in between'''
    evs = [['EBoot'], ['Done', 0], ['Done', 0]]
    for _ in range(n):
        r = rng.random()
        if r < 0.22:
            evs += [['ESubStart', 0, 'x'], ['ESubDone', 0, FC.rand_prio(rng)]]
        elif r < 0.27:
            evs += [['ESubStart', 0, 'x']]
        elif r < 0.30:
            evs += [['ESubFail', 0]]
        elif r < 0.55:
            k = rng.choice(FC.KINDS)
            e = FC.rand_env(rng)
            if rng.random() < 0.6:
                e = [False, False, False] if rng.random() < 0.5 else e
                e[FC.KINDS.index(k)] = False
                if k == 'todo':
                    e[1] = False
            evs.append(['Poll', k] + e)
            if rng.random() < 0.7:
                evs.append(['DoneCb', k] + (e if rng.random() < 0.7 else FC.rand_env(rng)))
        elif r < 0.63:
            evs.append(['DoneCb', rng.choice(FC.KINDS)] + FC.rand_env(rng))
        elif r < 0.83:
            evs.append(['Done', 0])
        elif r < 0.88:
            evs.append(['ENewData'])
        elif r < 0.93:
            evs.append(['EIdleArchive'])
        else:
            evs.append(['ECmdReset', rng.random() < 0.5])
    return {'initial': None, 'events': evs + FAIR_END, 'class': 'env1'}


def hand_case(rng, n):
    init = rng.choice(['running', 'running', 'gitting', 'archiving', 'updating', None])
    evs = []
    for _ in range(n):
        r = rng.random()
        if r < 0.25:
            evs.append(['SetInfo', FC.rand_prio(rng)])
        elif r < 0.45:
            evs.append(['Crossroads'])
        elif r < 0.65:
            evs.append(['Poll', rng.choice(FC.KINDS)] + FC.rand_env(rng))
        elif r < 0.80:
            evs.append(['DoneCb', rng.choice(FC.KINDS)] + FC.rand_env(rng))
        elif r < 0.90:
            evs.append(['Fire', rng.choice(FC.TRIGGERS) + '_trigger'])
        else:
            evs.append(['Done', rng.randrange(2)])
    return {'initial': init, 'events': evs, 'class': 'hand'}


def oracle(case, run):
    '''the property on the implementation's own observations; yields
    (kind, fields, text, index)'''
    env = FC.is_env_case(case)
    prev = None
    polled = {}            # kind -> condition seen by the poll that made it return
    since_reset_updates = 0
    rejected_this_epoch = False
    epoch = 0
    for i, (ev, o) in enumerate(zip(case['events'], run)):
        for h in o['handles']:
            if h == 'Dead':
                yield ('stale-poller-handle', {'symptom': 'dead-handle'},
                       'a poller handle points to a finished poller after event %d %s' % (i, ev), i)
        if o.get('orphans'):
            yield ('orphan-poller', {}, 'a poller thread runs without a handle (event %d)' % i, i)
        if ev[0] == 'Poll' and prev is not None:
            k = FC.KINDS.index(ev[1])
            if prev['handles'][k] == 'Polling' and o['handles'][k] == 'Finished':
                cond = FC.cond_holds(ev[1], ev[2:5])
                polled[ev[1]] = (cond, epoch)
                if prev['waits'][k] and not cond:
                    yield ('poller-returned-early', {'kind': ev[1]},
                           'the %s poller returned while its wait was on and its condition false' % ev[1], i)
            elif (prev['handles'][k] == 'Polling' and o['handles'][k] == 'Polling' and o['out'] == 'Ok'
                  and FC.cond_holds(ev[1], ev[2:5])):
                yield ('poller-ignores-condition', {'kind': ev[1]},
                       'the %s poller evaluated its loop condition in a world where its condition holds '
                       '(busy, doing, queued = %s) and keeps waiting: the submission never takes effect'
                       % (ev[1], ev[2:5]), i)
        for a, c in o['hops']:
            if (a, c) == ('running', 'updating'):
                since_reset_updates += 1
                if since_reset_updates > 1:
                    yield ('double-update', {}, 'update_trigger accepted twice between two resets', i)
            if (a, c) == ('updating', 'loading'):
                since_reset_updates = 0
                rejected_this_epoch = False
                epoch += 1
        for u in o['updates']:
            d = u['during']
            if d[0] != 'DoneCb':
                continue
            cond = FC.cond_holds(d[1], u['env'])
            if env and prev is not None and KIND_OF.get(prev['priority']) != d[1]:
                yield ('weaker-waiter-fired', {'waiter': d[1]},
                       'the %s waiter fired update_trigger while the strongest priority is %s'
                       % (d[1], prev['priority']), i)
            if u['result'] == 'Rejected':
                rejected_this_epoch = True
                yield ('trigger-rejected-lost', {'cause': 'machine-error-in-done', 'state': prev['st'] if prev else None},
                       'the %s waiter fired update_trigger in state %s: rejected, the due reload is lost'
                       % (d[1], prev['st'] if prev else '?'), i)
            elif u['result'] != 'accepted':
                yield ('update-raised', {'outcome': u['result']},
                       'update_trigger of the %s waiter raised %s' % (d[1], u['result']), i)
            elif not cond:
                # the thread's check (true, or made in an earlier reload cycle) is
                # acted upon later by the reactor
                seen = polled.get(d[1])
                cause = ('no-poll' if seen is None else
                         'check-then-act' if (seen[0] or seen[1] != epoch) else
                         'fired-without-seeing-condition')
                yield ('poll-callback-race', {'cause': cause},
                       'update_trigger fired by the %s waiter while its condition does not hold (world %s)'
                       % (d[1], u['env']), i)
        if ev[0] == 'DoneCb':
            polled.pop(ev[1], None)
        if env and prev is not None and ev[0] == 'ESubStart' and not prev['active'] and prev['st'] != 'gitting':
            keys = ('st', 'tr', 'prior', 'pending', 'priority', 'waits', 'handles')
            if any(prev[k] != o[k] for k in keys) or o['updates']:
                yield ('inactive-submission-had-effect', {}, 'a submission to an inactive pipeline changed the state', i)
        if env and ev[0] == 'ESubDone' and prev is not None and o['out'] == 'Ok' and o['hops'][:1] == [['gitting', 'running']]:
            # the crossroads of an active pipeline: fired at once or armed
            p = o['priority']
            if p == 'NOW' or o['hops'][-1:] == [['running', 'updating']]:
                pass
            elif p in KIND_OF:
                k = FC.KINDS.index(KIND_OF[p])
                if not o['waits'][k] or o['handles'][k] not in ('Polling', 'Finished'):
                    yield ('stale-poller-handle', {'symptom': 'not-armed'},
                           'after a %s submission the wait is %s and the poller handle is %s'
                           % (p, o['waits'][k], o['handles'][k]), i)
            else:
                yield ('priority-not-recorded', {}, 'no priority after a submission', i)
        prev = o
    # fair ending: the world is idle, every poller polled and called back, everything completed
    if env and run and case['events'][-len(FAIR_END):] == FAIR_END:
        last = run[-1]
        p = last['priority']
        if p in KIND_OF and last['st'] == 'running' and last['tr'] == 'active' \
                and since_reset_updates == 0:
            k = FC.KINDS.index(KIND_OF[p])
            if last['handles'][k] == 'None':
                cause = 'machine-error-in-done' if rejected_this_epoch else 'unknown'
                yield ('trigger-rejected-lost', {'cause': cause, 'state': 'end'},
                       'a %s submission is recorded, the world is idle, no poller is alive and no reload happened' % p,
                       len(run) - 1)


def nontrivial(case, run):
    '''>= 2 submissions of different priority within one reload cycle, or a
    submission after a cancelled waiter'''
    prios, cancelled = set(), False
    for ev, o in zip(case['events'], run):
        if ('updating', 'loading') in [tuple(h) for h in o['hops']]:
            prios = set()
        if ev[0] in ('ESubDone', 'SetInfo', 'Crossroads') and o['out'] == 'Ok' and o['priority']:
            if ev[0] != 'Crossroads':
                prios.add(ev[2] if ev[0] == 'ESubDone' else ev[1])
            if cancelled:
                return True
        if ev[0] == 'DoneCb' and o['out'] == 'Ok' and not o['updates']:
            cancelled = True
        if len(prios) >= 2:
            return True
    return False


def run(ctx):
    ctx.cov['rule'] = (
        'single-endpoint environment cases on the real FSM (submissions of random priorities incl. '
        'unparseable ones, poller iterations and callbacks with a case-chosen world (busy, doing, que), '
        'idle archives, resets, completions; fair ending: idle world, every poller polled and called back) '
        'and by-hand cases (set_submit_info / submit_crossroads / polls from any state); non-trivial = '
        '>= 2 submissions of different priority within one reload cycle or a submission after a cancelled waiter')
    ctx.trust(
        'translator tools/translate/priority2coq.py (Priority enum + max; fail closed; validated below on every argument list of length <= 3)',
        'translator tools/translate/dot2coq.py (transition table used by the model)',
        'Model/Fsm.v (waiters, crossroads, pollers): method bodies proved equal to the translation of pl/state.py (Proofs/StateGenEq.v); the machine around them (Event.trigger, when a poller/callback may run) tied by the event-by-event correspondence',
        'driver fakes: deferToThread -> case-scheduled poller object (one loop-condition evaluation per Poll event: time.sleep raises), reactor callbacks run at DoneCb events',
    )
    ctx.assume(
        'a poller thread evaluates its loop condition atomically; its callback runs later on the reactor (twisted deferToThread contract)',
        'threading.Event.wait(timeout) returns the flag (waiting_on_* = not set)',
        'the farm/queue is an arbitrary environment: three booleans given by the case at every poll and callback',
    )
    ctx.note('fingerprints', FC.fingerprints())
    deep = not ctx.quick

    ok, msg = FC.generate_all(ctx)
    sg = ST.state_generate(ctx)          # Gen/StateGen.v from the FSM method bodies of pl/state.py
    proofs = {'ok': False, 'failing': 'translator', 'log': msg}
    if ok:
        proofs = ctx.coq_props()
    else:
        ctx.coq_props()
        ctx.cov['discharged'] = 0

    n_env, n_hand = (120, 60) if not deep else (1500, 600)
    cases = [
        {'initial': None, 'events': LOST + FAIR_END, 'class': 'witness-lost'},
        {'initial': None, 'events': RACE + FAIR_END, 'class': 'witness-race'},
        {'initial': None, 'events': STALE + FAIR_END, 'class': 'witness-stale-handle'},
    ]
    for i in range(n_env):
        cases.append(c12_case(random.Random('%s:c12env:%d' % (ctx.seed, i)), 24))
    for i in range(n_hand):
        cases.append(hand_case(random.Random('%s:c12hand:%d' % (ctx.seed, i)), 24))
    dom = [None] + NAMES
    lists = [list(t) for n in range(0, 4) for t in itertools.product(dom, repeat=n)]
    out = ctx.harness('drive_submit.py', {
        'cases': [{'initial': c['initial'], 'events': c['events']} for c in cases],
        'max_lists': lists})
    runs = out['runs']

    # ---- Priority.max laws on the implementation (search for the lattice proof) ----
    rank = {n: i for i, n in enumerate(NAMES)}
    mx = dict(zip([tuple(l) for l in lists], out['max']))
    law = None
    for l, r in mx.items():
        want = min([x for x in l if x is not None] + ['TODO'], key=lambda x: rank[x])
        if r != want:
            law = (list(l), r, want)
            break
    if law:
        ctx.violation('priority-order', {'args': str(law[0])},
                      'Priority.max(%s) = %s, the strongest is %s' % law,
                      {'source': 'oracle', 'args': law[0], 'theorem': 'C12_lattice'})

    # ---- the property on the implementation ------------------------------------------
    hits, seen = 0, set()
    for c, r in zip(cases, runs):
        for kind, fields, text, idx in oracle(c, r):
            f = {k: v for k, v in fields.items() if k != 'state'}
            seen.add((kind, f.get('cause')))
            small = dict(c, events=c['events'][:idx + 1])
            hits += 1 if ctx.violation(kind, f, text, {'source': 'oracle', 'case': small,
                                                       'theorem': 'C12_every_submission'}) else 0
    for kind, cause, cls in (('trigger-rejected-lost', 'machine-error-in-done', 0),
                             ('poll-callback-race', 'check-then-act', 1)):
        got = (kind, cause) in seen
        ctx.expect_known(kind, got)
        if not got:
            ctx.broken('witness of the open finding %s no longer reproduces on the implementation' % kind,
                       'model (C12_refuted_*) and code have diverged', {'source': 'correspondence', 'case': cases[cls]})

    # ---- source tie of the waiter methods (translation + proof + sweep) -----------------
    _tie, reported = ST.state_validate(ctx, sg, proofs, bool(hits or law), PID)

    if not proofs['ok'] and not hits and not law and not reported:
        ctx.broken('theorem/file %s' % proofs['failing'], proofs['log'],
                   {'source': 'proof', 'theorem': proofs['failing']})

    # ---- translator validation + correspondence ------------------------------------------
    if ok and proofs['ok']:
        def lit(l):
            return '[' + '; '.join('None' if x is None else '(Some P_%s)' % x for x in l) + ']'
        vals = ctx.coq_eval(['DV.Gen.PriorityGen'],
                            ['map prio_max [%s]' % '; '.join(lit(l) for l in lists),
                             'map prio_value all_prios'])
        model_max = [v[0][2:] for v in vals[0]]
        if model_max != out['max']:
            k = [a != b for a, b in zip(model_max, out['max'])].index(True)
            ctx.broken('translator validation: generated prio_max disagrees with Priority.max',
                       'args=%s python=%s gallina=%s' % (lists[k], out['max'][k], model_max[k]),
                       {'source': 'correspondence', 'args': lists[k]})
        if vals[1] != [out['values'][n] for n in NAMES]:
            ctx.broken('translator validation: enum values differ', '%r vs %r' % (vals[1], out['values']),
                       {'source': 'correspondence'})
        mruns = FC.model_runs(ctx, cases)
        nt, ndiff, first, hist = [], 0, None, {}
        for c, r, m in zip(cases, runs, mruns):
            hist[c['class']] = hist.get(c['class'], 0) + 1
            d = FC.first_diff(r, m)
            if d:
                ndiff += 1
                first = first or (c, d)
            if nontrivial(c, r):
                nt.append(c['events'])
        ctx.count(evaluations=sum(len(c['events']) for c in cases) + len(lists), nontrivial_keys=nt)
        ctx.note('cases', hist)
        ctx.note('max_lists', len(lists))
        ctx.note('update_calls', _updates(runs))
        ctx.sample({'events': cases[3]['events'][3:11],
                    'impl': [[o['priority'], o['waits'], o['handles']] for o in runs[3][3:11]]})
        ctx.sample({'witness': 'lost', 'updates': [u for o in runs[0] for u in o['updates']]})
        if first:
            c, d = first

            def differs(cc):
                rr = ctx.harness('drive_submit.py', {'cases': [{'initial': cc['initial'], 'events': cc['events']}]})
                return FC.first_diff(rr['runs'][0], FC.model_runs(ctx, [cc])[0]) is not None
            small = FC.shrink(dict(c, events=c['events'][:d[0] + 1]), differs, budget=25)
            rr = ctx.harness('drive_submit.py', {'cases': [{'initial': small['initial'], 'events': small['events'] + FAIR_END}]})
            probe = dict(small, events=small['events'] + FAIR_END)
            found = False
            for kind, fields, text, idx in oracle(probe, rr['runs'][0]):
                f = {k: v for k, v in fields.items() if k != 'state'}
                if ctx.violation(kind, f, text, {'source': 'correspondence', 'case': probe}):
                    found = True
                    break
            if not found:
                dd = FC.first_diff(rr['runs'][0][:len(small['events'])], FC.model_runs(ctx, [small])[0]) or d
                ctx.broken('correspondence: real FSM waiters and Model/Fsm.v disagree (%d of %d cases)' % (ndiff, len(cases)),
                           'event %d field %s: implementation %r, model %r' % dd,
                           {'source': 'correspondence', 'case': small, 'step': dd[0], 'field': dd[1],
                            'observed': dd[2], 'expected': dd[3]})


def _updates(runs):
    h = {}
    for r in runs:
        for o in r:
            for u in o['updates']:
                k = '%s:%s' % (u['during'][0], u['result'])
                h[k] = h.get(k, 0) + 1
    return h
