'''C13 -- The database lock is exclusive, survives client crashes, is granted.

coq/Model/Lock.v mirrors the server side of the lock protocol
(shelve.comms.Worker: do(acquire) -> LoopingCall(_do_acquire), _do_release,
connectionLost, the deferred LoopingCall.stop); Props/C13.v proves mutual
exclusion, truthful notification, crash release/abandon and progress for every
history; the real Worker objects are tied to the model by running both on every
short history and on seeded long ones.
'''
import itertools
import json
import os
import random
import struct

from vlib import core

PID = 'C13'
GENERATORS = [('lock2coq.py', 'Gen/LockGen.v')]
META = {
    'text': 'Theorems over a Gallina model of the shelve lock protocol (comms.Worker: acquire/poll/release/connectionLost/deferred stop, context.db_lock), for every number of connections and every event history: at most one holder and lock bit <=> a holder exists; "yours" is told only in the step that grants, and the holder keeps the lock until its own release/disconnect; a dropped holder frees the lock, a dropped waiter is never told or granted anything again; a waiting connection is granted a free lock at its next poll and a held lock is always freed by its holder\'s release or disconnect. Source tie by translation (lock2coq.py on pyfrag): Worker._lock_db, _unlock_db, _get_db_lock_status, _do_acquire, _do_release, connectionLost, the acquire/release branches of do, the loseConnection rule of dataReceived, the flags of __init__ and context.lock_db/unlock_db are regenerated from the source on every run (Gen/LockGen.v); the model event loop spelled with the generated handlers is PROVED equal to Lock.step on every state and event, hence on every history (C13_step_is_source, C13_run_is_source, C13_mutex_is_source); validated on every run against the real Worker objects. Tied to the real Worker objects (real twisted LoopingCall on a fake clock, fake transports) by correspondence on every history of length <= 4 (2-3 clients) and seeded long histories with a disconnect injected at every step.',
    'note': 'Trusted: Coq kernel; lock2coq.py translator (+ pyfrag.py, pyfrag_fx.py; LoopingCall.start, reactor.callLater, _send, loseConnection declared at the top of the script; lock-view bookkeeping and logging neutral); the Twisted delivery discipline hand-written in LockGenEq.gstep (delivery only to open connections, LoopingCall fires while running, an escaped exception drops the connection, connectionLost once, the stop timer); model Lock.v + driver drive_lock.py (fake transport honouring "no request after loseConnection/connectionLost", per-connection twisted Clock, queued reactor.callLater); Twisted runs one callback at a time and calls connectionLost once. Not covered: blocking client side (comms.acquire/release recv loop), the 3 s period, _do_copy thread. No axioms.',
    'technique': 'Coq proof (inductive invariant) over an executable model + handlers translated from the source and proved to be the model step + model/implementation correspondence (exhaustive small scope + seeded random)',
}

FP = [('Python/dawgie/db/shelve/comms.py',
       ['Worker.__init__', 'Worker.connectionLost', 'Worker.dataReceived', 'Worker.do',
        'Worker._do_acquire', 'Worker._do_release', 'Worker._get_db_lock_status',
        'Worker._lock_db', 'Worker._unlock_db', 'Worker._send']),
      ('Python/dawgie/db/shelve/comms.py', ['acquire', 'release']),
      ('Python/dawgie/pl/message.py', ['receive']),
      ('Python/dawgie/context.py', ['lock_db', 'unlock_db'])]
EV = {'A': 'Acquire', 'P': 'Poll', 'R': 'Release', 'D': 'Drop', 'T': 'Timer', 'O': 'Reopen'}


FP_FILE = os.path.join(core.VERIF, 'corpus', 'C13', 'fingerprints.json')


def fingerprints():
    fps = {}
    for path, names in FP:
        fps.update({path.split('/')[-1] + ':' + k: v for k, v in core.fingerprint(path, names).items()})
    return fps


def expected_fingerprints():
    """reference fingerprints of the functions Lock.v was written against
    (committed; regenerate with `python3 props/C13.py --write-fingerprints`;
    never written by a check run)"""
    try:
        return json.load(open(FP_FILE))
    except (OSError, ValueError):
        return {}


def histories(ctx):
    rng = random.Random('%s:C13' % ctx.seed)
    hs = []
    # exhaustive small scope
    scopes = [(2, 4)] if ctx.quick else [(2, 4), (3, 4)]
    for n, ln in scopes:
        alpha = [(e, c) for e in 'APRDT' for c in range(n)] + [('O', 0)]
        for seq in itertools.product(alpha, repeat=ln):
            hs.append({'n': n, 'events': [list(x) for x in seq], 'kind': 'all-%d-%d' % (n, ln)})
    # seeded long histories: client scripts + noise, a drop injected anywhere
    for k in range(ctx.n(150, 3000)):
        n = rng.choice([2, 3, 3, 4, 5])
        ln = rng.randint(12, 45)
        evs = []
        started = set()
        for _ in range(ln):
            c = rng.randrange(n)
            r = rng.random()
            if rng.random() < 0.06:
                evs.append(['O', 0])      # the database is closed and reopened (copy / archive)
            if c not in started and r < 0.7:
                e = 'A'
                started.add(c)
            elif r < 0.45:
                e = 'P'
            elif r < 0.60:
                e = 'R'
            elif r < 0.72:
                e = 'D'
            elif r < 0.85:
                e = 'T'
            elif r < 0.93:
                e = 'A'
            else:
                e = 'P'
                c = rng.randrange(n + 1)   # sometimes a connection that does not exist
            evs.append([e, c])
        hs.append({'n': n, 'events': evs, 'kind': 'random'})
    # a drop injected at every step of a contended script
    base = [['A', 0], ['A', 1], ['A', 2], ['P', 1], ['T', 0], ['R', 0], ['P', 2], ['P', 1],
            ['D', 0], ['R', 2], ['P', 1], ['T', 2], ['D', 2], ['R', 1], ['D', 1]]
    for i in range(len(base) + 1):
        for c in range(3):
            hs.append({'n': 3, 'events': base[:i] + [['D', c]] + base[i:], 'kind': 'drop-injected'})
        hs.append({'n': 3, 'events': base[:i] + [['O', 0]] + base[i:], 'kind': 'reopen-injected'})
    return hs


def canon_impl(step):
    return ([list(x) for x in step['out']], step['lock'],
            [list(c) for c in step['conns']])


def canon_model(m):
    out, lock, conns = m
    return ([list(x) for x in out], lock, [list(c) for c in conns])


def oracle(ctx, h, obs):
    '''C13 on the implementation's own observations'''
    n = h['n']
    prev = {'lock': False, 'conns': [[False] * 5 + [0] for _ in range(n)]}
    lost_at = {}
    rep = {'source': 'oracle', 'history': {'n': n, 'events': h['events']}}
    for i, (ev, st) in enumerate(zip(h['events'], obs)):
        e, c = ev
        holders = [k for k, x in enumerate(st['conns']) if x[0] is True]
        pholders = [k for k, x in enumerate(prev['conns']) if x[0] is True]

        def bad(kind, what, thm):
            ctx.violation(kind, {'event': e}, 'history %s step %d (%s %d): %s'
                          % (h['kind'], i, EV[e], c, what),
                          dict(rep, step=i, theorem=thm, observed=st))
        if type(st['lock']) is not bool or any(type(f) is not bool for x in st['conns'] for f in x[:5]):
            return bad('lock-type', 'lock state is not boolean', 'C13_mutex')
        if len(holders) > 1:
            return bad('lock-mutex', 'two holders %s' % holders, 'C13_mutex')
        if bool(holders) != st['lock']:
            return bad('lock-bit', 'lock bit %s but holders %s' % (st['lock'], holders), 'C13_mutex')
        for code, k in [x[:2] for x in st['out']]:
            if code == 7:
                return bad('lock-crash-release', 'connectionLost of connection %d raised: what it had to '
                           'release or abandon is left as it was' % k, 'C13_crash_release')
            if code >= 90:
                return bad('lock-message', 'malformed message to %d' % k, 'C13_told_truth')
            if code == 1:
                if not (st['conns'][k][0] and not prev['conns'][k][0] and k == c and e in 'AP'):
                    return bad('lock-told-yours', 'client %d told "yours" without being granted in this step' % k,
                               'C13_told_truth')
            if code in (1, 2) and k in lost_at:
                return bad('lock-told-lost', 'status sent to dropped connection %d' % k, 'C13_crash_abandons')
        for k in pholders:
            if k not in holders and not (k == c and e in 'RDA'):
                return bad('lock-taken-away', 'holder %d lost the lock by an event of %d' % (k, c), 'C13_keeps')
        for k in holders:
            if k not in pholders and [1, k] not in [x[:2] for x in st['out']]:
                return bad('lock-silent-grant', 'client %d holds the lock but was not told' % k, 'C13_told_truth')
        if e == 'D' and c < n and c in pholders and (st['lock'] or st['conns'][c][0]):
            return bad('lock-crash-release', 'holder %d dropped but the lock is still held' % c, 'C13_crash_release')
        for k in lost_at:
            if st['conns'][k][0]:
                return bad('lock-lost-holder', 'dropped connection %d holds the lock' % k, 'C13_crash_abandons')
        if e == 'P' and c < n:
            p = prev['conns'][c]
            if not prev['lock'] and p[1] and not p[2] and not p[3]:
                if [x[:2] for x in st['out']] != [[1, c]] or not st['conns'][c][0] or not st['lock']:
                    return bad('lock-not-granted', 'free lock not granted to waiting client %d at its poll' % c,
                               'C13_granted')
        for k, x in enumerate(st['conns']):
            if x[3] and k not in lost_at:
                lost_at[k] = i
        prev = st
    return None


def nontrivial(h, obs):
    busy = any(x[0] == 2 for st in obs for x in st['out'])
    drop = False
    prev = [[False] * 5 + [0] for _ in range(h['n'])]
    for (e, c), st in zip(h['events'], obs):
        if e == 'D' and c < h['n'] and not prev[c][3]:
            if prev[c][0] or (prev[c][1] and not prev[c][2]):
                drop = True
        prev = st['conns']
    return busy and drop


def ev_term(e):
    return 'Reopen' if e[0] == 'O' else 'Ev (%s %d)' % (EV[e[0]], e[1])


def model_eval(ctx, hs):
    exprs, shape = [], []
    step = 80
    for i in range(0, len(hs), step):
        part = hs[i:i + step]
        items = ';'.join('(%d, [%s])' % (h['n'], ';'.join(ev_term(e) for e in h['events'])) for h in part)
        exprs.append('map (fun p => obs_xtrace (fst p) (snd p)) [%s]' % items)
        shape.append(len(part))
    res = ctx.coq_eval(['DV.Model.Lock'], exprs, z_scope=False, chunk=10)
    out = []
    for r, k in zip(res, shape):
        assert len(r) == k
        out += [[canon_model(s) for s in tr] for tr in r]
    return out



# ---------------------------------------------------------------------------
# the source tie by translation: tools/translate/lock2coq.py -> Gen/LockGen.v,
# Proofs/LockGenEq.v (gstep = Lock.step), Props/C13.v C13_*_is_source
# ---------------------------------------------------------------------------
GEN_PRE = '''
Definition gx (st : lstate) (x : xevent) : lstate * list lout :=
  match x with Ev e => LockGenEq.gstep st e | Reopen => (st, []) end.
Fixpoint gtrace (st : lstate) (xs : list xevent) : list (lstate * list lout) :=
  match xs with [] => [] | x :: r => let '(s1, o1) := gx st x in (s1, o1) :: gtrace s1 r end.
Definition obs_gtrace (n : nat) (xs : list xevent) := map obs_step (gtrace (linit n) xs).
'''


def lock_generate(ctx):
    ok, msg = ctx.generate('lock2coq.py', 'Gen/LockGen.v')
    ctx.trust('translator tools/translate/lock2coq.py (+ pyfrag.py, pyfrag_fx.py: python ast -> Gallina, '
              'fail closed; LoopingCall.start, reactor.callLater, _send and loseConnection are declared '
              'at the top of the script, lock-view bookkeeping and logging are neutral; validated on '
              'every run against the real Worker objects on a sample of the histories; the generated '
              'handlers are PROVED to be the step function of Model/Lock.v, coq/Proofs/LockGenEq.v)')
    fps = ctx.cov.setdefault('translated_fingerprints', {})
    fps.update(core.fingerprint('Python/dawgie/db/shelve/comms.py',
                                ['Worker.__init__', 'Worker.connectionLost', 'Worker.dataReceived', 'Worker.do',
                                 'Worker._do_acquire', 'Worker._do_release', 'Worker._get_db_lock_status',
                                 'Worker._lock_db', 'Worker._unlock_db']))
    fps.update(core.fingerprint('Python/dawgie/context.py', ['lock_db', 'unlock_db']))
    return {'ok': ok, 'msg': msg}


def lock_validate(ctx, g, hs, obs):
    """generated handlers (vm_compute of LockGenEq.gstep) vs the real Worker objects, on the
    drop-/reopen-injected scripts, a slice of the exhaustive scope and of the random histories"""
    if not g['ok']:
        return None
    rng = random.Random('%s:C13:gen' % ctx.seed)
    idx = [i for i, h in enumerate(hs) if h['kind'].endswith('injected')]
    rest = [i for i, h in enumerate(hs) if not h['kind'].endswith('injected')]
    idx += rng.sample(rest, min(len(rest), ctx.n(400, 4000)))
    exprs, step = [], 100
    for k in range(0, len(idx), step):
        part = [hs[i] for i in idx[k:k + step]]
        items = ';'.join('(%d, [%s])' % (h['n'], ';'.join(ev_term(e) for e in h['events'])) for h in part)
        exprs.append('map (fun p => obs_gtrace (fst p) (snd p)) [%s]' % items)
    try:
        res = ctx.coq_eval(['DV.Model.Lock', 'DV.Proofs.LockGenEq'], exprs, preamble=GEN_PRE,
                           z_scope=False, chunk=4)
    except core.CoqEvalError as e:
        return {'history': None, 'python': '', 'generated': 'Gen/LockGen.v does not evaluate: %s' % (e.args[1][-600:],)}
    flat = [[canon_model(s) for s in tr] for r in res for tr in r]
    ctx.note('source_tie_lock', {'histories_compared': len(flat), 'translator_ok': True})
    for i, m in zip(idx, flat):
        io = [canon_impl(s) for s in obs[i]]
        if io != m:
            k = [a != b for a, b in zip(io, m)].index(True) if len(io) == len(m) else -1
            return {'history': {'n': hs[i]['n'], 'events': hs[i]['events']}, 'step': k,
                    'python': repr(io[k] if k >= 0 else io), 'generated': repr(m[k] if k >= 0 else m)}
    return None

# ---------------------------------------------------------------------------
# the blocking client: comms.acquire / comms.release on a fake socket
# ---------------------------------------------------------------------------
CLIENT_ALIAS = {'00': {'kind': 'mutex', 'name': 'lock'}, '01': {'kind': 'mutex', 'name': 'unlock'},
                '05': {'kind': 'obj', 'value': True}, '06': {'kind': 'obj', 'value': False}}
YOURS = [b'\x01', b'\x05']     # loads(p) == Mutex.unlock (True == Mutex.unlock in Python)


def fr(p):
    return struct.pack('>I', len(p)) + p


def zl(b):
    return '[' + ';'.join(str(x) for x in b) + ']'


def zll(bs):
    return '[' + ';'.join(zl(b) for b in bs) + ']' if bs else '(@nil (list Z))'


def all_lens(n):
    for mask in range(2 ** (n - 1)):
        lens, last = [], 0
        for i in range(n - 1):
            if mask >> i & 1:
                lens.append(i + 1 - last)
                last = i + 1
        lens.append(n - last)
        yield lens


def cut(stream, lens):
    out, pos = [], 0
    for n in lens:
        out.append(stream[pos:pos + n])
        pos += n
    return out


def run_client(ctx):
    rng = random.Random('%s:C13:client' % ctx.seed)
    real = ctx.harness('drive_client.py', {'pickles': [CLIENT_ALIAS['00'], CLIENT_ALIAS['01'],
                                                        CLIENT_ALIAS['05'], CLIENT_ALIAS['06']]})['pickles']
    rlock, runlock, rtrue, rfalse = [bytes.fromhex(x) for x in real]
    cases = []

    def add(fn, statuses, rest, lens, known, yours):
        stream = b''.join(fr(m) for m in statuses) + rest
        cases.append({'fn': fn, 'statuses': statuses, 'rest': rest, 'stream': stream, 'lens': lens,
                      'known': known, 'yours': yours, 'chunks': cut(stream, lens)})

    al = [b'\x00', b'\x01', b'\x05', b'\x06']
    shorts = [('acquire', [b'\x00', b'\x01'], b'\x09'), ('acquire', [b'\x01'], b'\x00\x00\x00\x01\x00'),
              ('acquire', [b'\x00', b'\x00'], b''), ('acquire', [b'\x06', b'\x05', b'\x01'], b''),
              ('release', [b'\x05'], b'\x09\x09'), ('release', [b'\x06'], b'')]
    for fn, st, rest in shorts:
        n = len(b''.join(fr(m) for m in st) + rest)
        allc = list(all_lens(n))
        if ctx.quick and len(allc) > 1024:
            allc = rng.sample(allc, 1024)
        for lens in allc:
            add(fn, st, rest, lens, al, YOURS)
    rk = [rlock, runlock, rtrue, rfalse]
    for _ in range(ctx.n(80, 1500)):
        st = [rlock] * rng.randint(0, 4) + [runlock]
        rest = rng.choice([b'', b'\x00', fr(rlock), fr(runlock)[:7]])
        n = len(b''.join(fr(m) for m in st) + rest)
        cuts = sorted(set(rng.randrange(1, n) for _ in range(rng.choice([0, 1, 3, 7, 20]))))
        add('acquire', st, rest, [j - i for i, j in zip([0] + cuts, cuts + [n])], rk, [runlock, rtrue])
    impl = ctx.harness('drive_client.py', {'alias': CLIENT_ALIAS, 'cases': [
        {'fn': c['fn'], 'chunks': [x.hex() for x in c['chunks']]} for c in cases]})['cases']
    ctx.log('client: implementation ran %d acquire/release socket cases' % len(cases))
    exprs, wants = [], []
    for c, o in zip(cases, impl):
        known = c['known']
        got = [bytes.fromhex(x) for x in o['got']]
        left = [list(bytes.fromhex(x)) for x in o['left']]
        rep = {'source': 'oracle', 'theorem': 'C13_client_acquire', 'observed': o,
               'client_case': {'fn': c['fn'], 'chunks': [x.hex() for x in c['chunks']], 'alias': CLIENT_ALIAS}}
        if o['exc'] == 'Spin':
            canon = ([[-9]], [])
        elif o['exc']:
            canon = ([[-8, o['exc']]], [])
        else:
            canon = ([[0, known.index(g)] if g in known else [0, -1] + list(g) for g in got], left)
        # oracle: acquire returns at the first "yours" status, release after one reply
        st = c['statuses']
        if c['fn'] == 'acquire':
            k = next((i for i, m in enumerate(st) if m in c['yours']), None)
            if k is not None:
                rest = b''.join(fr(m) for m in st[k + 1:]) + c['rest']
                if (o['exc'] or got != st[:k + 1] or b''.join(bytes(x) for x in left) != rest or o['closed']
                        or len(o['sent']) != 1):
                    ctx.violation('client-acquire', {'fn': 'acquire'},
                                  'comms.acquire on chunks %s read %s, left %s (closed=%s)'
                                  % (c['lens'], o['got'], o['left'], o['closed']), rep)
            elif o['exc'] != 'Spin':
                ctx.violation('client-acquire', {'fn': 'acquire'},
                              'comms.acquire returned without being told "yours": %s' % o, rep)
            exprs.append('obs_recv %s (acquire_wait %d%%nat (fun p => mem p %s) %s)'
                         % (zll(known), len(st) + 2, zll(c['yours']), zll(c['chunks'])))
        else:
            rest = b''.join(fr(m) for m in st[1:]) + c['rest']
            if (o['exc'] or got != st[:1] or not o['closed'] or b''.join(bytes(x) for x in left) != rest
                    or o['ret'] != repr(st[0] == b'\x05')):
                ctx.violation('client-release', {'fn': 'release'}, 'comms.release: %s' % o, rep)
            exprs.append('obs_recv %s (receive_n 1%%nat %s)' % (zll(known), zll(c['chunks'])))
        wants.append(canon)
    batched = ['[' + '; '.join(exprs[i:i + 60]) + ']' for i in range(0, len(exprs), 60)]
    res = [x for b in ctx.coq_eval(['DV.Model.Frame', 'DV.Model.Client'], batched, chunk=5) for x in b]
    assert len(res) == len(exprs)
    mism = None
    keys = []
    for c, want, m in zip(cases, wants, res):
        evs, left = m
        if ([list(e) for e in evs], [list(x) for x in left]) != want and mism is None:
            mism = (c, want, m)
        if len(c['lens']) > 1:
            keys.append(('client', c['fn'], c['stream'].hex(), c['lens']))
    ctx.count(evaluations=len(cases), nontrivial_keys=keys)
    ctx.note('client_cases', len(cases))
    if mism and ctx.nviol == 0:
        c, want, m = mism
        ctx.broken('correspondence Client.v vs comms.%s' % c['fn'],
                   'chunks %s\nimplementation: %s\nmodel: %s' % ([x.hex() for x in c['chunks']], want, m),
                   {'source': 'correspondence', 'expected': repr(m), 'observed': repr(want)})


def run(ctx):
    ctx.cov['rule'] = (
        'histories over Acquire/Poll/Release/Drop/Timer x clients: every history of length 4 for 2 '
        'clients (thorough: also length 4 for 3 clients), seeded long histories for 2-5 '
        'clients, and a contended script with a Drop injected at every position for every client; '
        'non-trivial = two clients contended (somebody was told busy) and a connection dropped '
        'while holding or waiting')
    ctx.trust(
        'hand-written model coq/Model/Lock.v (tied by the correspondence below)',
        'driver tools/harness/drive_lock.py: recording transports (no request delivered after '
        'loseConnection/connectionLost; connectionLost after an escaped exception), real twisted '
        'LoopingCall on a per-connection task.Clock, queued reactor.callLater, real DBI in a scratch dir',
    )
    ctx.assume(
        'Twisted: one callback at a time; connectionLost is called once per connection; '
        'LoopingCall.start(now=True) calls at once and asserts not running, stop asserts running',
        'not covered: the 3 s period, _do_copy thread, lockview bookkeeping (task_engine); the '
        'blocking client (comms.acquire / comms.release) is modelled in Client.v and tied on a fake socket',
    )
    fps = fingerprints()
    ctx.note('fingerprints', fps)
    expect = expected_fingerprints()
    changed = sorted(k for k in set(fps) | set(expect) if fps.get(k) != expect.get(k))
    ctx.note('escalated_by_fingerprint', bool(changed))
    ctx.note('changed_fingerprints', changed)
    if changed and ctx.quick and not os.environ.get('VERIF_NO_ESCALATE'):
        # a modelled function was edited: not a verdict, but the correspondence
        # and the oracle now run at the thorough depth (DESIGN 5.2)
        ctx.log('fingerprint changed (%s): thorough depth' % ', '.join(changed))
        ctx.quick = False
    if ctx.replay:
        import json
        rp = json.load(open(ctx.replay))
        h = dict(rp['history'], kind='replay')
        o = ctx.harness('drive_lock.py', {'histories': [rp['history']]})['histories'][0]
        for e, s in zip(h['events'], o):
            print('[C13] replay %s %d -> out=%s lock=%s has=%s' % (EV[e[0]], e[1], s['out'], s['lock'],
                                                                 [c[0] for c in s['conns']]), flush=True)
        oracle(ctx, h, o)
        ctx.count(evaluations=1, nontrivial_keys=['a', 'b'])
        return
    g = lock_generate(ctx)
    r = ctx.coq_props()
    if not g['ok']:
        # the previous Gen/LockGen.v is still in place: what was proved is not
        # about the source of today
        ctx.cov['discharged'] = 0
    hs = histories(ctx)
    impl = ctx.harness('drive_lock.py', {'histories': [{'n': h['n'], 'events': h['events']} for h in hs]})
    obs = impl['histories']
    ctx.log('implementation ran %d histories (%d steps)' % (len(hs), sum(len(o) for o in obs)))
    kinds, keys = {}, []
    for h, o in zip(hs, obs):
        kinds[h['kind']] = kinds.get(h['kind'], 0) + 1
        oracle(ctx, h, o)
        if nontrivial(h, o):
            keys.append((h['n'], h['events']))
    ctx.note('histories_by_kind', kinds)
    model = model_eval(ctx, hs)
    mism = None
    for h, o, m in zip(hs, obs, model):
        io = [canon_impl(s) for s in o]
        if io != m and mism is None:
            k = [a != b for a, b in zip(io, m)].index(True) if len(io) == len(m) else -1
            mism = (h, k, io[k] if k >= 0 else io, m[k] if k >= 0 else m)
    ctx.count(evaluations=len(hs), nontrivial_keys=keys)
    for h, o in list(zip(hs, obs))[-3:]:
        ctx.sample({'n': h['n'], 'events': h['events'][:10], 'out': [s['out'] for s in o[:10]]})
    if mism and ctx.nviol == 0:   # a failing input found by the oracle is the better report
        h, k, io, m = mism
        ctx.broken('correspondence Lock.v vs comms.Worker',
                   'history n=%d %s\nstep %d\nimplementation: %s\nmodel: %s'
                   % (h['n'], h['events'], k, io, m),
                   {'source': 'correspondence', 'history': {'n': h['n'], 'events': h['events']},
                    'step': k, 'expected': repr(m), 'observed': repr(io)})
    # the source tie: translator validation (generated handlers vs the real
    # Worker objects); a refused source or a broken equality proof is reported
    # only when the oracle above found no failing input on 14 000+ histories
    bad = lock_validate(ctx, g, hs, obs)
    if not g['ok']:
        ctx.note('source_tie_lock', {'translator_ok': False, 'message': g['msg'][-400:]})
        if ctx.nviol == 0:
            ctx.broken('translator lock2coq.py refuses dawgie/db/shelve/comms.py', g['msg'],
                       {'source': 'translator'})
    elif bad and ctx.nviol == 0:
        ctx.broken('translator validation: generated lock handlers disagree with comms.Worker',
                   repr(bad), {'source': 'translator-validation', 'history': bad.get('history'),
                               'step': bad.get('step'), 'expected': bad['generated'], 'observed': bad['python']})
    run_client(ctx)
    if not r['ok']:
        ctx.broken('theorem/file %s' % r['failing'], r['log'],
                   {'source': 'proof', 'theorem': r['failing']})


if __name__ == '__main__':
    import sys
    if sys.argv[1:] == ['--write-fingerprints']:
        os.makedirs(os.path.dirname(FP_FILE), exist_ok=True)
        json.dump(fingerprints(), open(FP_FILE, 'w'), indent=1, sort_keys=True)
        print('wrote', FP_FILE)
