'''C14 -- Message streams are fragmentation-proof and gated by the handshake.

Framing: coq/Model/Frame.v mirrors the reassembly loop that exists three times
(farm.Hand / shelve.comms.Worker / logger.LogSink .dataReceived); the chunking
theorems are proved for every stream and every cut (Props/C14.v); the three
real loops are tied to the model by running both on every cut of short streams
and on random cuts of long streams made of real wire payloads.

Handshake: coq/Model/Shake.v mirrors security.TwistedWrapper (phases p1..p6,
process); gate / fail-closed / after / chunking theorems; tie = the real wrapper
in front of the three real protocols, stub PGP oracle.
'''
import json
import os
import random
import struct

from vlib import core

PID = 'C14'
META = {
    'text': 'Theorems over a Gallina model of the 4-byte big-endian length-prefix reassembly loop (farm Hand, shelve comms Worker, LogSink) and of the legacy handshake wrapper (security.TwistedWrapper): for every byte stream and every way of cutting it into chunks the delivered payload sequence and the final reassembly state equal those of whole delivery (up to the first loseConnection/exception, which on the database channel only protocol-conformant streams never pass); frame/unframe round trip for every message list with payloads < 2^32; no delivery before phase 5 succeeds and none unless some blob passed signature check and echo comparison, bytes after the phase-5 packet are delivered afterwards in order exactly as a fresh protocol would receive them, a failed phase closes with nothing delivered ever; the handshake outcome (challenge, close, deliveries, final state) is independent of the chunking, cuts inside the packets of phases 1-5 included, for every oracle that does not validate-and-echo the empty blob (refuted without that hypothesis; real PGP cannot). The model is tied to the three real dataReceived loops and to the real wrapper by correspondence on every cut of short streams and random cuts of long streams of real pickles. Sender side of the log channel (TwistedHandler.emit/makeSocket on python 3.12 logging.handlers.SocketHandler makePickle/createSocket/send/emit/close, model LogSend.v), composed with one LogSink per connection: for every history of emits, closes, refused or failing connects (with records logged during the connect), failing sendall calls and clock readings, the connection the handler holds carries whole frames only and a LogSink fed its bytes in any fragmentation handles exactly the records written to it, in order (all emitted records, in order, when nothing fails); on every connection that was lost or closed any arriving prefix in any fragmentation yields a prefix of the records written to it and never a partial record; with pairwise different records none is written twice (the record of a failed send and the record emitted when the connect fails are dropped, never re-sent); each record is in exactly one of wire/dropped/queue/local; records logged during a handshake are queued and written before the next record; after one failed connect TwistedHandler keeps __shaking set and queues every later record for ever without reconnecting (C14_log_sender_stuck, a reported defect outside the C14 statement, C14_log_sender_recovers_refuted). Tie: the real handler on the root logger, the real security.connect over a scripted socket, a real LogSink from LogSinkFactory.buildProtocol per connection, seeded random histories with alias and real pickles. Source tie: the encoders (message.send, Worker._send), the receiver steps (LogSink / Worker / Hand dataReceived with their __init__) and the blocking message.receive are regenerated from the python source on every run (frame2coq.py, fail closed) and proved equal to frame / iter / feed / receive of the models for every argument (C14_send/_logsink/_worker/_hand/_receive_is_source, C14_chunking_on_source); what is done with a decoded message is not translated.',
    'note': 'Trusted: Coq kernel; hand-written models Frame.v/Shake.v + correspondence driver drive_frame.py (fake transport honouring "no data after loseConnection", recording pickle.loads shim, table-driven PGP oracle, frozen clock/random for the challenge); Twisted delivers dataReceived calls sequentially and none after loseConnection or after an exception escaped; pickle decides decodable/closing per payload (oracles). Sender study: hand-written model LogSend.v + driver drive_logsend.py (scripted socket.socket under dawgie.security, no-op PGP exchange security._send/_recv, scripted time.time and recording pickle shims inside logging.handlers, recorder in place of the file handler of LogSinkFactory, a logging.Filter that names the record security.connect logs; beyond the end of the connect script connections are refused and that record is filtered out); one clock reading per createSocket call; sendall either accepts everything or raises OSError after a strict prefix of the frame; what arrives of a connection is a prefix of what sendall accepted; makePickle never raises. No axioms. Translator frame2coq.py (python ast -> Gallina; struct.pack/unpack(\'>I\'|\'>L\') = enc32/be32, slices = firstn/skipn), validated each run against the real classes on small-scope streams and against the real send functions (drive_framegen.py).',
    'technique': 'Coq proof over executable models (receiver loop, handshake wrapper, blocking client, log sender composed with the receiver) + model/implementation correspondence (exhaustive small scope + seeded random; scripted socket, clock and connect outcomes for the sender) + translation of the framing functions from the source with equality proofs',
}

CHANS = ('farm', 'db', 'log')
FP = [
    ('Python/dawgie/pl/farm.py', ['Hand.dataReceived', 'Hand.__init__']),
    ('Python/dawgie/db/shelve/comms.py', ['Worker.dataReceived', 'Worker.__init__']),
    ('Python/dawgie/pl/logger/__init__.py', ['LogSink.dataReceived', 'LogSink.__init__']),
    ('Python/dawgie/security.py', ['TwistedWrapper', 'use_tls']),
    ('Python/dawgie/pl/message.py', ['loads', 'dumps', 'send', 'receive']),
    ('Python/dawgie/pl/logger/__init__.py', ['TwistedHandler']),
    ('Python/dawgie/db/shelve/comms.py', ['Connector']),
]

# short alias payloads (the loads shim of the driver maps them to real objects)
ALIAS = {
    'farm': {'01': {'kind': 'msg', 'type': 'register', 'rev': 'r'},
             '0203': {'kind': 'msg', 'type': 'status', 'rev': 'q'},
             '04': {'kind': 'msg', 'type': 'wait'}},
    'db': {'01': {'kind': 'cmd', 'func': 'release'},
           '02': {'kind': 'cmd', 'func': 'acquire', 'value': 'x'},
           '0203': {'kind': 'cmd', 'func': 'get'},
           '04': {'kind': 'cmd', 'func': 'dbcopy'}},
    'log': {'01': {'kind': 'rec', 'msg': 'a'},
            '0203': {'kind': 'rec', 'msg': 'bb'},
            '04': {'kind': 'rec', 'msg': 'c'}},
}
NONCLOSING = ('acquire', 'dbcopy')
# real objects whose real pickles make the long streams
REAL = {
    'farm': [{'kind': 'msg', 'type': 'register', 'rev': 'abc'},
             {'kind': 'msg', 'type': 'status', 'rev': 'q'},
             {'kind': 'msg', 'type': 'response', 'rev': 'zz'},
             {'kind': 'msg', 'type': 'wait'},
             {'kind': 'msg', 'type': 'status', 'rev': 'x' * 300}],     # payload > 255 bytes
    'db': [{'kind': 'cmd', 'func': 'acquire', 'value': 'client-7'},
           {'kind': 'cmd', 'func': 'dbcopy', 'value': None},
           {'kind': 'cmd', 'func': 'release'},
           {'kind': 'cmd', 'func': 'table'},
           {'kind': 'cmd', 'func': 'acquire', 'value': 'n' * 700}],
    'log': [{'kind': 'rec', 'msg': 'a'}, {'kind': 'rec', 'msg': 'bb ' * 20},
            {'kind': 'rec', 'msg': ''}, {'kind': 'rec', 'msg': 'm' * 1000}],
}
BIG = {'farm': {'kind': 'msg', 'type': 'status', 'rev': 'y' * 70000},   # third header byte non-zero
       'db': {'kind': 'cmd', 'func': 'acquire', 'value': 'z' * 66000},
       'log': {'kind': 'rec', 'msg': 'w' * 67000}}


FP_FILE = os.path.join(core.VERIF, 'corpus', 'C14', 'fingerprints.json')


def fingerprints():
    fps = {}
    for path, names in FP:
        fps.update({path.split('/')[-1] + ':' + k: v for k, v in core.fingerprint(path, names).items()})
    return fps


def expected_fingerprints():
    """reference fingerprints of the functions the models were written against
    (committed; regenerate with `python3 props/C14.py --write-fingerprints` after
    re-reading the code and the models -- never written by a check run)"""
    try:
        return json.load(open(FP_FILE))
    except (OSError, ValueError):
        return {}


def fr(p):
    return struct.pack('>I', len(p)) + p


def zl(b):
    return '[' + ';'.join(str(x) for x in b) + ']'


def zll(bs):
    return '[' + ';'.join(zl(b) for b in bs) + ']'


def closing_spec(chan, spec):
    return chan == 'db' and spec['kind'] == 'cmd' and spec['func'] not in NONCLOSING


class Case:
    '''one stream on one channel + the chunkings to run'''

    def __init__(self, chan, label, parts, chunkings, known, closers, good, hs=None):
        self.chan = chan
        self.label = label
        self.parts = parts          # [('frame', payload) | ('raw', bytes)]
        self.stream = b''.join(fr(p) if k == 'frame' else p for k, p in parts)
        self.chunkings = chunkings  # 'all' or list of lens lists
        self.known = known          # payload table for the canonical form
        self.closers = closers
        self.good = good
        self.hs = hs

    def payload(self):
        return {'chan': self.chan, 'stream': self.stream.hex(),
                'chunkings': self.chunkings, 'hs': self.hs}

    def boundaries(self):
        '''stream offsets that are message boundaries (cuts elsewhere fall
        inside a length prefix or inside a payload)'''
        out, pos = set(), 0
        for k, p in self.parts:
            pos += (4 + len(p)) if k == 'frame' else len(p)
            out.add(pos)
        return out


def canon_events(evs, known, sent=None):
    out = []
    for e in evs:
        if e[0] == 'S' and sent is not None and bytes.fromhex(e[1]) == sent:
            out.append([3])
            continue
        if e[0] == 'D':
            b = bytes.fromhex(e[1])
            out.append([0, known.index(b)] if b in known else [0, -1] + list(b))
        elif e[0] == 'C':
            out.append([1])
        elif e[0] == 'A':
            out.append([2])
        elif e[0] == 'S':
            out.append([3] + list(bytes.fromhex(e[1])))
        else:
            out.append([9, json.dumps(e)])
    return out


def canon_impl(o, known):
    evs = canon_events(o['events'], known)
    if [2] in evs:
        return (evs, o['live'])
    if type(o['live']) is not bool:
        return ('bad-live-type',)
    ln = o['len']
    if not (ln is None or type(ln) is int):
        return ('bad-len-type', repr(ln))
    return (evs, o['live'], list(bytes.fromhex(o['buf'])), -1 if ln is None else ln)


def canon_model(m):
    evs, (live, (buf, ln)) = m
    evs = [list(e) for e in evs]
    if [2] in evs:
        return (evs, live)
    return (evs, live, list(buf), ln)


def cut_trace(evs):
    out = []
    for e in evs:
        out.append(e)
        if e in ([1], [2]):
            break
    return out


# ---------------------------------------------------------------------------
# case generation (framing)
# ---------------------------------------------------------------------------

def framing_cases(ctx, real):
    rng = random.Random('%s:C14:frame' % ctx.seed)
    cases = []
    for chan in CHANS:
        al = {bytes.fromhex(h): s for h, s in ALIAS[chan].items()}
        known = sorted(al) + [b'\xff', b'\x00', b'\x05\x06', b'\x01\x01\x01']
        closers = [p for p, s in al.items() if closing_spec(chan, s)]
        good = sorted(al)
        a1, a2, a12, a4 = b'\x01', b'\x02', b'\x02\x03', b'\x04'

        def mk(label, parts, chunkings='all'):
            cases.append(Case(chan, label, parts, chunkings, known, closers, good))

        # -- exhaustive small scope: every cut -------------------------------
        mk('two-frames', [('frame', a1), ('frame', a12)])
        mk('frames+partial-header', [('frame', a4), ('frame', a1), ('raw', b'\x00\x00')])
        mk('zero-length-frame', [('frame', b''), ('frame', a1)])
        mk('garbage-then-frame', [('frame', b'\xff'), ('frame', a1)])
        mk('partial-payload', [('raw', b'\x00\x00\x00\x03\x01\x02')])
        mk('nonclosing-then-closing', [('frame', a4), ('frame', a1)])
        mk('closing-then-more', [('frame', a1), ('frame', a12)])
        if chan == 'db':
            mk('acquire-then-release', [('frame', a2), ('frame', a1)])
        if not ctx.quick:
            mk('three-frames', [('frame', a1), ('frame', a12), ('frame', a4)])
            mk('four-frames-short', [('frame', a4), ('frame', b''), ('frame', a1), ('raw', b'\x00')]
               if chan != 'db' else [('frame', a4), ('frame', a2), ('frame', a1), ('raw', b'\x00')])
        # random short streams over a small alphabet, every cut
        for k in range(ctx.n(4, 10)):
            parts = []
            while sum(len(p) + (4 if kk == 'frame' else 0) for kk, p in parts) < ctx.n(9, 11):
                r = rng.random()
                if r < 0.7:
                    parts.append(('frame', bytes(rng.choice([1, 2, 3, 4, 5, 6, 0xff])
                                                 for _ in range(rng.choice([0, 1, 1, 1, 2, 2, 3])))))
                else:
                    parts.append(('raw', bytes(rng.choice([0, 0, 0, 1, 2, 3])
                                               for _ in range(rng.randint(1, 4)))))
            # truncate to the scope
            c = Case(chan, 'random-short-%d' % k, parts, 'all', known, closers, good)
            lim = ctx.n(11, 13)
            if len(c.stream) > lim:
                c.parts = [('raw', c.stream[:lim])]
                c.stream = c.stream[:lim]
            # payloads that may come out of a random stream and are no alias:
            # they do not decode (real pickle.loads refuses them) unless ...
            cases.append(c)

        # -- long streams of real wire payloads: random cuts -------------------
        rp = real[chan]
        rknown = [p for p, _ in rp]
        rclosers = [p for p, s in rp if closing_spec(chan, s)]
        if chan == 'db':
            orders = [[0, 1, 4, 2], [0, 3, 2], [1, 2]]
        else:
            orders = [list(range(len(rp))), [len(rp) - 1, 0, 0]]
        for oi, order in enumerate(orders[: ctx.n(2, 3)]):
            parts = [('frame', rp[i][0]) for i in order]
            if oi == 0:
                parts.append(('raw', b'\x00\x00\x01'))
            c = Case(chan, 'real-%d' % oi, parts, [], rknown, rclosers, rknown)
            n = len(c.stream)
            chk = [[n]]                                   # whole
            chk.append([1] * n)                           # byte-wise
            heads = sorted(set(range(1, 10)) | {b + d for b in c.boundaries()
                                                 for d in (-1, 1, 2, 3, 4, 5) if 0 < b + d < n})
            chk += [[i, n - i] for i in heads]            # every cut in/around a header
            if not ctx.quick:
                chk += [[i, n - i] for i in range(1, n)]  # every single cut
            for _ in range(ctx.n(60, 1500)):
                k = rng.choice([1, 2, 3, 5, 8, 13, 40])
                cuts = sorted(set(rng.randrange(1, n) for _ in range(k)))
                if rng.random() < 0.5:   # bias: cut inside a header
                    b = rng.choice(sorted(c.boundaries()))
                    cuts = sorted(set(cuts) | {min(n - 1, max(1, b + rng.choice([-3, -2, -1, 1, 2, 3])))})
                chk.append([j - i for i, j in zip([0] + cuts, cuts + [n])])
            c.chunkings = chk
            cases.append(c)
    return cases


# ---------------------------------------------------------------------------
# model side
# ---------------------------------------------------------------------------

def model_frames(ctx, cases):
    '''evaluate Model/Frame.v on the cases; returns per case {lens tuple: obs}'''
    pre, exprs, shape = [], [], []
    for k, c in enumerate(cases):
        pre.append('Definition s%d : list Z := %s.' % (k, zl(c.stream)))
        pre.append('Definition t%d : list (list Z) := %s.' % (k, zll(c.known)))
        pre.append('Definition c%d : chan := chan_of %s %s.'
                   % (k, zll(c.closers) if c.closers else '(@nil (list Z))',
                      zll(c.good) if c.good else '(@nil (list Z))'))
        if c.chunkings == 'all':
            exprs.append('run_all c%d t%d s%d' % (k, k, k))
            shape.append((k, 'all', None))
        else:
            n = len(c.stream)
            step = 40
            for i in range(0, len(c.chunkings), step):
                part = c.chunkings[i:i + step]
                for lens in part:
                    assert sum(lens) == n
                ll = '[' + ';'.join(zl(l[:-1]) if len(l) > 1 else '(@nil Z)' for l in part) + ']'
                exprs.append('map (fun l => run_lens c%d t%d l s%d) %s' % (k, k, k, ll))
                shape.append((k, 'some', part))
    res = ctx.coq_eval(['DV.Model.Frame'], exprs, preamble='\n'.join(pre), chunk=12)
    out = [dict() for _ in cases]
    for (k, kind, part), r in zip(shape, res):
        if kind == 'all':
            for lens, obs in r:
                out[k][tuple(lens)] = canon_model(obs)
        else:
            for lens, obs in zip(part, r):
                out[k][tuple(lens)] = canon_model(obs)
    return out


# ---------------------------------------------------------------------------

def real_payloads(ctx):
    specs = [(ch, s) for ch in CHANS for s in REAL[ch]]
    r = ctx.harness('drive_frame.py', {'pickles': [s for _, s in specs]})
    real = {ch: [] for ch in CHANS}
    for (ch, s), hx in zip(specs, r['pickles']):
        real[ch].append((bytes.fromhex(hx), s))
    return real


def frame_oracle(ctx, c, runs):
    '''the property on the IMPLEMENTATION's observations (no model involved).
    runs: [(lens, impl_obs_canon, raw)]'''
    whole = None
    for lens, obs, raw in runs:
        if len(lens) == 1:
            whole = obs
    if whole is None:
        return
    wev = whole[0]
    # (1) whole delivery of a well-formed stream = the framed messages, in order
    msgs = [p for k, p in c.parts if k == 'frame']
    tail = c.parts[len(msgs):]
    wellformed = (all(k == 'frame' for k, p in c.parts[:len(msgs)])
                  and (not tail or (len(tail) == 1 and len(tail[0][1]) < 4))
                  and all(p in c.good for p in msgs))
    if wellformed:
        exp = []
        for p in msgs:
            exp.append([0, c.known.index(p)])
            if p in c.closers:
                exp.append([1])
        if wev != exp:
            ctx.violation('framing-roundtrip', {'chan': c.chan},
                          'channel %s: whole delivery of %s yields %s, expected %s'
                          % (c.chan, c.label, wev, exp),
                          {'source': 'oracle', 'theorem': 'C14_roundtrip', 'case': c.payload(),
                           'alias': ALIAS, 'expected': exp, 'observed': wev})
            return
    # (2) every chunking delivers what whole delivery delivers.  The trace up
    # to the first loseConnection/exception must always agree; the full trace
    # must agree whenever whole delivery has no stop before its last event
    # (always on farm/log with decodable payloads; on db for conformant streams)
    conformant = not any(e in ([1], [2]) for e in wev[:-1])
    past = 0
    for lens, obs, raw in runs:
        ev = obs[0]
        bad = None
        if cut_trace(ev) != cut_trace(wev):
            bad = 'prefix'
        elif conformant and ev != wev:
            bad = 'full'
        elif not conformant and ev != wev:
            # whole delivery went on past a loseConnection.  The recorded finding
            # is exactly: first stop is a Close and the chunked trace is whole
            # delivery truncated behind a Close; anything else is another defect
            first = [e for e in wev if e in ([1], [2])][0]
            if first == [1] and [1] in ev and wev[:len(ev)] == ev:
                past += 1
                ctx.violation('db-coalesced-past-close', {'chan': c.chan},
                              'channel %s stream %s: whole delivery %s, chunks %s stop at %s'
                              % (c.chan, c.label, wev, lens, ev),
                              {'source': 'oracle', 'theorem': 'C14_db_pipelined_refuted', 'alias': ALIAS,
                               'case': dict(c.payload(), chunkings=[lens, [len(c.stream)]]),
                               'expected': wev, 'observed': ev})
            else:
                bad = 'after-stop'
        if bad:
            ctx.violation('chunking', {'chan': c.chan, 'level': bad},
                          'channel %s stream %s: chunks %s deliver %s, whole delivery %s'
                          % (c.chan, c.label, lens, ev, wev),
                          {'source': 'oracle', 'theorem': 'C14_chunking', 'alias': ALIAS,
                           'case': dict(c.payload(), chunkings=[lens, [len(c.stream)]]),
                           'expected': wev, 'observed': ev})
            return
    return past


def run_big(ctx):
    """one payload > 65535 bytes per channel (all four header bytes matter), a few
    cuts; thorough depth only"""
    rng = random.Random('%s:C14:big' % ctx.seed)
    pk = ctx.harness('drive_frame.py', {'pickles': [BIG[ch] for ch in CHANS]})['pickles']
    cases = []
    for ch, hx in zip(CHANS, pk):
        big = bytes.fromhex(hx)
        small = b'\x01'
        al = {bytes.fromhex(h): s for h, s in ALIAS[ch].items()}
        c = Case(ch, 'big', [('frame', big), ('frame', small)], [], [big, small],
                 [q for q in [small] if closing_spec(ch, al[q])], [big, small])
        n = len(c.stream)
        c.chunkings = [[n], [1, n - 1], [2, n - 2], [3, n - 3], [4, n - 4], [n - 6, 6], [4, n - 9, 5]]
        for _ in range(5):
            cuts = sorted(set(rng.randrange(1, n) for _ in range(rng.choice([2, 5, 40]))))
            c.chunkings.append([j - i for i, j in zip([0] + cuts, cuts + [n])])
        cases.append(c)
    impl = ctx.harness('drive_frame.py', {'alias': ALIAS, 'cases': [c.payload() for c in cases]})
    per_case = []
    for c, r in zip(cases, impl['cases']):
        dist = [canon_impl(o, c.known) for o in r['distinct']]
        runs = [(lens, dist[k], r['distinct'][k]) for lens, k in r['runs']]
        per_case.append(runs)
        frame_oracle(ctx, c, runs)
    nev = 0
    for c, runs in zip(cases, per_case):     # one channel per Coq file: the stream literal is big
        mod = model_frames(ctx, [c])[0]
        for lens, obs, raw in runs:
            nev += 1
            if mod.get(tuple(lens)) != obs and ctx.nviol == 0:
                ctx.broken('correspondence Frame.v vs %s.dataReceived (payload > 65535 bytes)' % c.chan,
                           'chunks %s' % lens, {'source': 'correspondence', 'chunks': lens, 'chan': c.chan})
    ctx.count(evaluations=nev, nontrivial_keys=[('big', c.chan, tuple(l)) for c in cases for l in c.chunkings[1:]])
    ctx.note('big_payload_bytes', {c.chan: len(c.parts[0][1]) for c in cases})


def run_framing(ctx, real):
    cases = framing_cases(ctx, real)
    impl = ctx.harness('drive_frame.py', {'alias': ALIAS, 'cases': [c.payload() for c in cases]})
    ctx.log('framing: implementation ran %d chunkings of %d streams' % (impl['runs'], len(cases)))
    hist = {}
    past_close = 0
    per_case = []
    for c, r in zip(cases, impl['cases']):
        dist = [canon_impl(o, c.known) for o in r['distinct']]
        runs = [(lens, dist[k], r['distinct'][k]) for lens, k in r['runs']]
        per_case.append(runs)
        p = frame_oracle(ctx, c, runs)
        past_close += p or 0
        hist[c.chan + ':' + c.label.split('-')[0]] = hist.get(c.chan + ':' + c.label.split('-')[0], 0) + len(runs)
    ctx.note('framing_runs_by_kind', hist)
    ctx.note('db_chunkings_where_coalescing_delivers_past_a_close', past_close)
    ctx.expect_known('db-coalesced-past-close', past_close > 0)
    if past_close == 0 and ctx.nviol == 0:
        ctx.broken('open finding db-coalesced-past-close no longer reproduces',
                   'no chunking of the db stream "closing-then-more" stops short of whole delivery: '
                   'model (C14_db_pipelined_refuted) and code have diverged',
                   {'source': 'correspondence', 'theorem': 'C14_db_pipelined_refuted'})
    _STASH['framing'] = (cases, per_case)
    model = model_frames(ctx, cases)
    nev = 0
    keys = []
    mism = None
    for c, runs, mod in zip(cases, per_case, model):
        bnd = c.boundaries()
        for lens, obs, raw in runs:
            nev += 1
            m = mod.get(tuple(lens))
            if m != obs and mism is None:
                mism = (c, lens, obs, m)
            pos, inside = 0, False
            for n in lens[:-1]:
                pos += n
                inside = inside or pos not in bnd
            if inside:
                keys.append((c.chan, c.stream.hex(), lens))
    ctx.count(evaluations=nev, nontrivial_keys=keys)
    for c, runs in list(zip(cases, per_case))[:3]:
        lens, obs, raw = runs[len(runs) // 2]
        ctx.sample({'chan': c.chan, 'stream': c.label, 'chunks': lens, 'events': raw['events'][:6]})
    if mism and ctx.nviol == 0:   # a failing input found by the oracle is the better report
        c, lens, obs, m = mism
        ctx.broken('correspondence Frame.v vs %s.dataReceived' % c.chan,
                   'stream %s (%s) chunks %s\nimplementation: %s\nmodel: %s'
                   % (c.label, c.stream.hex(), lens, obs, m),
                   {'source': 'correspondence', 'alias': ALIAS,
                    'case': dict(c.payload(), chunkings=[lens]),
                    'expected': repr(m), 'observed': repr(obs)})
    return cases


# ---------------------------------------------------------------------------
# handshake
# ---------------------------------------------------------------------------
PHASES = {'_p1': 1, '_p2': 2, '_p3': 3, '_p4': 4, '_p5': 5, '_p6': 6}
ECHO_GOOD = ('echo', 'echo_ws')


class Scenario:
    def __init__(self, name, first=4, ident=b'\x07', l2=None, w4=4, reply=b'\x08', l5=None,
                 valid=(b'\x07', b'\x08'), echo='echo'):
        self.name = name
        self.first, self.ident, self.w4, self.reply = first, ident, w4, reply
        self.l2 = len(ident) if l2 is None else l2
        self.l5 = len(reply) if l5 is None else l5
        self.valid = list(valid)
        self.echo = {reply.hex(): echo}
        self.bytes = (struct.pack('>II', first, self.l2) + ident
                      + struct.pack('>II', w4, self.l5) + reply)

    def fail_at(self):
        """first phase that fails, None if the handshake passes (from the
        scenario's own fields; lengths always describe the blobs here)"""
        if self.first != 4:
            return 1
        if self.ident not in self.valid:
            return 3
        if self.w4 != 4:
            return 4
        if self.reply not in self.valid or self.echo[self.reply.hex()] not in ECHO_GOOD:
            return 5
        return None


def scenarios():
    S = Scenario
    return [
        S('good'),
        S('good-echo-padded', echo='echo_ws'),
        S('good-long-blobs', ident=b'\x07' * 5, reply=b'\x08\x09\x0a', valid=(b'\x07' * 5, b'\x08\x09\x0a')),
        S('bad-first-word', first=5),
        S('bad-first-word-0', first=0),
        S('empty-ident', ident=b''),
        S('empty-ident-accepted', ident=b'', valid=(b'', b'\x08')),
        S('bad-ident-signature', ident=b'\x06'),
        S('bad-second-word', w4=3),
        S('bad-reply-signature', reply=b'\x09'),
        S('bad-echo', echo='wrong'),
        S('bad-echo-truncated', echo='trunc'),
        S('bad-echo-inner-space', echo='inner_ws'),
        S('empty-reply', reply=b''),
        S('corner-empty-reply-accepted', reply=b'', valid=(b'\x07', b'')),
    ]


def hs_cases(ctx, real):
    rng = random.Random('%s:C14:hs' % ctx.seed)
    cases = []
    for chan in CHANS:
        al = {bytes.fromhex(h): s for h, s in ALIAS[chan].items()}
        good = sorted(al)
        closers = [p for p, s in al.items() if closing_spec(chan, s)]
        apps = [('two', [b'\x04', b'\x02\x03'] if chan != 'db' else [b'\x04', b'\x01'])]
        extra = [('closing-then-more', [b'\x01', b'\x04']), ('undecodable', [b'\x04', b'\xff', b'\x01'])]
        for sc in scenarios():
            for an, app in apps + (extra if sc.name in ('good', 'corner-empty-reply-accepted') else []):
                parts = [('raw', sc.bytes)] + [('frame', a) for a in app]
                c = Case(chan, sc.name + '/' + an, parts, [], good + [b'\xff'], closers, good,
                         hs={'valid': [v.hex() for v in sc.valid], 'echo': sc.echo})
                c.sc, c.app = sc, app
                n, h = len(c.stream), len(sc.bytes)
                chk = [[n], [1] * n] + [[i, n - i] for i in range(1, n)]
                hi = min(n, h + 7)
                pairs = [(i, j) for i in range(1, hi) for j in range(i + 1, hi + 1) if j < n]
                if ctx.quick:
                    pairs = [pq for pq in pairs if pq[0] >= h - 9 or rng.random() < 0.15]
                chk += [[i, j - i, n - j] for i, j in pairs]
                for _ in range(ctx.n(25, 300)):
                    cuts = sorted(set(rng.randrange(1, n) for _ in range(rng.choice([3, 4, 6, 9]))))
                    chk.append([j - i for i, j in zip([0] + cuts, cuts + [n])])
                c.chunkings = chk
                cases.append(c)
        # one long stream of real pickles behind a good handshake
        rp = real[chan]
        sc = Scenario('good-real', ident=b'IDENT-BLOB' * 3, reply=b'REPLY' * 9,
                      valid=(b'IDENT-BLOB' * 3, b'REPLY' * 9))
        order = [0, 1, 0, 2] if chan == 'db' else list(range(len(rp)))
        app = [rp[i][0] for i in order]
        c = Case(chan, 'good-real/real', [('raw', sc.bytes)] + [('frame', a) for a in app], [],
                 [q for q, _ in rp], [q for q, s in rp if closing_spec(chan, s)], [q for q, _ in rp],
                 hs={'valid': [v.hex() for v in sc.valid], 'echo': sc.echo})
        c.sc, c.app = sc, app
        n, h = len(c.stream), len(sc.bytes)
        chk = [[n], [1] * n] + [[i, n - i] for i in range(1, h + 12)]
        for _ in range(ctx.n(40, 600)):
            cuts = set(rng.randrange(1, n) for _ in range(rng.choice([1, 2, 5, 9, 20])))
            if rng.random() < 0.6:
                cuts.add(rng.randrange(max(1, h - 9), h + 9))
            cuts = sorted(cuts)
            chk.append([j - i for i, j in zip([0] + cuts, cuts + [n])])
        c.chunkings = chk
        cases.append(c)
    return cases


def canon_impl_hs(o, known, sent):
    evs = canon_events(o['events'], known, sent)
    if [2] in evs:
        return (evs, o['live'])
    for k, t in (('live', bool), ('restored', bool), ('wlen', int)):
        if type(o[k]) is not t:
            return ('bad-type', k, repr(o[k]))
    ln = o['len']
    if not (ln is None or type(ln) is int):
        return ('bad-len-type', repr(ln))
    return (evs, o['live'], o['restored'], PHASES.get(o['wphase'], o['wphase']), o['wlen'],
            list(bytes.fromhex(o['wbuf'])), list(bytes.fromhex(o['buf'])), -1 if ln is None else ln)


def canon_model_hs(m):
    evs, (live, restored, ph, wlen, wbuf, (ibuf, ilen)) = m
    evs = [list(e) for e in evs]
    if [2] in evs:
        return (evs, live)
    return (evs, live, restored, ph, wlen, list(wbuf), list(ibuf), ilen)


def model_hs(ctx, cases, chal):
    pre, exprs, shape = [], [], []
    nil = '(@nil (list Z))'
    pre.append('Definition sent : list Z := %s.' % zl(struct.pack('>I', len(chal)) + chal))
    for k, c in enumerate(cases):
        valid = [bytes.fromhex(h) for h in c.hs['valid']]
        echo = [bytes.fromhex(h) for h, m in c.hs['echo'].items() if m in ECHO_GOOD]
        pre.append('Definition s%d : list Z := %s.' % (k, zl(c.stream)))
        pre.append('Definition t%d : list (list Z) := %s.' % (k, zll(c.known)))
        pre.append('Definition c%d : chan := chan_of %s %s.'
                   % (k, zll(c.closers) if c.closers else nil, zll(c.good) if c.good else nil))
        pre.append('Definition o%d : oracle := oracle_of %s %s %s.'
                   % (k, zll(valid) if valid else nil, zll(echo) if echo else nil, zl(chal)))
        step = 60
        for i in range(0, len(c.chunkings), step):
            part = c.chunkings[i:i + step]
            ll = '[' + ';'.join(zl(l[:-1]) if len(l) > 1 else '(@nil Z)' for l in part) + ']'
            exprs.append('map (fun l => srun_lens o%d c%d t%d sent l s%d) %s' % (k, k, k, k, ll))
            shape.append((k, part))
    res = ctx.coq_eval(['DV.Model.Frame', 'DV.Model.Shake'], exprs, preamble='\n'.join(pre), chunk=36)
    out = [dict() for _ in cases]
    for (k, part), r in zip(shape, res):
        for lens, obs in zip(part, r):
            out[k][tuple(lens)] = canon_model_hs(obs)
    return out


def hs_oracle(ctx, c, runs, chal):
    """handshake property on the implementation's observations"""
    sc = c.sc
    fail = sc.fail_at()
    corner = fail is None and sc.l5 == 0
    sent = [[3]]
    app = []
    for p in c.app:
        if p not in c.good:
            app.append([2])
            break
        app.append([0, c.known.index(p)])
        if p in c.closers:
            app.append([1])
    if fail is None:
        exp = sent + app + ([[1]] if corner else [])
    else:
        exp = (sent if fail > 3 else []) + [[1]]
    conformant = not any(e in ([1], [2]) for e in exp[:-1])
    rep = {'source': 'oracle', 'alias': ALIAS}
    for lens, obs, raw in runs:
        ev = obs[0]
        delivered = [e for e in ev if e[0] == 0]
        if fail is not None and delivered:
            ctx.violation('handshake-gate', {'chan': c.chan, 'phase': fail},
                          '%s/%s: %d message(s) delivered although phase %d fails (chunks %s)'
                          % (c.chan, c.label, len(delivered), fail, lens),
                          dict(rep, theorem='C14_gate', case=dict(c.payload(), chunkings=[lens]),
                               expected=exp, observed=ev))
            return
        if fail is not None and (raw['live'] or [1] not in ev):
            ctx.violation('handshake-not-closed', {'chan': c.chan, 'phase': fail},
                          '%s/%s: phase %d fails but the connection is not closed (chunks %s)'
                          % (c.chan, c.label, fail, lens),
                          dict(rep, theorem='C14_fail_closed', case=dict(c.payload(), chunkings=[lens]),
                               expected=exp, observed=ev))
            return
        if [3] in [e[:1] for e in ev] and ev[0][:1] != [3]:
            ctx.violation('handshake-gate', {'chan': c.chan, 'phase': 0},
                          '%s/%s: something happened before the challenge was sent' % (c.chan, c.label),
                          dict(rep, theorem='C14_gate', case=dict(c.payload(), chunkings=[lens]),
                               expected=exp, observed=ev))
            return
        if corner:
            continue   # verify(b"") and echo(b"") both true: impossible with PGP; model tie only
        bad = None
        if cut_trace(ev) != cut_trace(exp):
            bad = 'prefix'
        elif conformant and ev != exp:
            bad = 'full'
        elif ev != exp:
            first = [e for e in exp if e in ([1], [2])][0]
            if first == [1] and [1] in ev and exp[:len(ev)] == ev:
                ctx.violation('db-coalesced-past-close', {'chan': c.chan},
                              '%s/%s: whole delivery %s, chunks %s stop at %s'
                              % (c.chan, c.label, exp, lens, ev),
                              dict(rep, theorem='C14_db_pipelined_refuted',
                                   case=dict(c.payload(), chunkings=[lens, [len(c.stream)]]),
                                   expected=exp, observed=ev))
            else:
                bad = 'after-stop'
        if bad:
            ctx.violation('handshake-outcome', {'chan': c.chan, 'level': bad, 'pass': fail is None},
                          '%s/%s chunks %s: trace %s, expected %s' % (c.chan, c.label, lens, ev, exp),
                          dict(rep, theorem='C14_after / C14_shake_chunking',
                               case=dict(c.payload(), chunkings=[lens]), expected=exp, observed=ev))
            return


def run_handshake(ctx, real):
    cases = hs_cases(ctx, real)
    impl = ctx.harness('drive_frame.py', {'alias': ALIAS, 'cases': [c.payload() for c in cases]})
    ctx.log('handshake: implementation ran %d chunkings of %d scenario streams' % (impl['runs'], len(cases)))
    chal = None
    for r in impl['cases']:
        for o in r['distinct']:
            for e in o['events']:
                if e[0] == 'S' and chal is None:
                    chal = bytes.fromhex(e[1])[4:]
    chal = chal or b''
    ctx.note('handshake_challenge_text', chal.decode('ascii', 'replace'))
    sent = struct.pack('>I', len(chal)) + chal   # abbreviated to [3] on both sides
    per_case = []
    hist = {}
    for c, r in zip(cases, impl['cases']):
        dist = [canon_impl_hs(o, c.known, sent) for o in r['distinct']]
        runs = [(lens, dist[k], r['distinct'][k]) for lens, k in r['runs']]
        per_case.append(runs)
        hs_oracle(ctx, c, runs, chal)
        hist[c.sc.name] = hist.get(c.sc.name, 0) + len(runs)
    ctx.note('handshake_runs_by_scenario', hist)
    model = model_hs(ctx, cases, chal)
    nev, keys, mism = 0, [], None
    for c, runs, mod in zip(cases, per_case, model):
        h = len(c.sc.bytes)
        failing = c.sc.fail_at() is not None
        for lens, obs, raw in runs:
            nev += 1
            m = mod.get(tuple(lens))
            if m != obs and mism is None:
                mism = (c, lens, obs, m)
            pos, shared = 0, False
            for n in lens:
                if pos < h < pos + n:
                    shared = True
                pos += n
            if failing or shared:
                keys.append(('hs', c.chan, c.label, lens))
    ctx.count(evaluations=nev, nontrivial_keys=keys)
    c, runs = cases[0], per_case[0]
    lens, obs, raw = runs[len(runs) // 2]
    ctx.sample({'chan': c.chan, 'scenario': c.label, 'chunks': lens, 'events': raw['events'][:6],
                'phase': raw['wphase'], 'restored': raw['restored']})
    if mism and ctx.nviol == 0:   # a failing input found by the oracle is the better report
        c, lens, obs, m = mism
        ctx.broken('correspondence Shake.v vs TwistedWrapper in front of %s' % c.chan,
                   'scenario %s (%s) chunks %s\nimplementation: %s\nmodel: %s'
                   % (c.label, c.stream.hex(), lens, obs, m),
                   {'source': 'correspondence', 'alias': ALIAS,
                    'case': dict(c.payload(), chunkings=[lens]),
                    'expected': repr(m), 'observed': repr(obs)})


# ---------------------------------------------------------------------------
# client side: message.send / message.receive / Connector.__do on a fake socket
# ---------------------------------------------------------------------------
CLIENT_ALIAS = {'01': {'kind': 'msg', 'type': 'register', 'rev': 'r'},
                '0203': {'kind': 'msg', 'type': 'status', 'rev': 'q'},
                '04': {'kind': 'obj', 'value': 7}}


def all_lens(n):
    for mask in range(2 ** (n - 1)):
        lens, last = [], 0
        for i in range(n - 1):
            if mask >> i & 1:
                lens.append(i + 1 - last)
                last = i + 1
        lens.append(n - last)
        yield lens


def cut(stream, lens):
    out, pos = [], 0
    for n in lens:
        out.append(stream[pos:pos + n])
        pos += n
    return out


def client_cases(ctx, real):
    rng = random.Random('%s:C14:client' % ctx.seed)
    al = sorted(bytes.fromhex(h) for h in CLIENT_ALIAS)
    cases = []

    def add(fn, ms, rest, k, lens, known, **kw):
        stream = b''.join(fr(m) for m in ms) + rest
        cases.append(dict(kw, fn=fn, k=k, ms=ms, rest=rest, stream=stream, lens=lens, known=known,
                          chunks=cut(stream, lens)))

    # every cut of short streams
    shorts = [([b'\x01', b'\x02\x03'], b'', 2), ([b'\x01'], b'\x00\x00\x09', 1),
              ([b'\x04', b'\x01'], b'', 1), ([b'\x01'], b'', 2), ([b''], b'\x05', 1)]
    if not ctx.quick:
        shorts += [([b'\x01', b'\x02\x03', b'\x04'], b'\x00', 3), ([b'\x02\x03'], b'\x00\x00\x00', 2)]
    for ms, rest, k in shorts:
        n = len(b''.join(fr(m) for m in ms) + rest)
        for lens in all_lens(n):
            add('receive', ms, rest, k, lens, al + [b''])
    # truncated streams: the peer went away in the middle of a message
    for t in range(1, 7):
        s = (fr(b'\x01') + fr(b'\x02\x03'))[:-t]
        for lens in ([len(s)], [1] * len(s), [3, len(s) - 3]):
            cases.append({'fn': 'receive', 'k': 2, 'ms': None, 'rest': b'', 'stream': s, 'lens': lens,
                          'known': al, 'chunks': cut(s, lens)})
    # real payloads, random cuts
    rp = [p for p, _ in real['farm']]
    stream_n = len(b''.join(fr(m) for m in rp)) + 3
    for _ in range(ctx.n(60, 1200)):
        cuts = sorted(set(rng.randrange(1, stream_n) for _ in range(rng.choice([1, 2, 4, 9, 30]))))
        lens = [j - i for i, j in zip([0] + cuts, cuts + [stream_n])]
        add('receive', rp, b'\x00\x00\x01', rng.choice([len(rp), len(rp), 1, 2]), lens, rp)
    add('receive', rp, b'\x00\x00\x01', len(rp), [1] * stream_n, rp)
    # Connector.__do: request out, one response in (then close)
    resp = [p for p, _ in real['db']]
    for i, r in enumerate(resp[: ctx.n(2, 4)]):
        n = len(fr(r)) + 2
        for _ in range(ctx.n(15, 200)):
            cuts = sorted(set(rng.randrange(1, n) for _ in range(rng.choice([0, 1, 2, 5]))))
            lens = [j - i2 for i2, j in zip([0] + cuts, cuts + [n])]
            add('do', [r], b'\x07\x07', 1, lens, resp, spec=REAL['db'][3])
    for lens in all_lens(len(fr(b'\x04')) + 1):
        add('do', [b'\x04'], b'\x09', 1, lens, al, spec=REAL['db'][2])
    # send
    for spec in REAL['farm']:
        cases.append({'fn': 'send', 'spec': spec})
        cases.append({'fn': 'send', 'spec': spec, 'via': 'hand'})
    return cases


def run_client(ctx, real):
    cases = client_cases(ctx, real)
    pl = []
    for c in cases:
        d = {'fn': c['fn']}
        if c['fn'] == 'send':
            d['spec'] = c['spec']
            if 'via' in c:
                d['via'] = c['via']
        else:
            d.update(k=c['k'], chunks=[x.hex() for x in c['chunks']])
            if 'spec' in c:
                d['spec'] = c['spec']
        pl.append(d)
    impl = ctx.harness('drive_client.py', {'alias': CLIENT_ALIAS, 'cases': pl})['cases']
    ctx.log('client: implementation ran %d socket cases' % len(cases))
    exprs, idx = [], []
    obs = []
    for c, o in zip(cases, impl):
        rep = {'source': 'oracle', 'theorem': 'C14_client_receive', 'client_case':
               dict(pl[len(obs)], alias=CLIENT_ALIAS), 'observed': o}
        if c['fn'] == 'send':
            sent = b''.join(bytes.fromhex(x) for x in o['sent'])
            p = bytes.fromhex(o['dumped'][0]) if o['dumped'] else b''
            if o['exc'] or len(o['sent']) != 1 or sent != fr(p):
                ctx.violation('client-send', {'fn': 'send'}, 'message.send does not write header+payload '
                              'in one piece: %s' % o, rep)
            exprs.append('send %s' % zl(p))
            idx.append(('send', list(sent)))
            obs.append(None)
            continue
        known = c['known']
        got = [bytes.fromhex(x) for x in o['got']]
        left = [list(bytes.fromhex(x)) for x in o['left']]
        if o['exc'] == 'Spin':
            canon = ([[-9]], [])
        elif o['exc'] and o['exc'] not in ('EOFError', 'UnpicklingError'):
            canon = ([[-8, o['exc']]], [])
        else:
            # loads() refusing a payload is pickle's business (an oracle outside
            # Client.v): the framing is compared up to and including that payload
            canon = ([[0, known.index(g)] if g in known else [0, -1] + list(g) for g in got], left)
        # ---- oracle on the implementation
        if c['ms'] is not None and c['k'] <= len(c['ms']) and all(m in known and m != b'' for m in c['ms'][:c['k']]):
            want = c['ms'][:c['k']]
            rest = b''.join(fr(m) for m in c['ms'][c['k']:]) + c['rest']
            if o['exc'] or got != want or b''.join(bytes(x) for x in left) != rest:
                ctx.violation('client-receive', {'fn': c['fn']},
                              '%s on chunks %s read %s and left %s; expected %s and %s'
                              % (c['fn'], c['lens'], [g.hex() for g in got], o['left'],
                                 [w.hex() for w in want], rest.hex()), rep)
            if c['fn'] == 'do' and (not o['closed'] or len(o['sent']) != 1
                                    or bytes.fromhex(o['sent'][0]) != fr(bytes.fromhex(o['dumped'][0]))):
                ctx.violation('client-do', {'fn': 'do'}, 'Connector.__do request/close wrong: %s' % o, rep)
        obs.append(canon)
        exprs.append('obs_recv %s (receive_n %d%%nat %s)'
                     % (zll(known), len(got) if o['exc'] in ('EOFError', 'UnpicklingError') else c['k'],
                        zll(c['chunks']) if c['chunks'] else '(@nil (list Z))'))
        idx.append(('recv', canon))
    # sends are few (list Z each); the receives are batched 60 per Eval
    is_send = [k == 'send' for k, _ in idx]
    _STASH['client'] = (cases, idx, exprs)
    rexprs = [e for e, s in zip(exprs, is_send) if not s]
    batched = ['[' + '; '.join(rexprs[i:i + 60]) + ']' for i in range(0, len(rexprs), 60)]
    rres = [x for b in ctx.coq_eval(['DV.Model.Frame', 'DV.Model.Client'], batched, chunk=5) for x in b]
    sres = ctx.coq_eval(['DV.Model.Frame', 'DV.Model.Client'], [e for e, s in zip(exprs, is_send) if s])
    assert len(rres) == len(rexprs)
    rres, sres = iter(rres), iter(sres)
    res = [next(sres) if s else next(rres) for s in is_send]
    mism = None
    keys = []
    for c, (kind, want), m in zip(cases, idx, res):
        if kind == 'send':
            ok = list(m) == want
        else:
            evs, left = m
            ok = ([list(e) for e in evs], [list(x) for x in left]) == want
        if not ok and mism is None:
            mism = (c, want, m)
        if kind == 'recv' and len(c['lens']) > 1:
            keys.append(('client', c['fn'], c['stream'].hex(), c['lens'], c['k']))
    ctx.count(evaluations=len(cases), nontrivial_keys=keys)
    ctx.note('client_cases', {k: sum(1 for c in cases if c['fn'] == k) for k in ('receive', 'do', 'send')})
    ctx.note('client_eof_observation',
             'message.receive / Connector.__do loop on s.recv() returning b"" (peer closed in '
             'mid-message): %d truncated cases spin for ever in the real code (driver raises after 3 '
             'empty reads); model: None' % sum(1 for o in impl if o['exc'] == 'Spin'))
    if mism and ctx.nviol == 0:
        c, want, m = mism
        ctx.broken('correspondence Client.v vs message.%s' % c['fn'],
                   'case %s\nimplementation: %s\nmodel: %s' % ({k: v for k, v in c.items() if k != 'known'}, want, m),
                   {'source': 'correspondence', 'expected': repr(m), 'observed': repr(want)})


# ---------------------------------------------------------------------------
# sender side of the log channel: TwistedHandler on SocketHandler, composed with
# a LogSink per connection (Model/LogSend.v, tools/harness/drive_logsend.py)
# ---------------------------------------------------------------------------
def ls_alias(i):
    """short, pairwise different payload of record i (small scope; lengths 2..5,
    zero bytes included so that payloads look like headers)"""
    i %= 65536
    return bytes([i // 256, i % 256] + [0, 0xAA, i % 7][: i % 4]).hex()


def ls_ids(c):
    return ([e[2] for e in c['events'] if e[0] == 'emit']
            + [i for a in c['env'] for i in a[0]] + [a[2] for a in c['env']])


def ls_case(events, env, sends=(), ticks=(), net=(), within=False, real=False):
    c = {'within': within, 'events': [list(e) for e in events], 'env': [list(a) for a in env],
         'sends': list(sends), 'ticks': list(ticks), 'net': [list(n) for n in net], 'alias': {}}
    if not real:
        c['alias'] = {str(i): ls_alias(i) for i in ls_ids(c) + [-1]}
    return c


def logsend_cases(ctx):
    rng = random.Random('%s:C14:logsend' % ctx.seed)
    E, C = 'emit', 'close'
    cases = [
        # a connection that stays up, bytes cut inside headers and payloads
        ls_case([(E, 0, 1), (E, 1, 2), (E, 1, 3)], [([], 0, 900)], net=[(0, [3, 7, 1, 1])]),
        ls_case([(E, 0, 1), (E, 1, 2), (E, 1, 3)], [([], 0, 900)], net=[(0, [1] * 30)], real=True),
        # records logged during the handshake
        ls_case([(E, 0, 1), (E, 1, 2)], [([100, 101], 0, 900)], net=[(0, [5, 5])]),
        ls_case([(E, 0, 1)], [([100, 101], 0, 900)]),
        # a send breaks after 3 bytes, the next record reconnects
        ls_case([(E, 0, 1), (E, 1, 2), (E, 1, 3)], [([], 0, 900), ([], 0, 901)], sends=[-1, 3],
                net=[(0, [2, 5]), (0, [])]),
        ls_case([(E, 0, 1), (E, 1, 2), (E, 1, 3)], [([], 0, 900), ([], 0, 901)], sends=[-1, 0], real=True),
        # part of what was accepted never arrives
        ls_case([(E, 0, 1), (E, 1, 2), (C, 2)], [([], 0, 900)], net=[(3, [4])]),
        ls_case([(E, 0, 1), (E, 1, 2), (C, 2), (E, 3, 3)], [([], 0, 900), ([100], 0, 901)], net=[(7, []), (0, [1])]),
        # refused: stuck
        ls_case([(E, 0, 1), (E, 5, 2), (E, 100, 3)], [([], 1, 900), ([], 0, 901)]),
        ls_case([(E, 0, 1), (E, 5, 2), (E, 100, 3)], [([100], 2, 900), ([], 0, 901)]),
        ls_case([(E, 0, 1), (E, 5, 2)], []),
        # back-off inside one flush
        ls_case([(E, 0, 1), (E, 1, 2)], [([100, 101, 102, 103, 104, 105], 0, 900), ([], 1, 901), ([], 1, 902),
                                         ([106], 1, 903), ([], 0, 904)],
                sends=[-1, 2], ticks=[0, 0, 0, 2, 1, 5, 1, 40]),
        ls_case([(E, 0, 1), (E, 1, 2)], [(list(range(100, 112)), 0, 900)] + [([], 1, 901 + k) for k in range(8)],
                sends=[-1, 2], ticks=[0, 0] + [70] * 9),
        # in the process of the log server
        ls_case([(E, 0, 1), (E, 1, 2), (C, 2)], [([], 0, 900)], within=True),
    ]
    for k in range(ctx.n(170, 2500)):
        fam = rng.choice(['mixed', 'mixed', 'mixed', 'backoff', 'up'])
        real = k < ctx.n(5, 40)
        nid, env, evs, t = 100, [], [], 0
        n_ev = rng.randint(2, 5 if real else 12)
        rid = 0
        for _ in range(n_ev):
            t += rng.choice([0, 1, 1, 2, 5, 40])
            if fam != 'up' and rng.random() < 0.07:
                evs.append((C, t))
            else:
                rid += 1
                evs.append((E, t, rid))
        for a in range(rng.randint(1, 6)):
            if fam == 'backoff' and a == 0:
                nn = rng.randint(3, 8)
            else:
                nn = rng.choice([0, 0, 0, 1, 2, 3])
            if real:
                nn = min(nn, 1)
            nested = list(range(nid, nid + nn))
            nid += nn
            if fam == 'up' or (a == 0 and rng.random() < 0.85):
                res = 0
            elif fam == 'backoff':
                res = rng.choice([1, 1, 1, 0, 2])
            else:
                res = rng.choice([0, 0, 0, 0, 1, 1, 2])
            env.append((nested, res, 900 + a))
        if fam == 'up':
            sends = []
        elif fam == 'backoff':
            sends = [-1, rng.randint(0, 9)] + [rng.choice([-1, -1, -1, 3]) for _ in range(rng.randint(0, 6))]
        else:
            sends = [-1 if rng.random() < 0.8 else rng.randint(0, 12) for _ in range(rng.randint(0, 12))]
        ticks = [rng.choice([0, 0, 0, 1, 1, 2, 3, 5, 40]) for _ in range(rng.choice([0, 0, 3, 8, 14]))]
        net = []
        for _ in env:
            lose = rng.choice([0, 0, 0, 1, 2, 3, 5, 9]) if fam != 'up' else 0
            cuts = [rng.randint(1, 9) for _ in range(rng.choice([0, 1, 3, 12, 30]))]
            if real:
                cuts = [rng.choice([1, 2, 3, 4, 5, 100, 560, 563, 564, 565, 568, 569])
                        for _ in range(rng.choice([0, 2, 6]))]
            net.append((lose, cuts))
        cases.append(ls_case(evs, env, sends, ticks, net, within=rng.random() < 0.04, real=real))
    return cases


def ls_parse(data):
    """independent parse of a byte string: complete frames' payloads and the rest"""
    out, pos = [], 0
    while len(data) - pos >= 4:
        n = struct.unpack('>I', data[pos:pos + 4])[0]
        if len(data) - pos - 4 < n:
            break
        out.append(data[pos + 4:pos + 4 + n])
        pos += 4 + n
    return out, data[pos:]


def ls_num(x):
    if x is None:
        return -1
    if type(x) is float and x == int(x):
        return int(x)
    return x


def logsend_oracle(ctx, c, o):
    """the sender-side claims on the implementation's own observations"""
    rep = {'source': 'oracle', 'logsend_case': c, 'observed': o}
    ids = ls_ids(c) + [-1]
    pay = {bytes.fromhex(h): int(k) for k, h in o['payloads'].items()}
    if len(pay) != len(o['payloads']):
        ctx.broken('log sender study: two records with the same payload', repr(c), rep)
        return
    if o['during_connect']:
        ctx.violation('log-write-during-handshake', {'chan': 'log'},
                      'a log frame was written to the socket while security.connect was in progress', rep)
        return
    seen = []
    for k, (w, sk) in enumerate(zip(o['wires'], o['sinks'])):
        data = bytes.fromhex(w['bytes'])
        frames, torn = ls_parse(data)
        fids = [pay.get(p) for p in frames]
        if fids != w['ids'] or (torn and not w['closed']):
            ctx.violation('log-sender-frame', {'chan': 'log'},
                          'connection %d: bytes written %s parse to records %s + %d stray bytes; records handed '
                          'to sendall %s; connection %s' % (k, w['bytes'][:80], fids, len(torn), w['ids'],
                                                            'closed' if w['closed'] else 'up'), rep)
            return
        lose, cuts = c['net'][k] if k < len(c['net']) else (0, [])
        arrived, _ = ls_parse(data[:max(0, len(data) - lose)])
        want = [pay.get(p) for p in arrived]
        if sk['got'] != want or sk['exc']:
            ctx.violation('log-sender-receiver', {'chan': 'log'},
                          'connection %d: LogSink handled %s (%s), the bytes that arrived hold exactly the '
                          'records %s (sent: %s, lost bytes %d, chunks %s)'
                          % (k, sk['got'], sk['exc'], want, w['ids'], lose, cuts), rep)
            return
        seen += w['ids']
    last = o['steps'][-1] if o['steps'] else {'q': [], 'local': []}
    places = seen + last['q'] + last['local']
    if len(set(places)) != len(places) or not set(places) <= set(ids):
        ctx.violation('log-sender-duplicate', {'chan': 'log'},
                      'records on the wire %s, queued %s, local %s; emitted %s' % (seen, last['q'], last['local'], ids), rep)
        return
    prev = {'sock': False, 'shaking': False, 'q': [], 'cur_ids': [], 'nclosed': 0}
    for e, s in zip(c['events'], o['steps']):
        if (e[0] == 'emit' and not c['within'] and prev['sock'] and not prev['shaking'] and s['sock']
                and s['nclosed'] == prev['nclosed']):
            if s['cur_ids'] != prev['cur_ids'] + prev['q'] + [e[2]] or s['q']:
                ctx.violation('log-sender-order', {'chan': 'log'},
                              'connected handler: emit %d put %s on the wire (before: %s, queued %s), queue now %s'
                              % (e[2], s['cur_ids'], prev['cur_ids'], prev['q'], s['q']), rep)
                return
        prev = s


def run_logsend(ctx):
    cases = logsend_cases(ctx)
    impl = ctx.harness('drive_logsend.py', {'cases': cases})['cases']
    ctx.log('log sender: implementation ran %d histories' % len(cases))
    stuck = recoverable = 0
    hist = {'broken-send': 0, 'refused': 0, 'other-exception': 0, 'nested': 0, 'close': 0, 'bytes-lost': 0,
            'real-pickles': 0, 'within': 0, 'second-attempt-after-back-off': 0}
    for c, o in zip(cases, impl):
        if o['handler_class'] != ['dawgie.pl.logger.TwistedHandler', 'logging.handlers.SocketHandler']:
            ctx.broken('log sender study: TwistedHandler is no longer a direct SocketHandler subclass',
                       repr(o['handler_class']), {'source': 'correspondence'})
            return
        if ctx.nviol == 0:
            logsend_oracle(ctx, c, o)
        used = c['env'][:len(c['env']) - o['left_env']]
        hist['broken-send'] += any(j >= 0 for j in c['sends'][:len(c['sends']) - o['left_sends']])
        hist['refused'] += any(a[1] == 1 for a in used)
        hist['other-exception'] += any(a[1] == 2 for a in used)
        hist['nested'] += any(a[0] for a in used)
        hist['close'] += any(e[0] == 'close' for e in c['events'])
        hist['bytes-lost'] += any(n[0] > 0 for n in c['net'][:len(o['wires'])])
        hist['real-pickles'] += not c['alias']
        hist['within'] += c['within']
        hist['second-attempt-after-back-off'] += sum(1 for a in used if a[1] == 1) >= 2
        if o['steps'] and o['steps'][-1]['shaking']:
            stuck += 1
            if any(a[1] == 0 for a in c['env'][len(c['env']) - o['left_env']:]):
                recoverable += 1
    ctx.note('logsend_histories_by_feature', hist)
    ctx.note('observation_log_sender_stuck_after_failed_connect',
             'NOT a claim of C14: TwistedHandler.makeSocket leaves __shaking set when security.connect raises; '
             'from then on every record is queued in memory, none is sent and no reconnect is attempted '
             '(C14_log_sender_stuck / C14_log_sender_recovers_refuted). %d of %d histories end stuck, %d of them '
             'with a successful connection still available' % (stuck, len(cases), recoverable))
    exprs = []
    for c, o in zip(cases, impl):
        tbl = dict(o['payloads'])
        evs = '[' + '; '.join('LEmit %d %d' % (e[1], e[2]) if e[0] == 'emit' else 'LClose %d' % e[1]
                              for e in c['events']) + ']'
        env = ('[' + '; '.join('mkLA %s %d (%d)' % (zl(a[0]) if a[0] else '(@nil Z)', a[1], a[2])
                               for a in c['env']) + ']') if c['env'] else '(@nil ls_attempt)'
        tb = ('[' + '; '.join('((%d), %s)' % (int(k), zl(bytes.fromhex(h)) if h else '(@nil Z)')
                              for k, h in sorted(tbl.items(), key=lambda kv: int(kv[0]))) + ']') \
            if tbl else '(@nil (Z * list Z))'
        net = ('[' + '; '.join('(%d, %s)' % (n[0], zl(n[1]) if n[1] else '(@nil Z)') for n in c['net']) + ']') \
            if c['net'] else '(@nil (Z * list Z))'
        exprs.append('ls_history %s %s %s %s %s %s %s'
                     % (tb, 'true' if c['within'] else 'false',
                        zl(c['ticks']) if c['ticks'] else '(@nil Z)', env,
                        '[' + '; '.join('(%d)' % j for j in c['sends']) + ']' if c['sends'] else '(@nil Z)',
                        evs, net))
    batched = ['[' + '; '.join(exprs[i:i + 25]) + ']' for i in range(0, len(exprs), 25)]
    res = [x for b in ctx.coq_eval(['DV.Model.LogSend'], batched, chunk=3) for x in b]
    mism = None
    keys = []
    for c, o, m in zip(cases, impl, res):
        pay = {bytes.fromhex(h): int(k) for k, h in o['payloads'].items()}
        io_steps = [(s['sock'], s['shaking'], s['q'], (ls_num(s['retry']), ls_num(s['period'])),
                     ((s['cur_ids'], s['cur_len']), s['nclosed'], s['local'], s['now'])) for s in o['steps']]
        mo_steps = [(a, b, list(q), tuple(rt), ((list(ci), cl), ncl, list(loc), now))
                    for a, b, q, rt, (ci, cl, ncl, loc, now) in m[0]]   # Coq prints ((a, b), c) as (a, b, c)
        wires, sinks, dropped, left = m[1]
        io_fin = ([(w['ids'], list(bytes.fromhex(w['bytes']))) for w in o['wires']],
                  [s['got'] for s in o['sinks']], (o['left_env'], o['left_sends']))
        mo_fin = ([(list(i), list(b)) for i, b in wires],
                  [[pay.get(bytes(p), ('?', list(p))) for p in s] for s in sinks], tuple(left))
        last = o['steps'][-1] if o['steps'] else {'q': [], 'local': []}
        consumed = ([e[2] for e in c['events'] if e[0] == 'emit']
                    + [i for a in c['env'][:len(c['env']) - o['left_env']] for i in a[0]]
                    + [a[2] for a in c['env'][:len(c['env']) - o['left_env']] if a[1] != 0])
        placed = [i for w in o['wires'] for i in w['ids']] + last['q'] + last['local']
        gone = sorted(i for i in consumed if i not in placed)
        if (io_steps != mo_steps or io_fin != mo_fin) and mism is None:
            mism = (c, (io_steps, io_fin), (mo_steps, mo_fin))
        elif mism is None and sorted(dropped) != gone and -1 not in placed + gone:
            mism = (c, ('records emitted and nowhere', gone), ('dropped', sorted(dropped)))
        if (c['sends'] or any(a[0] or a[1] for a in c['env']) or any(n[0] or n[1] for n in c['net'])
                or any(e[0] == 'close' for e in c['events'])):
            keys.append(('logsend', json.dumps(c, sort_keys=True)))
    ctx.count(evaluations=len(cases), nontrivial_keys=keys)
    ctx.sample({'logsend_case': {k: v for k, v in cases[4].items() if k != 'alias'},
                'steps': impl[4]['steps'][-1], 'wires': [w['ids'] for w in impl[4]['wires']],
                'sinks': [s['got'] for s in impl[4]['sinks']]})
    if mism and ctx.nviol == 0:
        c, io, mo = mism
        ctx.broken('correspondence LogSend.v vs TwistedHandler/SocketHandler (+ LogSink per connection)',
                   'case %s\nimplementation: %s\nmodel: %s' % ({k: v for k, v in c.items() if k != 'alias'}, io, mo),
                   {'source': 'correspondence', 'logsend_case': c, 'expected': repr(mo)[:4000],
                    'observed': repr(io)[:4000]})


# ---------------------------------------------------------------------------
# source tie: Gen/FrameGen.v (frame2coq.py) = Model/Frame.v + Model/Client.v,
# proved in Proofs/FrameGenEq.v (pattern of props/gen_tie.py)
# ---------------------------------------------------------------------------
_STASH = {}
GEN_OF = {'farm': 'hand', 'db': 'worker', 'log': 'logsink'}
GEN_PRE = '''
Definition gconn_feed (gf : fstate -> list Z -> fstate * list (list Z)) (ch : chan) (c : conn) (data : list Z)
  : conn * list out :=
  if clive c then
    let '(fs, ps) := gf (cfs c) data in
    let o := emit ch ps in (mkC fs (negb (existsb is_stop o)), o)
  else (c, []).
Fixpoint gconn_run gf (ch : chan) (c : conn) (chunks : list (list Z)) : conn * list out :=
  match chunks with
  | [] => (c, [])
  | d :: ds => let '(c1, o1) := gconn_feed gf ch c d in
               let '(c2, o2) := gconn_run gf ch c1 ds in (c2, o1 ++ o2)
  end.
Definition grun_all gf (i : fstate) ch tbl (s : list Z) :=
  map (fun cs => (map (fun c => Z.of_nat (List.length c)) cs, obs_conn tbl (gconn_run gf ch (mkC i true) cs)))
      (chunkings s).
Definition grun_lens gf (i : fstate) ch tbl (lens : list Z) (s : list Z) :=
  obs_conn tbl (gconn_run gf ch (mkC i true) (split_lens lens s)).
Fixpoint greceive_n (k : nat) (s : sock) : option (list (list Z) * sock) :=
  match k with
  | O => Some ([], s)
  | S k' => match FrameGen.message_receive s with
            | None => None
            | Some (p, s1) => match greceive_n k' s1 with
                              | None => None
                              | Some (ps, s2) => Some (p :: ps, s2)
                              end
            end
  end.
'''


def source_generate(ctx):
    ok, msg = ctx.generate('frame2coq.py', 'Gen/FrameGen.v')
    ctx.trust('translator tools/translate/frame2coq.py (python ast of message.send/receive, comms.Worker._send/'
              '__init__/dataReceived, LogSink.__init__/dataReceived, farm.Hand.__init__/dataReceived -> Gallina '
              'over the byte lists of Model/Frame.v, fail closed; struct.pack/unpack(">I"|">L") = enc32/be32, '
              'slices = firstn/skipn; what is done with a decoded message is NOT translated); validated on '
              'every run by running the generated receivers / receive / encoders on the small-scope streams '
              'against the real classes; the generated definitions are PROVED equal to frame / iter / feed / '
              'receive, coq/Proofs/FrameGenEq.v')
    fps = ctx.cov.setdefault('translated_fingerprints', {})
    for rel, names in (('Python/dawgie/pl/message.py', ['send', 'receive']),
                       ('Python/dawgie/db/shelve/comms.py', ['Worker._send', 'Worker.__init__', 'Worker.dataReceived']),
                       ('Python/dawgie/pl/logger/__init__.py', ['LogSink.__init__', 'LogSink.dataReceived']),
                       ('Python/dawgie/pl/farm.py', ['Hand.__init__', 'Hand.dataReceived'])):
        fps[rel] = core.fingerprint(rel, names)
    if not ok:
        ctx.log('frame2coq.py refuses the source: %s' % msg.strip()[-300:])
    return {'ok': ok, 'msg': msg}


def source_validate(ctx, g, r):
    '''after the framing and client studies (their oracles ARE the search for a
    failing input the tie needs when the translator refuses the source or the
    equality proofs break): the generated definitions against the real code'''
    # the encoders on the real send functions: the oracle (what is written, in
    # order, is the big-endian length of the payload, then the payload) is evaluated
    # whether or not the translator accepts the source
    sent = ctx.harness('drive_framegen.py', {'sizes': [0, 40, 300, 66000]})['cases']
    for o in sent:
        w = bytes.fromhex(o['written'][0]) if o['written'] else b''
        ok = o['exc'] is None and o['ndumped'] == 1 \
            and w[:4] == struct.pack('>I', o['payload_len']) and o['written_len'][0] == 4 + o['payload_len'] \
            and (o['payload'] is None or w[4:] == bytes.fromhex(o['payload']))
        if not ok:
            ctx.violation('sender-frame', {'fn': o['fn']},
                          '%s writes %s... (%s bytes in %d pieces, exc %s) for a payload of %d bytes: not the 4-byte '
                          'big-endian length followed by the payload' % (o['fn'], w[:8].hex(), o['written_len'],
                                                                        o['pieces'], o['exc'], o['payload_len']),
                          {'source': 'oracle', 'theorem': 'C14_send_is_source / C14_wellformed', 'observed': o})
    found = ctx.nviol > 0
    bad = None
    nval = 0
    if g['ok']:
        try:
            # (1) receivers: every cut of four small-scope streams per channel
            cases, per_case = _STASH.get('framing', ([], []))
            pre, exprs, shape = [GEN_PRE], [], []
            for k, c in enumerate(cases):
                gp = GEN_OF[c.chan]
                # (kept small: the equality is proved; this guards the translator itself)
                if c.label not in ('two-frames', 'zero-length-frame', 'partial-payload', 'closing-then-more'):
                    continue
                pre.append('Definition s%d : list Z := %s.' % (k, zl(c.stream)))
                pre.append('Definition t%d : list (list Z) := %s.' % (k, zll(c.known)))
                pre.append('Definition c%d : chan := chan_of %s %s.'
                           % (k, zll(c.closers) if c.closers else '(@nil (list Z))',
                              zll(c.good) if c.good else '(@nil (list Z))'))
                if c.chunkings == 'all':
                    exprs.append('grun_all FrameGen.%s_feed FrameGen.%s_init c%d t%d s%d' % (gp, gp, k, k, k))
                    shape.append((k, 'all', None))
                else:
                    part = c.chunkings[:30]
                    ll = '[' + ';'.join(zl(l[:-1]) if len(l) > 1 else '(@nil Z)' for l in part) + ']'
                    exprs.append('map (fun l => grun_lens FrameGen.%s_feed FrameGen.%s_init c%d t%d l s%d) %s'
                                 % (gp, gp, k, k, k, ll))
                    shape.append((k, 'some', part))
            res = ctx.coq_eval(['DV.Model.Frame', 'DV.Model.Client', 'DV.Gen.FrameGen'], exprs,
                               preamble='\n'.join(pre), chunk=12)
            for (k, kind, part), rr in zip(shape, res):
                mod = {}
                if kind == 'all':
                    for lens, obs in rr:
                        mod[tuple(lens)] = canon_model(obs)
                else:
                    for lens, obs in zip(part, rr):
                        mod[tuple(lens)] = canon_model(obs)
                for lens, obs, raw in per_case[k]:
                    if tuple(lens) not in mod:
                        continue
                    nval += 1
                    if mod[tuple(lens)] != obs and bad is None:
                        bad = {'what': '%s.dataReceived' % GEN_OF[cases[k].chan], 'stream': cases[k].stream.hex(),
                               'chunks': lens, 'python': obs, 'generated': mod[tuple(lens)]}
            # (2) message.receive: the short socket cases
            ccases, idx, cexprs = _STASH.get('client', ([], [], []))
            sel = [i for i, (c, (kind, _)) in enumerate(zip(ccases, idx))
                   if kind == 'recv' and c['fn'] == 'receive' and len(c['stream']) <= 24]
            sel = sel[::max(1, len(sel) // 240)]
            gex = [cexprs[i].replace('(receive_n ', '(greceive_n ') for i in sel]
            batched = ['[' + '; '.join(gex[i:i + 60]) + ']' for i in range(0, len(gex), 60)]
            sex = []
            for o in sent:
                f = 'FrameGen.message_send' if o['fn'] == 'message.send' else 'FrameGen.worker_send'
                if o['payload'] is not None:
                    sex.append('%s %s' % (f, zl(bytes.fromhex(o['payload']))))
                else:
                    sex.append('(fun b => (firstn 4 b, Z.of_nat (List.length b))) (%s (repeat 0 (Z.to_nat %d)))'
                               % (f, o['payload_len']))
            both = ctx.coq_eval(['DV.Model.Frame', 'DV.Model.Client', 'DV.Gen.FrameGen'], batched + sex,
                                preamble=GEN_PRE, chunk=7)
            rres = [x for b in both[:len(batched)] for x in b]
            sres = both[len(batched):]
            for i, m in zip(sel, rres):
                evs, left = m
                nval += 1
                if ([list(e) for e in evs], [list(x) for x in left]) != idx[i][1] and bad is None:
                    bad = {'what': 'message.receive', 'chunks': [x.hex() for x in ccases[i]['chunks']],
                           'python': idx[i][1], 'generated': m}
            # (3) the encoders, on the real send functions
            for o, m in zip(sent, sres):
                nval += 1
                if o['payload'] is not None:
                    ok = o['exc'] is None and list(bytes.fromhex(o['written'][0])) == list(m)
                else:
                    ok = o['exc'] is None and \
                        (list(bytes.fromhex(o['written'][0])), o['written_len'][0]) == (list(m[0]), m[1])
                if not ok and bad is None:
                    bad = {'what': o['fn'], 'payload_len': o['payload_len'], 'python': o, 'generated': m}
        except core.CoqEvalError as e:
            bad = {'what': 'Gen/FrameGen.v', 'generated': 'does not evaluate: %s' % (e.args[1][-600:],)}
        if bad and not found:
            ctx.broken('translator validation: the definition generated for %s disagrees with the python code'
                       % bad['what'], repr(bad),
                       {'source': 'translator-validation', 'expected': repr(bad.get('generated')),
                        'observed': repr(bad.get('python'))})
    elif not found:
        ctx.broken('translator frame2coq.py refuses the framing sources (shape changed) and the framing / client '
                   'studies found no input on which the new code breaks the property', g['msg'],
                   {'source': 'translator'})
    ctx.count(evaluations=nval, nontrivial_keys=[])
    ctx.note('source_tie_frame', {'translator_ok': g['ok'], 'proved_equal': bool(r['ok'] and g['ok']),
                                  'generated_vs_python_evaluations': nval,
                                  'generated_vs_python_mismatch': bad})


def replay(ctx):
    """re-execute the case of a replay file against the real code: prints the
    trace of every listed chunking and re-evaluates the chunking oracle on them"""
    rp = json.load(open(ctx.replay))
    case = rp.get('case')
    if not case:
        ctx.log('replay file has no case (%s)' % rp.get('broken', rp.get('kind')))
        ctx.count(evaluations=1, nontrivial_keys=['a', 'b'])
        return
    out = ctx.harness('drive_frame.py', {'alias': rp.get('alias', ALIAS), 'cases': [case]})['cases'][0]
    traces = []
    for lens, k in out['runs']:
        o = out['distinct'][k]
        ev = canon_events(o['events'], [])
        traces.append(ev)
        print('[C14] replay chunks %s -> events %s live=%s' % (lens, o['events'], o['live']), flush=True)
    ctx.count(evaluations=len(traces), nontrivial_keys=[('replay', i) for i in range(max(2, len(traces)))])
    if rp.get('kind') in ('chunking', 'handshake-outcome') and len(traces) > 1:
        if any(cut_trace(t) != cut_trace(traces[-1]) for t in traces):
            ctx.violation(rp['kind'], rp.get('fields', {}), 'replay: the chunkings still disagree', dict(rp))
    elif rp.get('kind') == 'db-coalesced-past-close' and len(traces) > 1:
        if any(t != traces[-1] for t in traces):
            ctx.violation(rp['kind'], rp.get('fields', {}),
                          'replay: coalesced delivery still goes past the close', dict(rp))
    elif 'observed' in rp and rp.get('source') == 'oracle':
        print('[C14] recorded observation: %s' % (rp['observed'],), flush=True)


def run(ctx):
    ctx.cov['rule'] = (
        'framing: per channel (farm Hand, shelve Worker, LogSink) every cut of short streams '
        '(well-formed, truncated, zero-length, undecodable, closing/non-closing requests, random '
        'over a small alphabet) and seeded random cuts (biased into headers) of long streams of real '
        'pickles; non-trivial = some chunk boundary falls inside a length prefix or a payload. '
        'handshake: scenario (first word, lengths, signature, echo) x cut positions incl. extra '
        'bytes in the packet of phase 5; non-trivial = a phase failed or bytes followed p5 in '
        'the same chunk. log sender: seeded histories of emit/close events with scripts for the '
        'connect outcomes (ok / OSError / other exception, records logged meanwhile), the sendall '
        'failures (bytes accepted before the error), the clock, and per connection the bytes lost and '
        'the chunking at the receiver; non-trivial = anything but an undisturbed connection')
    ctx.trust(
        'hand-written models coq/Model/Frame.v, coq/Model/Shake.v (tied by the correspondence below)',
        'driver tools/harness/drive_frame.py: fake transport (no data after loseConnection or an '
        'escaped exception), recording pickle.loads shim with alias payloads for the small scope, '
        'table-driven PGP oracle, frozen clock/random behind the challenge text',
        'oracles of the model: closing(p) = unpickled request.func not in [acquire, dbcopy] (db only); '
        'decodable(p) = loads(p) returns (LogSink: and is a dict); verify/echo_ok per blob',
        'hand-written model coq/Model/LogSend.v of TwistedHandler + python 3.12 logging.handlers.SocketHandler, '
        'tied by driver tools/harness/drive_logsend.py: scripted socket.socket under dawgie.security (connect '
        'outcomes, records logged during connect, sendall failures), no-op security._send/_recv, scripted '
        'time.time and recording pickle shims inside logging.handlers, recorder behind LogSinkFactory, '
        'a logging.Filter naming the record security.connect logs',
    )
    ctx.assume(
        'Twisted: dataReceived calls of one connection are sequential; none after '
        'transport.loseConnection(); an exception escaping dataReceived drops the connection',
        'struct.unpack(">I")/pack(">I") = be32/enc32; bytes slicing = firstn/skipn',
        'not covered: TLS path (no wrapper), what _process/do/handle do with a delivered message',
        'log sender: one time.time() reading per createSocket call; sendall accepts all bytes or raises '
        'OSError after a strict prefix of the frame; the bytes that arrive are a prefix of the accepted '
        'ones; makePickle does not raise; emits of one handler are serialised by its lock',
    )
    fps = fingerprints()
    ctx.note('fingerprints', fps)
    expect = expected_fingerprints()
    changed = sorted(k for k in set(fps) | set(expect) if fps.get(k) != expect.get(k))
    ctx.note('escalated_by_fingerprint', bool(changed))
    ctx.note('changed_fingerprints', changed)
    if changed and ctx.quick and not os.environ.get('VERIF_NO_ESCALATE'):
        # a modelled function was edited: not a verdict, but the correspondence
        # and the oracle now run at the thorough depth (DESIGN 5.2)
        ctx.log('fingerprint changed (%s): thorough depth' % ', '.join(changed))
        ctx.quick = False
    if ctx.replay:
        return replay(ctx)
    if os.environ.get('C14_ONLY') == 'logsend':     # development aid: the sender study alone
        return run_logsend(ctx)
    g = source_generate(ctx)
    r = ctx.coq_props()
    real = real_payloads(ctx)
    if os.environ.get('C14_ONLY') == 'source':      # development aid: the source tie alone
        run_framing(ctx, real)
        run_client(ctx, real)
        return source_validate(ctx, g, r)
    run_framing(ctx, real)
    if not ctx.quick:
        run_big(ctx)
    run_handshake(ctx, real)
    run_client(ctx, real)
    run_logsend(ctx)
    source_validate(ctx, g, r)
    if not r['ok']:
        ctx.broken('theorem/file %s' % r['failing'], r['log'],
                   {'source': 'proof', 'theorem': r['failing']})


if __name__ == '__main__':
    import sys
    if sys.argv[1:] == ['--write-fingerprints']:
        os.makedirs(os.path.dirname(FP_FILE), exist_ok=True)
        json.dump(fingerprints(), open(FP_FILE, 'w'), indent=1, sort_keys=True)
        print('wrote', FP_FILE)
