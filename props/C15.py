'''C15 -- Version order is total; a version change reschedules exactly its owner.

Order half: Gen/VersionGen.v is regenerated from dawgie.Version on every run
(fail-closed ast translator), the order laws are proved over the generated
definitions (Props/C15.v), the translator is validated by running generated
and real functions on every pair of a finite domain.

Build half: see props/C15_build (shared scheduler model) -- folded in below.
'''
import itertools

from props import sched_common

PID = 'C15'
GENERATORS = [('version2coq.py', 'Gen/VersionGen.v'), ('diff2coq.py', 'Gen/DiffGen.v'),
              ('buildnames2coq.py', 'Gen/BuildNamesGen.v')]
EXTRA_CONE = ['Model/StoreIO.v']
META = {
    'text': 'Theorems over Gallina definitions regenerated on every run from dawgie.Version by a fail-closed ast translator: <= is the lexicographic order, total/transitive/antisymmetric, the six operators and newer() mutually consistent, for all integer triples (unbounded Z). The build half (which algorithms a (re)load schedules) is proved over the scheduler model and tied to schedule.build/_diff by correspondence on generated engines. Persisted side: shelve.versions() is modelled (Catalogue.versions); util.dissect is proved to invert util.construct on names without a colon (unbounded: every name, parent id and integer version triple), hence every value row whose parent chain resolves is listed with exactly the names and versions it was registered with (C15_persisted_listed); tied to the real shelve back-end by the store correspondence and an oracle from the registered names; the order laws are also evaluated on every class that carries a version (Algorithm, Analyzer, Regression, Value, StateVector). End to end on names (Model/BuildNames.v over Gen/BuildNamesGen.v, regenerated on every run from schedule._diff, the set comprehension of schedule.build and the test of dag.Node.locate; the rest of build()/locate() pinned by its ast): for every list of registered identities (Store.register; names without colon and dot), every engine with dot-free, duplicate-free names, every graph and every iteration order, versions() does not raise and a node is pending/queued after build IFF it is the node of an algorithm one of whose versions (own, a state vector with values, a value) was never registered for exactly its (task, algorithm[, state vector[, value]]) name -- never-registered algorithms count as changed, names that extend or prefix a changed name (net.fit / net.fit2, cal.fit / cal.fitter) are not affected (C15_end_to_end, C15_changed_depends_on_own_name); after every algorithm recorded its identities nothing is rescheduled and a change confined to one algorithm reschedules exactly its node (C15_register_then_unchanged, C15_bump_reschedules_exactly_owner); the name-level build refines the id-level tables of Model/Build.v (C15_names_refine_tables/_build).',
    'note': 'Trusted: Coq kernel; version2coq.py translator (validated each run on every pair over a finite domain incl. literals of the source); CPython int comparison; for the build half the hand-written scheduler model + correspondence driver; for the end-to-end half the translator buildnames2coq.py (fail closed, pins the untranslated statements of build()/Node.locate by ast), the hand models of pl.version.current and of the collation loop of shelve.versions() (Model/BuildNames.v) and Catalogue.versions/Store.register, all compared with the real record()/shelve.update/versions()/current()/build() chain on generated engines with confusable names (tools/harness/drive_buildnames.py; graphviz stubbed after the first two builds). Hypotheses of C15_end_to_end not checked on the code: algorithm names unique per task name, state-vector names unique per algorithm, value names unique per state vector, no dots/colons in names (compliance rules). No axioms (Print Assumptions: closed).',
    'technique': 'Coq proof over source-generated definitions (Version operators, _diff at id and at name level, build() name cut, locate test) + translator validation sweep + model/implementation correspondence (scheduler build, shelve store histories, real registrations -> versions() -> current() -> build() end to end) + oracle from the registered identities',
}

OPS = ['__eq__', '__ne__', '__ge__', '__gt__', '__le__', '__lt__', 'newer']
COQ = {'__eq__': 'ver_eq', '__ne__': 'ver_ne', '__ge__': 'ver_ge',
       '__gt__': 'ver_gt', '__le__': 'ver_le', '__lt__': 'ver_lt',
       'newer': 'ver_newer'}


def law_search(vs, T):
    '''first tuple of versions violating an order law on the IMPLEMENTATION
    tables T[op][i*n+j]; returns (law, witness) or None.'''
    n = len(vs)

    def g(op, i, j):
        return T[op][i * n + j]

    for i in range(n):
        if not g('__le__', i, i):
            return 'le-reflexive', [vs[i]]
        if not g('__eq__', i, i):
            return 'eq-reflexive', [vs[i]]
    for i in range(n):
        for j in range(n):
            a, b = vs[i], vs[j]
            lex_le = a <= b  # python tuple order = lexicographic order
            checks = [
                ('le-is-lexicographic', g('__le__', i, j) == lex_le),
                ('lt-is-strict-lexicographic', g('__lt__', i, j) == (a < b)),
                ('ge-is-converse-of-le', g('__ge__', i, j) == g('__le__', j, i)),
                ('gt-is-converse-of-lt', g('__gt__', i, j) == g('__lt__', j, i)),
                ('ne-is-not-eq', g('__ne__', i, j) == (not g('__eq__', i, j))),
                ('eq-is-componentwise', g('__eq__', i, j) == (a == b)),
                ('newer-is-gt', g('newer', i, j) == (a > b)),
                ('total', g('__le__', i, j) or g('__le__', j, i)),
                ('antisymmetric', not (g('__le__', i, j) and g('__le__', j, i))
                 or g('__eq__', i, j)),
            ]
            for law, ok in checks:
                if not ok:
                    return law, [a, b]
    le = T['__le__']
    for i in range(n):
        for j in range(n):
            if le[i * n + j]:
                for k in range(n):
                    if le[j * n + k] and not le[i * n + k]:
                        return 'transitive', [vs[i], vs[j], vs[k]]
    return None


def run(ctx):
    ctx.cov['rule'] = (
        'order half: every ordered pair of versions over a finite component '
        'domain, all 7 operators, real dawgie.Version vs generated Gallina '
        '(non-trivial = the two versions differ in a non-leading component '
        'only); build half: generated engines x persisted version tables x '
        'bumps (non-trivial = at least one bumped and one unbumped algorithm); '
        'end to end: generated engines with confusable names x generated registration '
        'histories through the real record()/shelve.update (fates per algorithm: same, '
        'every version registered but never together, algorithm/state-vector/value '
        'version never registered, never registered at all) (non-trivial = confusable '
        'names present, at least one changed and one unchanged algorithm)'
    )
    ctx.trust(
        'translator tools/translate/version2coq.py (python ast -> Gallina, '
        'fail closed; validated on every run by the finite sweep below)',
        'CPython semantics of int comparison, all([...]), any([...])',
    )
    dom = [-1, 0, 1, 2] if ctx.quick else [-1, 0, 1, 2, 3, 10]
    vs = [list(t) for t in itertools.product(dom, repeat=3)]
    n = len(vs)

    # ---- implementation tables (also the failing-input search) -------------
    impl = ctx.harness('drive_version.py', {'domain': dom, 'boundaries': True})
    T = impl['tables']
    dom = impl['domain']
    vs = [list(t) for t in itertools.product(dom, repeat=3)]
    n = len(vs)
    hit = law_search([tuple(v) for v in vs], T)
    if hit:
        law, wit = hit
        ctx.violation('order-law', {'law': law},
                      'dawgie.Version violates %s on %s' % (law, wit),
                      {'source': 'oracle', 'law': law, 'versions': wit,
                       'theorem': 'C15_total_order / C15_operators_consistent'})

    # the same laws on every class that carries a version in an engine
    # (Algorithm, Analyzer, Regression, Value, StateVector = Version + dict)
    cvs = [tuple(v) for v in impl.get('carrier_versions', [])]
    for cname, tab in sorted(impl.get('carriers', {}).items()):
        if 'exc' in tab:
            ctx.violation('order-law', {'law': 'raises', 'carrier': cname},
                          'comparing two %s objects raises %s' % (cname, tab['exc']),
                          {'source': 'oracle', 'carrier': cname, 'theorem': 'C15_operators_consistent'})
            hit = hit or ('raises', [cname])
            continue
        h2 = law_search(cvs, tab)
        if h2:
            ctx.violation('order-law', {'law': h2[0], 'carrier': cname},
                          '%s objects violate %s on versions %s' % (cname, h2[0], h2[1]),
                          {'source': 'oracle', 'law': h2[0], 'versions': h2[1], 'carrier': cname,
                           'theorem': 'C15_total_order / C15_operators_consistent'})
            hit = hit or h2
    ctx.note('carriers', sorted(impl.get('carriers', {})))

    # ---- generate + prove ---------------------------------------------------
    okd, msgd = ctx.generate('diff2coq.py', 'Gen/DiffGen.v')
    okn, msgn = ctx.generate('buildnames2coq.py', 'Gen/BuildNamesGen.v')
    ok, msg = ctx.generate('version2coq.py', 'Gen/VersionGen.v')
    proofs_ok = False
    if not ok:
        ctx.coq_props()  # still measure the obligations (stale generated file)
        ctx.cov['discharged'] = 0
        if not hit:
            ctx.broken('translator version2coq.py refuses dawgie.Version', msg,
                       {'source': 'translator'})
    else:
        r = ctx.coq_props()
        proofs_ok = r['ok']
        if not r['ok'] and not hit:
            # deeper search on a larger domain before giving up
            big = [-2, -1, 0, 1, 2, 3, 9, 10, 11]
            impl2 = ctx.harness('drive_version.py', {'domain': big})
            vs2 = [t for t in itertools.product(big, repeat=3)]
            hit2 = law_search(vs2, impl2['tables'])
            if hit2:
                ctx.violation('order-law', {'law': hit2[0]},
                              'dawgie.Version violates %s on %s' % hit2,
                              {'source': 'proof', 'law': hit2[0],
                               'versions': hit2[1], 'theorem': r['failing']})
            else:
                ctx.broken('theorem/file %s' % r['failing'], r['log'],
                           {'source': 'proof', 'theorem': r['failing']})

    # ---- translator validation: generated Gallina vs python, every pair ----
    if ok and proofs_ok:
        lst = '[' + ';'.join('(%d,%d,%d)' % tuple(v) for v in vs) + ']'
        pre = 'Definition dom : list ver := %s.\n' % lst
        exprs = [
            'flat_map (fun a => map (fun b => %s a b) dom) dom' % COQ[o]
            for o in OPS
        ]
        res = ctx.coq_eval(['DV.Gen.VersionGen'], exprs, preamble=pre)
        bad = None
        for o, model in zip(OPS, res):
            if model != T[o]:
                k = [x != y for x, y in zip(model, T[o])].index(True)
                bad = (o, vs[k // n], vs[k % n], T[o][k], model[k])
                break
        nt = [(i, j) for i in range(n) for j in range(n)
              if vs[i][0] == vs[j][0] and vs[i] != vs[j]]
        ctx.count(evaluations=n * n * len(OPS),
                  nontrivial_keys=[('pair', vs[i], vs[j]) for i, j in nt])
        ctx.sample({'pair': [vs[5], vs[9]],
                    'impl': {o: T[o][5 * n + 9] for o in OPS}})
        ctx.note('version_pairs', n * n)
        if bad:
            ctx.broken(
                'translator validation: generated %s disagrees with python' % COQ[bad[0]],
                'op=%s a=%s b=%s python=%s gallina=%s' % bad,
                {'source': 'correspondence', 'op': bad[0], 'a': bad[1], 'b': bad[2]})

    # ---- build half ----------------------------------------------------------
    sched_common.c15_build(ctx, okd, msgd, proofs_ok)

    # ---- persisted side: what db.versions() hands to build ----------------------
    from props import store_common
    ctx.trust('persisted side: hand model Catalogue.versions of shelve.versions(), tied by the store '
              'correspondence (real shelve back-end in a temp dir) and an oracle from the registered names')
    store_common.versions_study(ctx)

    # ---- end to end on names: registrations -> versions() -> current() -> build() ----
    from props import buildnames_common
    buildnames_common.names_study(ctx, okn, msgn, proofs_ok)
