'''C16 -- the compliance gate accepts exactly the engines that follow the rules.

Model: coq/Model/Gate.v (descriptor level: walk mirrors _walk's variable flow,
one function per rule with a three-valued outcome True/False/raised, gate =
_verify).  Theorems: coq/Props/C16.v.  Tie: tools/harness/drive_gate.py writes
REAL package directories for every descriptor (deprecated factory/bot style
and dawgie.base registry style) and runs the real rules; per-rule outcomes,
package verdicts and the engine verdict are compared with the model, and the
property oracle (compliant => accepted, single fault => rejected, accepted
acyclic => Construct/build run) is evaluated on the implementation alone.
'''
import copy
import json
import random

from vlib import core
from props import c16_desc as D

PID = 'C16'
META = {
    'text': 'Descriptor-level Gallina model of dawgie.tools.compliant (_verify, _walk with its variable flow, rule_01..rule_11 with three-valued outcomes): proved for every engine descriptor that the gate accepts exactly the engines that follow the eleven rules (under name uniqueness and prefix-freeness, stated), that every single-rule fault at every position of a compliant engine is rejected, that rule 11 makes every lookup of the task-graph construction total; the pinned (pre-fix) walk is kept in the model and shown to reject regress-only packages. Tied to the code by generated on-disk AE packages in both factory styles: exhaustive factory-kind subsets x fault kinds x positions, per-rule outcome compared with the model; accepted acyclic engines are run through pl.dag.Construct and pl.schedule.build.',
    'note': 'Trusted: Coq kernel; hand-written descriptor model Gate.v; the two renderers of a descriptor (Python package generator in drive_gate.py, self-checked by an independent observer of the generated objects; Gallina printer in c16_desc.py); CPython import/inspect/pickle semantics. The model speaks about what the descriptor language can express (listed in the evidence), not about arbitrary Python. No axioms.',
    'technique': 'Coq proof over a hand-written model + exhaustive small-scope model/implementation correspondence on generated packages + implementation-side oracle',
}

# fingerprints of the functions Gate.v models (tree with the nine fix: commits)
FP_EXPECTED = {'_verify': 'b798f9fc45776205', '_walk': 'db7434ca38d4b299', '_get_rules': '07af45ba35b33a21', 'rule_01': 'c94f6c4ab2458440', 'rule_02': '684959be5d6a3594', 'rule_03': '02324aeb568980f0', 'rule_04': '7ab3117f6488064d', 'rule_05': '429e3c334ac93200', 'rule_06': '47e497b298542e55', 'rule_07': 'a6d5c33f2bd466eb', 'rule_08': '2973302685ed7b45', 'rule_09': 'a2c0c8a762f249c9', 'rule_10': '78f5a4901f01e365', 'rule_11': '94dfba2aeca76262'}
FP_FUNCS = ['_verify', '_walk', '_get_rules'] + ['rule_%02d' % i for i in range(1, 12)]


def _res(x):
    '''model outcome -> the driver's encoding'''
    if x is None:
        return 'EXC'
    return x[1]


def _impl(x):
    return 'EXC' if isinstance(x, str) and x.startswith('EXC') else x


def build_cases(ctx):
    rng = random.Random('%s:c16' % ctx.seed)
    cases = []
    subsets = D.kind_subsets()
    # (a) compliant engines: every subset of factory kinds, both styles
    for ks in subsets:
        eng = D.small_engine(ks)
        for style in ('bot', 'registry'):
            cases.append({'id': 'ok/%s/%s' % ('+'.join(ks) or 'none', style), 'eng': eng,
                          'style': style, 'class': 'compliant' if ks else 'empty',
                          'kinds': ks, 'sched': bool(ks) and (not ctx.quick or style == 'bot')})
    # (b) single faults: subset x fault kind x position
    full = []
    for ks in subsets[1:]:
        eng = D.small_engine(ks)
        for fault in sorted(D.FAULTS):
            for pos in D.applicable(eng, 2, fault):
                full.append((ks, fault, pos))
    if ctx.quick:
        # every (fault, position type/kind) pair at least once per subset size,
        # all positions for the full mix, a seeded sample of the rest
        keep = [c for c in full if len(c[0]) == 4]
        rest = [c for c in full if len(c[0]) < 4]
        rng.shuffle(rest)
        seen = set()
        for c in rest:
            key = (tuple(c[0]), c[1])
            if key not in seen:
                seen.add(key)
                keep.append(c)
        full = keep
    for ks, fault, pos in full:
        eng = D.mutate(D.small_engine(ks), 2, fault, pos)
        styles = ['bot']
        if D.registry_ok(eng) and (not ctx.quick or rng.random() < 0.3):
            styles.append('registry')
        for style in styles:
            cases.append({'id': 'fault/%s/%s/%s/%s' % ('+'.join(ks), fault,
                                                      '.'.join(map(str, pos)), style),
                          'eng': eng, 'style': style, 'class': 'fault', 'kinds': ks,
                          'fault': fault, 'pos': list(pos), 'pkgs': [2]})
    # (c) random multi-fault engines (correspondence beyond single faults)
    for n in range(ctx.n(100, 1500)):
        r = random.Random('%s:multi:%d' % (ctx.seed, n))
        ks = r.choice(subsets[1:])
        eng = D.small_engine(ks, nalg=r.choice([1, 2, 3]))
        nf = r.choice([0, 2, 2, 3, 4])
        names = []
        for _ in range(nf):
            fault = r.choice(sorted(D.FAULTS))
            poss = D.applicable(eng, 2, fault)
            if not poss:
                continue
            pos = r.choice(poss)
            try:
                eng = D.mutate(eng, 2, fault, pos)
                names.append(fault)
            except (KeyError, IndexError, TypeError):
                continue
        style = 'registry' if D.registry_ok(eng) and r.random() < 0.4 else 'bot'
        cases.append({'id': 'multi/%d/%s' % (n, style), 'eng': eng, 'style': style,
                      'class': 'multi', 'kinds': ks, 'faults': names, 'pkgs': [2]})
    # (d) quirks of the code the model mirrors: duplicate names in the target,
    # prefix package names for rule 6
    cases += quirk_cases()
    # (e) larger compliant acyclic engines for the schedulability clause
    for n in range(ctx.n(6, 60)):
        eng = random_engine(random.Random('%s:sched:%d' % (ctx.seed, n)))
        cases.append({'id': 'sched/%d' % n, 'eng': eng, 'class': 'compliant',
                      'style': 'registry' if n % 2 else 'bot', 'kinds': ['mixed'],
                      'sched': True})
    return cases


def quirk_cases():
    out = []
    # two algorithms of the same name in the referenced bot
    e = D.small_engine(['task'])
    e['pkgs'][0]['task']['algs'][1]['name'] = 'ua'
    for a in e['pkgs'][2]['task']['algs']:
        for r in a['deps'] + a['fb']:
            if r['fac'][0] == 0:
                r['real'] = None
                r['impl_name'] = 'ua'
    out.append({'id': 'quirk/dup-alg-name', 'eng': e, 'style': 'bot', 'class': 'quirk',
                'kinds': ['task']})
    # two state vectors of the same name in the referenced algorithm
    e = D.small_engine(['task'])
    e['pkgs'][0]['task']['algs'][1]['svs'][1]['name'] = 'sv'
    for a in e['pkgs'][2]['task']['algs']:
        for r in a['deps'] + a['fb']:
            if r['fac'][0] == 0:
                r['real'] = None
                r['item'][0] = 'sv'
                r['impl_svs'] = [['sv', x[1]] for x in r['impl_svs']]
    out.append({'id': 'quirk/dup-sv-name', 'eng': e, 'style': 'bot', 'class': 'quirk',
                'kinds': ['task']})
    # rule 6 is a string-prefix test: impl of package "upx" with factory of "up"
    e = D.small_engine(['task'])
    e['pkgs'][1]['name'] = 'upx'
    e['pkgs'][1]['task']['algs'][0]['name'] = 'ua'
    e['pkgs'][1]['task']['algs'][0]['svs'] = copy.deepcopy(e['pkgs'][0]['task']['algs'][0]['svs'])
    r = e['pkgs'][2]['task']['algs'][0]['deps'][0]
    r.update(home=1, real=None)
    out.append({'id': 'quirk/rule6-prefix', 'eng': e, 'style': 'bot', 'class': 'quirk',
                'kinds': ['task']})
    # an SV_REF with an empty item resolves vacuously
    e = D.small_engine(['analysis'])
    r = e['pkgs'][2]['analysis']['algs'][0]['deps'][0]
    r.update(item=['nowhere', []], real=None)
    out.append({'id': 'quirk/empty-item', 'eng': e, 'style': 'bot', 'class': 'quirk',
                'kinds': ['analysis']})
    return out


def random_engine(r):
    '''compliant acyclic multi-package engine: algorithm i refers only to
    algorithms created before it (plus one feedback reference forward)'''
    npk = r.randint(2, 4)
    eng = {'pkgs': [D.pkg('q%d' % i) for i in range(npk)]}
    made = []
    for i in range(r.randint(3, 8)):
        pi = r.randrange(npk)
        k = r.choice(['task', 'task', 'analysis', 'regress'])
        p = eng['pkgs'][pi]
        if p[k] is None:
            p[k] = D.fac(k, [])
        svs = [D.sv('s%d' % j, tuple('v%d' % x for x in range(r.randint(1, 2))))
               for j in range(r.randint(1, 2))]
        a = D.alg('%s%d' % (k[0], i), svs)
        p[k]['algs'].append(a)
        ai = len(p[k]['algs']) - 1
        for (qi, qk, qa) in r.sample(made, min(len(made), r.randint(0, 3))):
            lvl = r.choice(['sv', 'v'] + (['alg'] if k == 'task' else []))
            tgt = eng['pkgs'][qi][qk]['algs'][qa]
            si = r.randrange(len(tgt['svs']))
            a['deps'].append(D.ref_to(eng, lvl, qi, qk, qa, si))
        made.append((pi, k, ai))
    if len(made) > 2 and r.random() < 0.6:
        (pi, k, ai), (qi, qk, qa) = made[0], made[-1]
        eng['pkgs'][pi][k]['algs'][ai]['fb'].append(D.ref_to(eng, 'v', qi, qk, qa, 0))
    for p in eng['pkgs']:
        if all(p[k] is None for k in D.AKINDS):
            p['task'] = D.fac('task', [D.alg('solo', [D.sv('s', ('v',))])])
    owner = next((pi, k) for pi, p in enumerate(eng['pkgs']) for k in D.AKINDS if p[k])
    eng['pkgs'][owner[0]]['events'] = {'params': [], 'events': [
        D.event(D.moment(boot=True), [owner[1], 0]),
        D.event(D.moment(dow='good', time='good'), [owner[1], 0])]}
    return eng


def run(ctx):
    ctx.cov['rule'] = (
        'engine descriptors rendered as real package directories: every subset of '
        'the four factory kinds (16, compliant, both factory styles) x every fault '
        'kind of c16_desc.FAULTS x every applicable position of a 2-algorithm-per-'
        'factory package (thorough: all 3512; quick: all for the 4-kind mix, one seeded '
        'position per (mix, fault kind) otherwise) + seeded multi-fault engines + '
        'quirk engines (duplicate names, prefix package names) + random acyclic '
        'multi-package engines for Construct/build.  A case is non-trivial when the '
        'package offers a factory-kind subset other than {task} or carries a fault.')
    ctx.trust(
        'hand-written descriptor model coq/Model/Gate.v of compliant._walk/rule_01..11 '
        '(tied by the correspondence below; fingerprints of the modelled functions in '
        'the evidence)',
        'descriptor renderers: tools/harness/drive_gate.py (descriptor -> package '
        'source; self-checked on every case by an independent observer of the '
        'generated python objects) and props/c16_desc.py (descriptor -> Gallina term)',
        'CPython import system, inspect.signature, pickle, isinstance',
    )
    ctx.assume(
        'the rules only see what the descriptor language expresses: factory '
        'signatures (count/defaults/annotations), base types, overridden-or-not '
        'abstract methods, version protocol ok/wrong/raising, names, keys, '
        'picklability, reference tuples and their four slots, moments',
        'a factory returns the same description on every call (the rules call each '
        'factory once per rule)',
        'set iteration order of dawgie.base.Factories.routines() is irrelevant: the '
        'outcome of a rule is "raised" if anything raises, else all(findings) '
        '(checked by running the registry style against the same model)',
    )
    fp = core.fingerprint('Python/dawgie/tools/compliant.py', FP_FUNCS)
    ctx.note('fingerprints', fp)

    # ---- proofs -------------------------------------------------------------
    r = ctx.coq_props()
    proofs_ok = r['ok']

    # ---- implementation -----------------------------------------------------
    escalate = fp != FP_EXPECTED
    ctx.note('fingerprint_escalation', escalate)
    if ctx.replay:
        rp = json.load(open(ctx.replay))
        cases = [rp['case']] if 'case' in rp else []
        ctx.log('replaying %s' % (cases[0]['id'] if cases else 'nothing'))
    else:
        if escalate and ctx.quick:
            ctx.log('compliant.py differs from the modelled text: thorough depth')
            ctx.quick = False
            cases = build_cases(ctx)
            ctx.quick = True
        else:
            cases = build_cases(ctx)
    payload = {'cases': [{k: c[k] for k in ('id', 'eng', 'style', 'pkgs', 'sched') if k in c}
                         for c in cases]}
    impl = ctx.harness('drive_gate.py', payload)
    if not impl['file'].startswith(core.REPO + '/'):
        ctx.broken('driver imported the wrong compliant.py', impl['file'])
    res = impl['results']
    ctx.log('implementation ran %d engines' % len(res))

    # ---- oracle on the implementation alone -----------------------------------
    hits = 0
    hist = {}
    known = {}
    for c, o in zip(cases, res):
        hist[c['class']] = hist.get(c['class'], 0) + 1
        if 'crash' in o:
            ctx.broken('driver could not render/run %s' % c['id'], o['crash'], {'case': c})
            continue
        unrenderable = any('SyntaxError' in str(x) for obs in o.get('observe', {}).values() for x in obs)
        if unrenderable:
            # a combination of faults that is not a Python program at all (e.g. a
            # required parameter after one with a default): nothing to gate
            o['crash'] = 'unrenderable'
            hist['unrenderable'] = hist.get('unrenderable', 0) + 1
            continue
        for pi, obs in o.get('observe', {}).items():
            if obs:
                ctx.broken('renderer self-check: generated package differs from its descriptor',
                           '%s pkg %s: %s' % (c['id'], pi, obs[:3]), {'case': c})
        if c['class'] == 'compliant':
            if not o['verify_all']:
                bad = [pi for pi, v in o['verify'].items() if not v]
                rules = {pi: [impl['rules'][i] for i, x in enumerate(o['rules'][pi])
                              if x is not True] for pi in bad}
                hits += ctx.violation('compliant-rejected',
                                      {'rules': sorted({x for v in rules.values() for x in v})},
                              'compliant package (factory kinds %s, %s style) REJECTED by %s'
                              % (c['kinds'], c['style'], rules),
                              {'source': 'oracle', 'theorem': 'C16_sound_complete', 'case': c,
                               'observed': o})
            s = o.get('sched')
            if s is not None and o['verify_all'] and (
                    s.get('construct') != 'ok' or s.get('build') != 'ok'):
                hits += ctx.violation('accepted-not-schedulable',
                                      {'stage': 'construct' if s.get('construct') != 'ok' else 'build'},
                              'accepted acyclic engine %s fails Construct/build: %s'
                              % (c['id'], s),
                              {'source': 'oracle', 'theorem': 'C16_schedulable', 'case': c,
                               'observed': o})
        elif c['class'] == 'empty':
            if o['verify']['2']:
                hits += ctx.violation('no-factory-accepted', {}, 'package without factory accepted',
                              {'source': 'oracle', 'case': c, 'observed': o})
        elif c['class'] == 'fault':
            if o['verify']['2']:
                f = c['fault']
                if f in D.UNOBSERVABLE:
                    known[f] = known.get(f, 0) + 1
                    hits += ctx.violation('abstract-method-unchecked',
                                  {'method': D.UNOBSERVABLE[f], 'symptom': 'accepted'},
                                  'a package whose %s() is left abstract is accepted (case %s)'
                                  % (D.UNOBSERVABLE[f], c['id']),
                                  {'source': 'oracle', 'theorem': 'C16_single_fault', 'case': c,
                                   'observed': o})
                else:
                    hits += ctx.violation('fault-accepted',
                                  {'fault': f, 'rule': D.FAULTS[f][1]},
                                  'single fault %s (rule %d) at %s in a %s package ACCEPTED'
                                  % (f, D.FAULTS[f][1], c['pos'], c['kinds']),
                                  {'source': 'oracle', 'theorem': 'C16_single_fault', 'case': c,
                                   'observed': o})
    ctx.note('case_classes', hist)
    ctx.expect_known('abstract-method-unchecked', bool(known))
    ctx.note('known_finding_cases', known)
    ctx.note('fault_kinds', len(D.FAULTS))

    # ---- model ------------------------------------------------------------------
    exprs = ['(let E := %s in (map (outcomes E) E, gate E))' % D.g_engine(c['eng'])
             for c in cases]
    vals = ctx.coq_eval(['DV.Model.Gate'], exprs, chunk=60, z_scope=False)
    ctx.log('model evaluated %d engines' % len(vals))
    mism = []
    nrules = len(impl['rules'])
    for i, (c, o) in enumerate(zip(cases, res)):
        if 'crash' in o:
            continue
        mo, mg = vals[i]
        for pi, per in o['rules'].items():
            want = [_res(x) for x in mo[int(pi)]]
            got = [_impl(x) for x in per]
            if want != got or len(got) != nrules:
                mism.append((c, pi, want, got))
                continue
            mv = all(x is True for x in want)
            if mv is not o['verify'][pi]:
                mism.append((c, pi, ['verify', mv], ['verify', o['verify'][pi]]))
        if 'pkgs' not in c and mg is not o['verify_all']:
            mism.append((c, 'all', ['gate', mg], ['gate', o['verify_all']]))
    ev = sum(len(o.get('rules', {})) for o in res)
    ctx.count(evaluations=ev,
              nontrivial_keys=[c['id'].rsplit('/', 1)[0] for c in cases
                               if c['kinds'] != ['task'] or c['class'] in ('fault', 'multi')])
    for c, o in list(zip(cases, res))[:2] + [x for x in zip(cases, res)
                                            if x[0]['class'] == 'fault'][:3]:
        ctx.sample({'id': c['id'], 'rules': o.get('rules'), 'verify': o.get('verify')})
    ctx.note('engines', len(cases))
    ctx.note('rule_outcome_histogram', outcome_hist(res))
    ctx.note('not_covered', [
        'non-list returns of previous()/state_vectors(), non-str names and keys',
        'factories that are not routines, keyword-only/variadic factory parameters',
        'from __future__ import annotations (string annotations)',
        'packages with ignore flags, nested sub-packages, import errors',
        'python -m dawgie.tools.compliant command line / submit path (verify spawns it)',
    ])
    if mism:
        c, pi, want, got = mism[0]
        if not hits:
            ctx.broken('correspondence: model and compliant.py disagree on %d engines' % len(mism),
                       'first: %s package %s\nmodel %s\nimpl  %s' % (c['id'], pi, want, got),
                       {'source': 'correspondence', 'case': c, 'expected': want,
                        'observed': got})
        else:
            ctx.note('correspondence_mismatches', len(mism))
    if not proofs_ok and not hits and not mism:
        ctx.broken('theorem/file %s' % r['failing'], r['log'],
                   {'source': 'proof', 'theorem': r['failing']})
    elif not proofs_ok:
        ctx.note('proofs_failing', r['failing'])


def outcome_hist(res):
    h = {}
    for o in res:
        for per in o.get('rules', {}).values():
            for i, x in enumerate(per):
                k = 'rule_%02d:%s' % (i + 1, 'EXC' if isinstance(x, str) else x)
                h[k] = h.get(k, 0) + 1
    return h
