'''C17 -- Search returns exactly the matching entries, in order, page by page.

Proof side: Props/C17.v over Model/Search.v (hand model of
SearchFacade._divide/_scrub and SearchImplementation._prime_keys/_find/_facet)
and Gen/RangeGen.v (Range.__contains__/__ge__ and the covered-index test of
_scrub, regenerated from db/basis.py on every run).

Implementation side: tools/harness/drive_search.py runs the real
dawgie.db.shelve search on generated catalogues/queries and the real
_divide/_scrub on generated expressions; the observations are compared with
the model (correspondence) and with a brute-force specification written here
(oracle = the property itself, independent of the model).'''
import itertools
import json
import random

from vlib import core

PID = 'C17'
GENERATORS = [('range2coq.py', 'Gen/RangeGen.v')]
META = {
    'text': 'Theorems (unbounded: every database content, every constraint combination, every run-ID expression, every page) over an executable Gallina model of SearchFacade._scrub and SearchImplementation._prime_keys/_find/_facet whose Range tests are regenerated from db/basis.py on every run: normalising a run-ID expression never changes the set it denotes; find returns exactly the sorted duplicate-free 5-prefixes of the prime keys satisfying every constraint, ascending in run ID; total is the full match count on every page; a page is firstn limit (skipn index full) and consecutive pages concatenate to the full list. Tied to the real shelve search by correspondence on random catalogues, expressions (string, list and scalar forms) and pages, plus a brute-force specification oracle on the implementation.',
    'note': 'Trusted: Coq kernel; range2coq.py translator (validated each run by a finite sweep); the hand model Model/Search.v + correspondence driver (temp shelve database, no sockets); name<->code table and rendering of keys in props/C17.py; CPython set/sorted/slice semantics. Not covered: db/post/search.py (SQL); facet on runids/vals (raises IndexError in the shelve backend, not used by the front end); the string parser _divide is covered by differential only.',
    'technique': 'Coq proof over hand model + source-generated range tests; translator validation sweep; model/implementation correspondence; brute-force specification oracle',
}

KINDS = ['target', 'task', 'alg', 'state', 'value']
PKEYS = ['targets', 'tasks', 'algs', 'svs', 'vals']
FACET_COL = {'targets': 1, 'tasks': 2, 'algs': 3, 'svs': 4}


# ---------------------------------------------------------------------------
# generators
# ---------------------------------------------------------------------------

def gen_catalog(rng, big=False):
    pool = {
        'target': ['T', 'T2', 'U', 'Ta'],
        'task': ['tsk', 'tsk2', 'net'],
        'alg': ['alg', 'alg2', 'al', 'b'],
        'state': ['sv', 'sv2', 's'],
        'value': ['v', 'w', 'v2'],
    }
    cat = {}
    cat['target'] = [[n, None, None] for n in rng.sample(pool['target'], rng.randint(1, 4))]
    cat['task'] = [[n, None, None] for n in rng.sample(pool['task'], rng.randint(1, 3))]
    parent = 'task'
    for kind, hi in (('alg', 5), ('state', 6), ('value', 7)):
        seen, rows = set(), []
        for _ in range(rng.randint(2, hi)):
            row = (rng.choice(pool[kind]), rng.randrange(len(cat[parent])),
                   (1, rng.randint(0, 1), rng.randint(0, 1)))
            if row not in seen:
                seen.add(row)
                rows.append([row[0], row[1], list(row[2])])
        cat[kind] = rows
        parent = kind
    prime = set()
    nruns = rng.randint(3, 9)
    for _ in range(rng.randint(4, 40 if big else 22)):
        v = rng.randrange(len(cat['value']))
        if rng.random() < 0.8:   # consistent with the parent links
            s = cat['value'][v][1]
            a = cat['state'][s][1]
            k = cat['alg'][a][1]
        else:
            s = rng.randrange(len(cat['state']))
            a = rng.randrange(len(cat['alg']))
            k = rng.randrange(len(cat['task']))
        t = rng.randrange(len(cat['target']))
        prime.add((rng.randint(0, nruns), t, k, a, s, v))
    prime = [list(p) for p in prime]
    rng.shuffle(prime)
    return cat, prime


def gen_tokens(rng, hi=12, latest=0.08):
    '''run-id expression as tokens ("i", z) | ("r", lo|None, hi|None)'''
    toks = []
    for _ in range(rng.choice([1, 1, 2, 2, 3, 3, 4, 5])):
        r = rng.random()
        if r < latest:
            toks.append(('i', -1))
        elif r < 0.40:
            toks.append(('i', rng.randint(0, hi)))
        elif r < 0.72:
            toks.append(('r', rng.randint(0, hi), rng.randint(0, hi)))
        elif r < 0.86:
            toks.append(('r', rng.randint(0, hi), None))
        else:
            toks.append(('r', None, rng.randint(0, hi)))
    return toks


def tok_items(toks):
    '''the item list the expression parses to (spec of _divide): (lo, hi)'''
    out = []
    for t in toks:
        if t[0] == 'i':
            out.append(t[1])
        else:
            out.append((0 if t[1] is None else t[1], t[2]))
    return out


def render(toks, rng, form):
    '''the run-id argument in one of its accepted forms (JSON encoding of the
    driver): string / list / scalar'''
    if form == 'str':
        parts = []
        for t in toks:
            if t[0] == 'i':
                s = str(t[1])
            else:
                s = ('' if t[1] is None else str(t[1])) + ':' + ('' if t[2] is None else str(t[2]))
            if rng.random() < 0.3:
                s = ' ' + s + ' '
            parts.append(s)
            if rng.random() < 0.08:
                parts.append(rng.choice(['', ' ']))
        return ','.join(parts)
    items = [it if isinstance(it, int) else {'R': [it[0], it[1]]} for it in tok_items(toks)]
    if form == 'scalar':
        return items[0]
    return items


def in_item(z, it):
    if isinstance(it, int):
        return it == z
    lo, hi = it
    return lo <= z and (hi is None or z < hi)


def overlapping_or_open(items):
    rs = [it for it in items if not isinstance(it, int)]
    if any(r[1] is None for r in rs):
        return True
    for a, b in itertools.combinations(rs, 2):
        if a[0] < a[1] and b[0] < b[1] and max(a[0], b[0]) <= min(a[1], b[1]):
            return True
    return any(isinstance(i, int) and any(in_item(i, r) for r in rs) for i in items)


def gen_query(rng, cat, prime):
    p = {}
    toks = None
    form = None
    r = rng.random()
    if r < 0.65:
        toks = gen_tokens(rng, hi=10)
        form = rng.choice(['str', 'str', 'list', 'scalar' if len(toks) == 1 else 'str'])
        p['runids'] = render(toks, rng, form)
    elif r < 0.70:
        toks, form, p['runids'] = [], 'list', []
    elif r < 0.74:
        toks, form, p['runids'] = [], 'str', rng.choice(['', ' ', ','])
    names = {}
    for kind, key in zip(KINDS, PKEYS):
        if rng.random() < 0.22:
            have = sorted({row[0] for row in cat[kind]})
            lst = rng.sample(have, rng.randint(1, min(2, len(have))))
            if rng.random() < 0.25:
                lst.insert(rng.randrange(len(lst) + 1), rng.choice(['nope', 'a', have[0] + 'x', have[0][:-1] or 'q']))
            if rng.random() < 0.1:
                lst = [lst[-1]] if rng.random() < 0.5 else []
            p[key] = lst
            names[key] = lst
    return p, toks, form, names


def gen_page(rng, n):
    r = rng.random()
    if r < 0.2:
        return 0, None
    if r < 0.30:
        return rng.randint(0, n + 2), None
    if r < 0.92:
        lim = rng.choice([0, 1, 1, 2, 2, 3, 5, n, n + 3])
        idx = rng.choice([0, lim, 2 * lim, rng.randint(0, n + 2), rng.randint(0, n + 2)])
        return idx, lim
    return rng.randint(-n - 2, n + 2), rng.choice([None, rng.randint(-3, n + 2)])


# ---------------------------------------------------------------------------
# specification (the property, brute force; independent of the model)
# ---------------------------------------------------------------------------

def spec_full(cat, prime, toks, names):
    items = None
    if toks is not None:
        items = [it for it in tok_items(toks) if it != -1]   # -1 = "latest" marker, no filter
    out = set()
    for pk in prime:
        if items and not any(in_item(pk[0], it) for it in items):
            continue
        ok = True
        for col, (kind, key) in enumerate(zip(KINDS, PKEYS), start=1):
            want = names.get(key)
            if want and cat[kind][pk[col]][0] not in want:
                ok = False
                break
        if ok:
            out.add(tuple(pk[:5]))
    return sorted(out)


def show(cat, key):
    return '%d.%s.%s.%s.%s' % (
        key[0], cat['target'][key[1]][0], cat['task'][key[2]][0],
        cat['alg'][key[3]][0], cat['state'][key[4]][0])


# ---------------------------------------------------------------------------
# model side
# ---------------------------------------------------------------------------

def coq_items(items):
    return [('Idx', it) if isinstance(it, int) else ('Rng', (it[0], None if it[1] is None else ('Some', it[1])))
            for it in items]


def coq_opt(v):
    return None if v is None else ('Some', v)


def name_codes(cat):
    allnames = sorted({row[0] for k in KINDS for row in cat[k]} | {'nope', 'a', 'q'}
                      | {row[0] + 'x' for k in KINDS for row in cat[k]}
                      | {row[0][:-1] for k in KINDS for row in cat[k] if row[0][:-1]})
    return {n: i for i, n in enumerate(allnames)}, allnames


def coq_db(cat, prime, codes):
    tabs = ' '.join(core.to_coq([codes[row[0]] for row in cat[k]]) for k in KINDS)
    return '(mkDB %s %s)' % (tabs, core.to_coq([tuple(p) for p in prime]))


def coq_params(toks, names, codes):
    parts = [core.to_coq(coq_opt(None if toks is None else coq_items(tok_items(toks))))]
    for key in PKEYS:
        v = names.get(key)
        parts.append(core.to_coq(coq_opt(None if v is None else [codes[n] for n in v])))
    return '(mkP %s)' % ' '.join('(%s)' % x if x != 'None' else x for x in parts)


def model_items(val):
    '''parsed Coq list item -> [(int | (lo, hi))]'''
    out = []
    for it in val:
        if it[0] == 'Idx':
            out.append(it[1])
        else:
            lo, hi = it[1]
            out.append((lo, None if hi is None else hi[1]))
    return out


def impl_items(enc):
    return [x if isinstance(x, int) and not isinstance(x, bool) else (x['R'][0], x['R'][1]) for x in enc]


# ---------------------------------------------------------------------------
# the check
# ---------------------------------------------------------------------------

def range_sweep(ctx):
    '''translator validation: generated rng_contains/rng_ge/scrub_covers vs the
    python methods on a finite domain; also the failing-input search for the
    range laws.'''
    dom = list(range(-2, 7))
    rs = [(a, b) for a in dom for b in dom + [None]]
    pure = []
    for a, b in rs:
        pure.append({'op': 'contains', 'start': a, 'stop': b, 'members': dom})
        pure.append({'op': 'ge', 'start': a, 'stop': b, 'others': dom})
    return dom, rs, pure


def run(ctx):
    ctx.cov['rule'] = (
        'random catalogues (names shared by several ids, prefix-related names, '
        'unknown names) x prime tables x queries: run-id expression in string, '
        'list and scalar form (indices, closed/open/empty/overlapping/adjacent '
        'ranges, the -1 marker), name constraints on any subset of the five '
        'columns, pages (index, limit) incl. index >= limit and beyond the end; '
        'non-trivial = the expression contains overlapping or open ranges (or an '
        'index covered by a range), or the page is not the first'
    )
    ctx.trust(
        'translator tools/translate/range2coq.py (python ast -> Gallina, fail '
        'closed; validated on every run by a finite sweep of Range.__contains__, '
        '__ge__ and the covered-index test)',
        'hand model coq/Model/Search.v of _divide/_scrub/_prime_keys/_find/_facet '
        '(sampled by the correspondence below)',
        'props/C17.py: name<->code table (codes in string order), rendering of '
        'model keys as run.target.task.alg.sv, brute-force specification oracle',
        'CPython semantics of set, sorted (stable), list slicing, str.split/int',
    )
    ctx.assume(
        'a python set of run ids is modelled as a duplicate-free list; every '
        'use is followed by sorted() or is order-insensitive',
        'the prime table holds str(tuple) keys of six ints whose ids index the '
        'name tables (as comms.Worker writes them)',
        'name codes handed to the model are assigned in string order, so that '
        'sorted() on names and on codes agree',
    )
    fp = {}
    fp.update(core.fingerprint('Python/dawgie/db/basis.py',
                               ['Range', 'SearchFacade._divide', 'SearchFacade._scrub',
                                'SearchFacade.find', 'SearchFacade.facet']))
    fp.update(core.fingerprint('Python/dawgie/db/shelve/search.py',
                               ['SearchImplementation._prime_keys', 'SearchImplementation._find',
                                'SearchImplementation._facet', '_align', '_subset', '_table_index']))
    fp.update(core.fingerprint('Python/dawgie/db/shelve/util.py', ['prime_keys', 'dissect']))
    ctx.note('fingerprints', fp)
    escalate = fp != EXPECTED_FP
    ctx.note('escalated_by_fingerprint', escalate)
    deep = escalate or not ctx.quick
    rng = random.Random('%s:C17' % ctx.seed)

    # ---- cases -------------------------------------------------------------
    ndb = 60 if deep else 14
    nq = 60 if deep else 26
    dbs = []
    for i in range(ndb):
        cat, prime = gen_catalog(rng, big=deep and i % 3 == 0)
        full_n = len({tuple(p[:5]) for p in prime})
        qs = []
        for j in range(nq):
            p, toks, form, names = gen_query(rng, cat, prime)
            r = rng.random()
            if r < 0.12 and 'vals' not in p:
                key = rng.choice(list(FACET_COL))
                # exactly one [] (facet() demands it); a run-id expression that
                # normalises to [] would be a second one (see `outside` below)
                p = {k: v for k, v in p.items() if v != []}
                names = {k: v for k, v in names.items() if v != []}
                if toks == []:
                    p.pop('runids', None)
                    toks = form = None
                if p.get('runids') == 0 and form == 'scalar':
                    # _isempty(0) is true: the scalar run id 0 counts as a []
                    form, p['runids'] = 'list', [0]
                p[key] = []
                names[key] = []
                qs.append({'op': 'facet', 'params': p, 'toks': toks, 'form': form,
                           'names': names, 'col': FACET_COL[key]})
            elif r < 0.17:
                qs.append({'op': 'find_default', 'params': p, 'toks': toks, 'form': form,
                           'names': names, 'index': 0, 'limit': None})
            else:
                idx, lim = gen_page(rng, full_n)
                qs.append({'op': 'find', 'params': p, 'toks': toks, 'form': form,
                           'names': names, 'index': idx, 'limit': lim})
        # directed: pages of the unconstrained search tile the full list
        for lim in (1, 2, 3):
            for k in range(0, full_n + lim, lim):
                if len(qs) < nq + 24:
                    qs.append({'op': 'find', 'params': {}, 'toks': None, 'form': None,
                               'names': {}, 'index': k, 'limit': lim})
        dbs.append({'catalog': cat, 'prime': prime, 'queries': qs})
    # the design-phase witnesses, always
    wcat = {'target': [['T', None, None]], 'task': [['tsk', None, None]],
            'alg': [['alg', 0, [1, 0, 0]], ['alg2', 0, [1, 0, 0]]],
            'state': [['sv', 0, [1, 0, 0]], ['sv', 1, [1, 0, 0]]],
            'value': [['v', 0, [1, 0, 0]], ['v', 1, [1, 0, 0]]]}
    wprime = [[r, 0, 0, a, a, a] for r in range(1, 8) for a in (0, 1)]
    wq = [
        {'op': 'find', 'params': {}, 'toks': None, 'form': None, 'names': {}, 'index': 2, 'limit': 2},
        {'op': 'find', 'params': {'runids': '2:4'}, 'toks': [('r', 2, 4)], 'form': 'str', 'names': {},
         'index': 0, 'limit': None},
        {'op': 'find', 'params': {'runids': '6,1:3'}, 'toks': [('i', 6), ('r', 1, 3)], 'form': 'str',
         'names': {}, 'index': 0, 'limit': None},
        {'op': 'find', 'params': {'algs': ['alg']}, 'toks': None, 'form': None,
         'names': {'algs': ['alg']}, 'index': 3, 'limit': 3},
    ]
    dbs.append({'catalog': wcat, 'prime': wprime, 'queries': wq})

    # pure expressions (scrub/divide)
    exprs = []
    for _ in range(4000 if deep else 500):
        toks = gen_tokens(rng, hi=rng.choice([4, 8, 12]), latest=0.12)
        form = rng.choice(['str', 'str', 'list', 'scalar' if len(toks) == 1 else 'list'])
        exprs.append((toks, form, render(toks, rng, form)))
    if deep:
        # exhaustive small scope: every expression of <= 3 tokens over a small alphabet
        alpha = [('i', -1), ('i', 0), ('i', 2)] + [('r', a, b) for a in (None, 1, 2) for b in (None, 1, 3)]
        for n in (1, 2, 3):
            for toks in itertools.product(alpha, repeat=n):
                toks = list(toks)
                exprs.append((toks, 'list', render(toks, rng, 'list')))
    for extra in ([('i', -1)], [('i', -1), ('i', -1)], [], [('r', 1, 0), ('r', 1, 3), ('i', -1)],
                  [('r', 1, 3), ('r', 1, 0)], [('r', 3, 3), ('r', 3, 5)], [('r', 0, 3), ('r', 3, 5)],
                  [('r', 0, 3), ('r', 4, 5)], [('r', 2, None), ('r', 0, 1), ('i', 5), ('i', 1)]):
        exprs.append((extra, 'list', render(extra, rng, 'list')))
    if ctx.replay:
        # re-execute the single case of a replay file through the same pipeline
        R = json.load(open(ctx.replay))
        dbs, exprs = [], []
        tk = None if R.get('tokens') is None else [tuple(t) for t in R['tokens']]
        if 'db' in R and 'query' in R:
            q = dict(R['query'])
            q['toks'] = tk
            q['names'] = {k: v for k, v in q['params'].items() if k != 'runids' and v is not None}
            rid = q['params'].get('runids')
            q['form'] = None if rid is None else 'str' if isinstance(rid, str) else 'list' if isinstance(rid, list) else 'scalar'
            q.setdefault('index', 0)
            q.setdefault('limit', None)
            dbs = [{'catalog': R['db']['catalog'], 'prime': R['db']['prime'], 'queries': [q]}]
        if 'runids' in R and tk is not None:
            exprs = [(tk, 'replay', R['runids'])]
    pure = []
    for toks, form, arg in exprs:
        pure.append({'op': 'scrub', 'runids': arg})
        pure.append({'op': 'divide', 'runids': arg})
    dom, rs, sweep = range_sweep(ctx)

    # ---- RUN-IMPL ------------------------------------------------------------
    payload = {'dbs': [{'catalog': d['catalog'], 'prime': d['prime'],
                        'queries': [{k: q[k] for k in ('op', 'params', 'index', 'limit') if k in q}
                                    for q in d['queries']]} for d in dbs],
               'pure': pure + sweep}
    impl = ctx.harness('drive_search.py', payload)
    pure_ans = impl['pure'][:len(pure)]
    sweep_ans = impl['pure'][len(pure):]
    found = []   # (kind, fields, what, replay)

    def viol(kind, fields, what, replay):
        found.append(kind)
        ctx.violation(kind, fields, what, dict(replay, source='oracle'))

    # ---- ORACLE on the implementation: range laws ----------------------------
    contains_tab, ge_tab = [], []
    for k, (a, b) in enumerate(rs):
        ca, ga = sweep_ans[2 * k], sweep_ans[2 * k + 1]
        if 'exc' in ca or 'exc' in ga:
            viol('range-exception', {'start': a, 'stop': b},
                 'Range(%r, %r) membership/>= raises %s' % (a, b, ca.get('exc') or ga.get('exc')),
                 {'range': [a, b], 'theorem': 'C17_range_contains'})
            contains_tab.append(None)
            ge_tab.append(None)
            continue
        cv, gv = ca['ok']['vals'], ga['ok']['vals']
        contains_tab.append(cv)
        ge_tab.append(gv)
        for m, got, raw in zip(dom, cv, ca['ok']['raw']):
            want = a <= m and (b is None or m < b)
            if got is not want or raw is not want:
                viol('range-contains', {'open': b is None},
                     '%r in Range(%r, %r) is %r, expected %r' % (m, a, b, raw, want),
                     {'range': [a, b], 'member': m, 'theorem': 'C17_range_contains'})
                break
        for o, got in zip(dom, gv):
            if got is not (a >= o):
                viol('range-ge', {}, 'Range(%r, %r) >= %r is %r' % (a, b, o, got),
                     {'range': [a, b], 'other': o})
                break

    # ---- ORACLE: _divide parses, _scrub keeps the denotation -----------------
    scrub_obs = []
    for k, (toks, form, arg) in enumerate(exprs):
        sa, da = pure_ans[2 * k], pure_ans[2 * k + 1]
        items = tok_items(toks)
        rep = {'runids': arg, 'tokens': toks, 'theorem': 'C17_scrub_denote'}
        if 'exc' in sa or 'exc' in da:
            viol('scrub-exception', {'exception': sa.get('exc') or da.get('exc')},
                 '_scrub/_divide(%r) raises %s' % (arg, sa.get('exc') or da.get('exc')), rep)
            scrub_obs.append(None)
            continue
        want_idx = sorted({it for it in items if isinstance(it, int)})
        want_rng = [[it[0], it[1]] for it in items if not isinstance(it, int)]
        got_rng = [x['R'] for x in da['ok']['ranges']]
        if da['ok']['indices'] != want_idx or got_rng != want_rng or da['ok']['types'] != ['set', 'list']:
            viol('divide-parse', {'form': form},
                 '_divide(%r) = (%r, %r), expected (%r, %r)' % (arg, da['ok']['indices'], got_rng, want_idx, want_rng),
                 rep)
        got = impl_items(sa['ok']['runids'])
        scrub_obs.append(got)
        lo = min([-2] + [x for it in items for x in (it if not isinstance(it, int) else (it,)) if x is not None]) - 1
        hi = max([2] + [x for it in items for x in (it if not isinstance(it, int) else (it,)) if x is not None]) + 2
        bad = [z for z in range(lo, hi + 1)
               if any(in_item(z, it) for it in items) != any(in_item(z, it) for it in got)]
        if bad:
            viol('scrub-denotation', {'open': any(not isinstance(i, int) and i[1] is None for i in items)},
                 '_scrub(%r) = %r changes membership of run id %d' % (arg, got, bad[0]), dict(rep, runid=bad[0]))
        if sa['ok']['rest'] != [None] * 5:
            viol('scrub-other-fields', {}, '_scrub(%r) altered the other parameters' % (arg,), rep)

    # ---- ORACLE: find/facet against the brute-force specification ------------
    nontrivial = []
    hist = {'find': 0, 'find_default': 0, 'facet': 0, 'form:str': 0, 'form:list': 0, 'form:scalar': 0,
            'ranges': 0, 'open_or_overlap': 0, 'page_not_first': 0, 'index_ge_limit': 0,
            'names': 0, 'unknown_name': 0, 'negative_page': 0, 'empty_result': 0}
    impl_obs = []
    for di, (d, ans) in enumerate(zip(dbs, impl['dbs'])):
        cat, prime = d['catalog'], d['prime']
        if any(ans['ids'][k] != list(range(len(cat[k]))) for k in KINDS):
            ctx.broken('drive_search.py: util.append did not hand out ids in order',
                       json.dumps(ans['ids']), {'source': 'correspondence', 'db': di})
        for qi, (q, a) in enumerate(zip(d['queries'], ans['answers'])):
            hist[q['op']] += 1
            toks, names = q['toks'], q['names']
            if q['form']:
                hist['form:' + q['form']] += 1
            items = tok_items(toks) if toks else []
            has_r = any(not isinstance(i, int) for i in items)
            hist['ranges'] += has_r
            oo = overlapping_or_open(items)
            hist['open_or_overlap'] += oo
            hist['names'] += bool(names)
            known = {row[0] for k in KINDS for row in cat[k]}
            hist['unknown_name'] += any(n not in known for v in names.values() for n in v)
            full = spec_full(cat, prime, toks, names)
            hist['empty_result'] += not full
            rep = {'db': {'catalog': cat, 'prime': prime},
                   'query': {k: q[k] for k in ('op', 'params', 'index', 'limit', 'col') if k in q},
                   'tokens': toks, 'theorem': 'C17_exact / C17_total / C17_pages'}
            case_key = ('q', cat, sorted(map(tuple, prime)), q['params'], q.get('index'), q.get('limit'), q['op'])
            if 'exc' in a:
                impl_obs.append(('exc', a['exc']))
                viol('search-exception', {'exception': a['exc'], 'op': q['op']},
                     '%s(%s) raises %s: %s' % (q['op'], json.dumps(q['params']), a['exc'], a.get('msg')), rep)
                continue
            if q['op'] == 'facet':
                col = q['col']
                kind = KINDS[col - 1]
                want = sorted({cat[kind][k[col]][0] for k in full})
                impl_obs.append(('facet', a['ok']['names']))
                if a['ok']['names'] != want or a['ok']['types'] != ['list']:
                    viol('facet', {'column': kind},
                         'facet(%s) = %r, expected %r' % (json.dumps(q['params']), a['ok']['names'], want),
                         dict(rep, expected=want, observed=a['ok']['names']))
                if oo:
                    nontrivial.append(case_key)
                continue
            idx, lim = q['index'], q['limit']
            got, total = a['ok']['items'], a['ok']['total']
            impl_obs.append(('find', got, total))
            if idx < 0 or (lim is not None and lim < 0):
                hist['negative_page'] += 1
                wantpage = None      # the property does not speak about negative pages
            else:
                wantpage = full[idx:] if lim is None else full[idx:idx + lim]
                hist['page_not_first'] += idx > 0
                hist['index_ge_limit'] += lim is not None and idx >= lim > 0
            if oo or idx > 0:
                nontrivial.append(case_key)
            if type(total) is not int or a['ok']['types'] != ['list', 'int']:
                viol('result-type', {}, 'find returns %r' % (a['ok']['types'],), rep)
            if total != len(full):
                kind = 'range-in-set' if has_r else 'match-set'
                viol(kind if total < len(full) or not has_r else 'match-set',
                     {'ranges': has_r, 'names': bool(names)},
                     'find(%s).total = %r, but %d entries match' % (json.dumps(q['params']), total, len(full)),
                     dict(rep, expected=len(full), observed=total))
            elif wantpage is not None and got != [show(cat, k) for k in wantpage]:
                fullshow = [show(cat, k) for k in full]
                if all(g in fullshow for g in got) or not got:
                    viol('page-slice', {'index_ge_limit': lim is not None and idx >= lim},
                         'find(%s, %d, %r).items = %r, expected entries %d.. = %r'
                         % (json.dumps(q['params']), idx, lim, got, idx, [show(cat, k) for k in wantpage]),
                         dict(rep, expected=[show(cat, k) for k in wantpage], observed=got))
                else:
                    viol('match-set', {'ranges': has_r, 'names': bool(names)},
                         'find(%s, %d, %r).items = %r contains entries that do not match'
                         % (json.dumps(q['params']), idx, lim, got), dict(rep, observed=got))
    ctx.note('query_histogram', hist)
    ctx.note('scrub_expressions', len(exprs))

    # ---- GEN + PROVE -----------------------------------------------------------
    ok, msg = ctx.generate('range2coq.py', 'Gen/RangeGen.v')
    proofs_ok = False
    if not ok:
        ctx.coq_props()
        ctx.cov['discharged'] = 0
        if not found:
            ctx.broken('translator range2coq.py refuses db/basis.py', msg, {'source': 'translator'})
    else:
        r = ctx.coq_props()
        proofs_ok = r['ok']
        if not r['ok'] and not found:
            ctx.broken('theorem/file %s' % r['failing'], r['log'],
                       {'source': 'proof', 'theorem': r['failing']})
    if not (ok and proofs_ok):
        ctx.count(evaluations=len(impl_obs) + len(exprs), nontrivial_keys=nontrivial)
        return

    # ---- RUN-MODEL + DIFF --------------------------------------------------------
    # (a) translator validation sweep
    pre = 'Definition dom : list Z := %s.\n' % core.to_coq(dom)
    sw = []
    for a, b in rs:
        r_ = core.to_coq((a, None if b is None else ('Some', b)))
        sw.append('(map (rng_contains %s) dom, map (rng_ge %s) dom)' % (r_, r_))
    # the covered-index test has no python function of its own: it is compared
    # with Range.__contains__ (the model uses it where python writes it inline)
    cov = ['(map (scrub_covers %s) dom)' % core.to_coq((a, None if b is None else ('Some', b))) for a, b in rs]
    res = ctx.coq_eval(['DV.Gen.RangeGen'], ['[%s]' % '; '.join(sw), '[%s]' % '; '.join(cov)], preamble=pre)
    for (a, b), (mc, mg), mcov, ic, ig in zip(rs, res[0], res[1], contains_tab, ge_tab):
        if ic is None:
            continue
        if mc != ic or mg != ig:
            ctx.broken('translator validation: generated rng_contains/rng_ge disagree with python',
                       'range=%r python=%r/%r gallina=%r/%r' % ((a, b), ic, ig, mc, mg),
                       {'source': 'correspondence', 'range': [a, b]})
            break
        if mcov != ic:
            # the inline test of _scrub is no longer the membership test: look for
            # an expression whose denotation changes (already done by the oracle above)
            if 'scrub-denotation' not in found:
                ctx.note('scrub_covers_differs_from_contains', [a, b])
    nsweep = len(rs) * len(dom) * 3

    # (b) scrub
    CH = 400
    sexprs = []
    for k in range(0, len(exprs), CH):
        sexprs.append('map scrub %s' % core.to_coq([coq_items(tok_items(t)) for t, _f, _a in exprs[k:k + CH]]))
    sres = [x for part in ctx.coq_eval(['DV.Model.Search'], sexprs) for x in part]
    for (toks, form, arg), mod, got in zip(exprs, sres, scrub_obs):
        if got is None:
            continue
        if model_items(mod) != got:
            if not found:
                ctx.broken('correspondence: _scrub vs Model.Search.scrub',
                           'runids=%r python=%r model=%r' % (arg, got, model_items(mod)),
                           {'source': 'correspondence', 'runids': arg, 'tokens': toks,
                            'expected': model_items(mod), 'observed': got})
            break

    # (c) find / facet
    pre = ''
    qexprs = []
    for di, d in enumerate(dbs):
        codes, allnames = name_codes(d['catalog'])
        d['codes'], d['allnames'] = codes, allnames
        pre += 'Definition d%d : db := %s.\n' % (di, coq_db(d['catalog'], d['prime'], codes))
        for q in d['queries']:
            pp = coq_params(q['toks'], q['names'], codes)
            if q['op'] == 'facet':
                qexprs.append('search_facet d%d %s %s' % (di, pp, core.to_coq(core.Nat(q['col']))))
            else:
                qexprs.append('search_find d%d %s %s %s' % (
                    di, pp, core.to_coq(q['index']),
                    core.to_coq(coq_opt(q['limit']))))
    mres = ctx.coq_eval(['DV.Model.Search'], qexprs, preamble=pre, chunk=200)
    k = 0
    mism = None
    for di, d in enumerate(dbs):
        cat = d['catalog']
        for q in d['queries']:
            m, o = mres[k], impl_obs[k]
            k += 1
            if o[0] == 'exc':
                continue
            if q['op'] == 'facet':
                mo = ('facet', [d['allnames'][c] for c in m])
            else:
                mo = ('find', [show(cat, key) for key in m[0]], m[1])
            if mo != o and mism is None:
                mism = (di, q, mo, o)
    if mism and not found:
        di, q, mo, o = mism
        ctx.broken('correspondence: shelve search vs Model.Search',
                   'query=%s model=%r python=%r' % (json.dumps({k: q[k] for k in ('op', 'params', 'index', 'limit') if k in q}), mo, o),
                   {'source': 'correspondence', 'db': {'catalog': dbs[di]['catalog'], 'prime': dbs[di]['prime']},
                    'query': {k: q[k] for k in ('op', 'params', 'index', 'limit', 'col') if k in q},
                    'expected': mo, 'observed': o})
    ctx.count(evaluations=len(impl_obs) + len(exprs) + nsweep,
              nontrivial_keys=nontrivial + [('e', t) for t, _f, _a in exprs if overlapping_or_open(tok_items(t))])
    for d in dbs[:2]:
        q = d['queries'][0]
        ctx.sample({'prime_keys': len(d['prime']), 'query': {k: q[k] for k in ('op', 'params', 'index', 'limit') if k in q}})
    if exprs:
        ctx.sample({'scrub': exprs[0][2], 'result': scrub_obs[0]})
    if ctx.replay:
        ctx.note('replayed', ctx.replay)
        ctx.count(evaluations=1, nontrivial_keys=[('replay', 1), ('replay', 2)])


# fingerprints of the modelled functions at the time the model was written; a
# change escalates the run to the thorough depth (DESIGN 5.2)
EXPECTED_FP = {
    'Range': 'cd56236837d34153',
    'SearchFacade._divide': 'f4f6107cd0b3fd01',
    'SearchFacade._scrub': 'dfe63c184cac24fb',
    'SearchFacade.facet': 'b41091f20fb75f32',
    'SearchFacade.find': '61ad6a1164c17cb8',
    'SearchImplementation._facet': '90ed5b1662fbf083',
    'SearchImplementation._find': '9f8b89888477a431',
    'SearchImplementation._prime_keys': '5385923fcc6c2c39',
    '_align': '5e848c91e4e9a72e',
    '_subset': 'dc0b805e52476a10',
    '_table_index': '59c08b84fcb505e5',
    'dissect': '7e95a357bd70a99f',
    'prime_keys': '50c68f4e2adf3401',
}
