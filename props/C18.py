'''C18 -- The execution history records every run once; queries return the window.

Proof side: Props/C18.v over Model/Chron.v (hand model of chronicle.append,
_load, _most_recent_first, find and of the chronicle call of
schedule.complete; abstract calendar + the Gregorian instance).

Implementation side: tools/harness/drive_chron.py runs the real chronicle on
real files in a temp data_dbs with frozen clocks; observations are compared
with the model (correspondence) and with a brute-force filter of everything
appended (oracle = the property, independent of the model).'''
import datetime as dt
import json
import random

from vlib import core

PID = 'C18'
META = {
    'text': 'Theorems (unbounded: every history of appends, every completion time, every window and limit, every calendar obeying three interval laws) over an executable Gallina model of chronicle.append/_load/find and of the chronicle call of schedule.complete: an append adds exactly one copy of the entry to its (day, run id) file and preserves every file in order; complete appends exactly one entry carrying the reply data; find(after, before) is a permutation of the recorded entries of the requested status with after < completed < before, sorted newest first; find(before, limit) and find(limit) return the first limit entries of that list with after = 1980-01-01 (resp. before = now); the day walk never runs out of fuel; df_model_statistics (the front-end consumer of the history) reports the run with the highest id among the recorded failed/succeeded entries of the node completed since boot, its latest completion and its outcome (C18_stats). Tied to the real code by correspondence on real files in a temp directory with frozen clocks (day, month, year boundaries, 29 Feb; bounds at arbitrary times of day) and by a brute-force window oracle on the implementation; the real fe.api.df_model_statistics and fe.api.schedule.failed/succeeded run between the queries and every answer is relabelled in place as the front end does, so that answers sharing state with the journal are noticed.',
    'note': 'Trusted: Coq kernel; hand model Model/Chron.v + correspondence driver (temp directory, frozen clocks, stand-in job for schedule.complete); tick/name-code conversion and the brute-force oracle in props/C18.py; the Gregorian calendar instance satisfies the three laws (checked by vm_compute for 1980..2100, tested against the real directory walk); CPython sort stability, os.listdir, json. Not covered: crash during the JSON rewrite, concurrent appenders; find(after, limit) without before (documented to return the oldest entries, returns the oldest of the newest days: modelled as is, outside the property statement).',
    'technique': 'Coq proof over hand model (fuelled walk, permutation + sortedness); model/implementation correspondence on real files; brute-force specification oracle',
}

EPOCH = dt.datetime(1980, 1, 1, tzinfo=dt.UTC)
ANCHORS = [(2023, 12, 30), (2023, 12, 31), (2024, 1, 1), (2024, 1, 2), (2024, 1, 31), (2024, 2, 1),
           (2024, 2, 28), (2024, 2, 29), (2024, 3, 1), (2024, 3, 2), (2024, 6, 15), (2025, 1, 1),
           (2022, 7, 4), (2024, 2, 27), (2024, 12, 31), (2025, 2, 28), (2025, 3, 1)]
TARGETS = ['T', 'T2', 'U', '__all__']
TASKS = ['net.alg', 'net.alg2', 'tsk.a', 'a.b']
STATUS = {'success': 0, 'failure': 1, 'invalid': 2}


def ticks(t):
    return (mkdt(t) - EPOCH) // dt.timedelta(microseconds=1)


def mkdt(t):
    return dt.datetime(*t, tzinfo=dt.UTC)


def dayno(t):
    return (dt.date(*t[:3]) - dt.date(1980, 1, 1)).days


def rand_time(rng, day):
    r = rng.random()
    if r < 0.1:
        hms = (0, 0, 0, 0)
    elif r < 0.2:
        hms = (23, 59, 59, rng.choice([0, 999999]))
    else:
        hms = (rng.randrange(24), rng.randrange(60), rng.randrange(60),
               0 if rng.random() < 0.7 else rng.randrange(1000000))
    return list(day) + list(hms)


def gen_case(rng, nq, big=False):
    days = rng.sample(ANCHORS, rng.randint(2, 5))
    if rng.random() < 0.3:   # a dense run of consecutive days
        base = dt.date(*rng.choice(ANCHORS))
        days += [((base + dt.timedelta(days=k)).timetuple()[:3]) for k in range(-2, 3)]
    days = sorted(set(tuple(d) for d in days))
    appends = []
    n = rng.randint(3, 22 if big else 12)
    for i in range(n):
        if appends and rng.random() < 0.15:     # same key again (same file, tie in the sort)
            src = rng.choice(appends)
            a = dict(src)
            if rng.random() < 0.5:
                a['status'] = rng.choice(list(STATUS))
        else:
            a = {'completed': rand_time(rng, rng.choice(days)),
                 'runid': rng.choice([1, 2, 3, 10, 17]),
                 'status': rng.choice(['success', 'success', 'failure', 'failure', 'invalid']),
                 'target': rng.choice(TARGETS), 'task': rng.choice(TASKS)}
            if appends and rng.random() < 0.2:  # same instant, other run/target/task
                a['completed'] = list(rng.choice(appends)['completed'])
        a['id'] = i + 1
        a['via'] = rng.choice(['datetime', 'string', 'complete'])
        appends.append(a)
    times = [a['completed'] for a in appends]
    lastday = max(days)
    queries = []
    for _ in range(nq):
        def bound():
            r = rng.random()
            if r < 0.45:
                t = list(rng.choice(times))
                # next to an entry: equal / one tick / seconds / hours away
                delta = rng.choice([0, 0, 1, -1, 1000000, -1000000, 3600 * 10**6, -3600 * 10**6,
                                    7 * 3600 * 10**6, -11 * 3600 * 10**6])
                d = mkdt(t) + dt.timedelta(microseconds=delta)
                return [d.year, d.month, d.day, d.hour, d.minute, d.second, d.microsecond]
            if r < 0.85:
                return rand_time(rng, rng.choice(days))
            return rand_time(rng, rng.choice(ANCHORS))
        now = rand_time(rng, rng.choice([lastday, lastday, (2025, 3, 2), (2025, 6, 1), rng.choice(days)]))
        r = rng.random()
        if r < 0.40:
            a, b = bound(), bound()
            if mkdt(a) > mkdt(b) and rng.random() < 0.85:
                a, b = b, a
            q = {'after': a, 'before': b, 'limit': None if rng.random() < 0.7 else rng.randint(0, 4)}
        elif r < 0.62:
            q = {'after': None, 'before': bound(), 'limit': rng.choice([None, 1, 2, 3, 5, 50])}
        elif r < 0.76:
            q = {'after': None, 'before': None, 'limit': rng.choice([1, 2, 3, 7, 50])}
        elif r < 0.86:
            q = {'after': bound(), 'before': None, 'limit': None}
        elif r < 0.93:
            q = {'after': bound(), 'before': None, 'limit': rng.choice([1, 2, 3, 50])}
        elif r < 0.97:
            q = {'after': None, 'before': rng.choice([None, bound()]), 'limit': rng.choice([0, -1, -3])}
        else:
            q = {'after': None, 'before': None, 'limit': None}
        q['succeeded'] = rng.random() < 0.6
        q['now'] = now
        # what the front end does with an answer (fe.api.df_model_statistics
        # relabels the dicts it was handed): later answers must not notice
        q['relabel'] = rng.random() < 0.35
        queries.append(q)
        r = rng.random()
        if r < 0.18:
            node = rng.choice(TASKS + [TASKS[0] + '.sv', 'no.such'])
            queries.append({'kind': 'stats', 'node': node, 'boot': bound(), 'now': now})
        elif r < 0.30:
            queries.append({'kind': 'api', 'which': rng.choice(['failed', 'succeeded']),
                            'before': rng.choice([None, bound(), bound()]),
                            'limit': rng.choice([None, 1, 2, 3, 7, 50]), 'now': now})
    return {'appends': appends, 'queries': queries}


WITNESS = {
    'appends': [
        {'id': 1, 'completed': [2026, 1, 9, 15, 0, 0, 0], 'runid': 1, 'status': 'success', 'target': 'T', 'task': 'tsk.a', 'via': 'datetime'},
        {'id': 2, 'completed': [2026, 1, 10, 8, 0, 0, 0], 'runid': 2, 'status': 'success', 'target': 'T', 'task': 'tsk.a', 'via': 'string'},
        {'id': 3, 'completed': [2026, 1, 9, 9, 0, 0, 0], 'runid': 3, 'status': 'success', 'target': 'T', 'task': 'tsk.a', 'via': 'complete'},
        {'id': 4, 'completed': [2025, 12, 31, 23, 59, 0, 0], 'runid': 4, 'status': 'success', 'target': 'T', 'task': 'tsk.a', 'via': 'complete'}],
    'queries': [
        {'after': [2026, 1, 9, 10, 0, 0, 0], 'before': [2026, 1, 10, 9, 0, 0, 0], 'limit': None, 'succeeded': True, 'now': [2026, 2, 1, 0, 0, 0, 0]},
        {'after': None, 'before': [2026, 1, 10, 9, 0, 0, 0], 'limit': 3, 'succeeded': True, 'now': [2026, 2, 1, 0, 0, 0, 0]},
        {'after': None, 'before': [2026, 1, 10, 9, 0, 0, 0], 'limit': 10, 'succeeded': True, 'now': [2026, 2, 1, 0, 0, 0, 0]},
        {'after': None, 'before': None, 'limit': 10, 'succeeded': True, 'now': [2026, 1, 9, 12, 0, 0, 0]},
        {'kind': 'stats', 'node': 'tsk.a', 'boot': [2025, 12, 1, 0, 0, 0, 0], 'now': [2026, 2, 1, 0, 0, 0, 0]},
        {'kind': 'stats', 'node': 'tsk.a', 'boot': [2025, 12, 1, 0, 0, 0, 0], 'now': [2026, 2, 1, 0, 0, 0, 0]},
        {'after': None, 'before': None, 'limit': 10, 'succeeded': True, 'now': [2026, 2, 1, 0, 0, 0, 0], 'relabel': True},
        {'kind': 'api', 'which': 'succeeded', 'before': None, 'limit': 10, 'now': [2026, 2, 1, 0, 0, 0, 0]}],
}


# ---------------------------------------------------------------------------
# specification (brute force over everything appended)
# ---------------------------------------------------------------------------

def skey(a):
    return (ticks(a['completed']), a['runid'], a['target'], a['task'])


def spec_window(appends, lo, hi, succeeded):
    '''entries with lo < completed < hi and the status, newest first (ticks)'''
    st = 'success' if succeeded else 'failure'
    es = [a for a in appends if a['status'] == st and lo < ticks(a['completed']) < hi]
    return sorted(es, key=skey, reverse=True)


def node_of(name):
    return '.'.join(name.split('.')[:2]) if name.count('.') > 1 else name


def spec_stats(appends, node, lo, hi):
    '''df_model_statistics for a node that is neither executing nor pending:
    None or (date ticks, run id, 0 succeeded / 1 failed / 2 both)'''
    m = [a for a in appends if a['task'] == node_of(node) and a['status'] in ('success', 'failure')
         and lo < ticks(a['completed']) < hi]
    if not m:
        return None
    rid = max(a['runid'] for a in m)
    m = [a for a in m if a['runid'] == rid]
    st = {a['status'] for a in m}
    return (max(ticks(a['completed']) for a in m), rid,
            2 if len(st) > 1 else 0 if st == {'success'} else 1)


def coq_entry(a, tcode, kcode):
    return 'mkE %s %s %s %s %s %s' % tuple(core.to_coq(x) for x in (
        ticks(a['completed']), a['runid'], tcode[a['target']], kcode[a['task']], STATUS[a['status']], a['id']))


def coq_opt(v):
    return 'None' if v is None else '(Some %s)' % core.to_coq(v)


def run(ctx):
    ctx.cov['rule'] = (
        'random histories of 3..22 appends (through chronicle.append with a '
        'datetime, with the string schedule.complete hands over, and through '
        'schedule.complete itself) at any time of day incl. microseconds on days '
        'around month/year boundaries and 29 Feb, repeated (day, run id) files and '
        'tied sort keys; queries: windows whose bounds sit on/next to entries at '
        'arbitrary times of day, before+limit, limit only (clock = now), after '
        'only, after+limit, limit <= 0, no argument; non-trivial = both bounds '
        'not at midnight and entries on >= 2 days'
    )
    ctx.trust(
        'hand model coq/Model/Chron.v of chronicle.append/_load/find and of the '
        'chronicle call in schedule.complete (sampled by the correspondence below)',
        'props/C18.py: datetime -> microsecond ticks since 1980-01-01, target/task '
        'name codes in string order, brute-force window oracle',
        'tools/harness/drive_chron.py: temp data_dbs, frozen clocks '
        '(chronicle.datetime.now, schedule.datetime.datetime.now), stand-in job',
        'the Gregorian calendar instance of the model obeys the three calendar laws '
        '(vm_compute check 1980..2100 in Props/C18.v, sampled against the real walk)',
        'CPython list.sort stability with reverse=True; json round trip; isoformat '
        'strings of UTC datetimes order like the instants',
    )
    ctx.assume(
        'all completion times are UTC datetimes (schedule.complete uses '
        'datetime.now(UTC)); the day directory is the UTC date of the entry',
        'the chronicles tree is only written by chronicle.append (no stray '
        'directories), one appender at a time, no crash inside the JSON rewrite',
    )
    fp = {}
    fp.update(core.fingerprint('Python/dawgie/pl/logger/chronicle.py',
                               ['_load', '_most_recent_first', 'append', 'find']))
    fp.update(core.fingerprint('Python/dawgie/pl/schedule.py', ['complete']))
    fp.update(core.fingerprint('Python/dawgie/fe/api/__init__.py', ['df_model_statistics']))
    fp.update({'api.' + k: v for k, v in core.fingerprint(
        'Python/dawgie/fe/api/schedule.py', ['failed', 'succeeded']).items()})
    ctx.note('fingerprints', fp)
    escalate = fp != EXPECTED_FP
    ctx.note('escalated_by_fingerprint', escalate)
    deep = escalate or not ctx.quick
    rng = random.Random('%s:C18' % ctx.seed)

    ncase = 220 if deep else 40
    nq = 24 if deep else 14
    cases = [WITNESS] + [gen_case(rng, nq, big=deep and i % 4 == 0) for i in range(ncase)]
    if ctx.replay:
        # re-execute the single case of a replay file through the same pipeline
        R = json.load(open(ctx.replay))
        cases = [R['case'], R['case']]
        ctx.note('replayed', ctx.replay)
        ctx.count(evaluations=1, nontrivial_keys=[('replay', 1), ('replay', 2)])
    impl = ctx.harness('drive_chron.py', {'cases': cases})['cases']

    found = []

    def viol(kind, fields, what, replay):
        found.append(kind)
        ctx.violation(kind, fields, what, dict(replay, source='oracle'))

    hist = {'window': 0, 'before_limit': 0, 'limit_only': 0, 'after_only': 0, 'after_limit': 0,
            'nonpositive_limit': 0, 'no_argument': 0, 'bounds_not_midnight': 0, 'multi_day': 0,
            'cross_month': 0, 'cross_year': 0, 'tied_keys': 0, 'empty_answer': 0,
            'via_complete': 0, 'files_with_2plus': 0}
    nontrivial = []
    obs = []          # per case: (files, answers) canonical, for the diff
    for ci, (case, res) in enumerate(zip(cases, impl)):
        appends = case['appends']
        byid = {a['id']: a for a in appends}
        rep0 = {'case': case, 'theorem': 'C18_append_once'}
        # ---- oracle: every append adds exactly one copy, nothing else changes ----
        want_files = {}
        total = 0
        for a, (rel, content, count) in zip(appends, res['after_each']):
            key = '%04d/%02d/%02d/%d.json' % (a['completed'][0], a['completed'][1], a['completed'][2], a['runid'])
            want_files.setdefault(key, []).append(a['id'])
            total += 1
            hist['via_complete'] += a['via'] == 'complete'
            if content != want_files[key] or count != total:
                kind = 'append-lost' if count < total or (content or []) != want_files[key] else 'append-dup'
                viol(kind, {'via': a['via']},
                     'after appending entry %d (%s) file %s holds %r (expected %r), journal holds %d entries (expected %d)'
                     % (a['id'], a['via'], key, content, want_files[key], count, total),
                     dict(rep0, step=a['id'], theorem='C18_append_once / C18_complete_once'))
                break
        if res['files'] != want_files and 'append-lost' not in found and 'append-dup' not in found:
            viol('append-lost', {'via': 'final'}, 'journal files %r, expected %r' % (res['files'], want_files), rep0)
        hist['files_with_2plus'] += sum(len(v) > 1 for v in want_files.values())
        for a in appends:
            e = res['entries'].get(str(a['id']))
            if e is None:
                continue
            got_t = dt.datetime.fromisoformat(e['completed'])
            if (e['runid'], e['status'], e['target'], e['task']) != (a['runid'], a['status'], a['target'], a['task']) \
                    or got_t != mkdt(a['completed']) \
                    or e['keys'] != ['changeset', 'runid', 'status', 'target', 'task', 'timing', 'version']:
                viol('append-content', {'via': a['via']},
                     'entry %d recorded as %r, given %r' % (a['id'], e, a),
                     dict(rep0, step=a['id'], theorem='C18_complete_once'))
                break
        daysset = {tuple(a['completed'][:3]) for a in appends}
        keys = [skey(a) for a in appends]
        tied = len(set(keys)) < len(keys)
        # ---- oracle: queries ----
        answers = []
        for qi, (q, ans) in enumerate(zip(case['queries'], res['answers'])):
            rep = {'case': {'appends': appends, 'queries': [q]}, 'query': q,
                   'theorem': 'C18_window / C18_newest'}
            if q.get('kind') == 'stats':
                hist['stats'] = hist.get('stats', 0) + 1
                rep['theorem'] = 'C18_stats'
                if 'exc' in ans:
                    answers.append(('exc', ans['exc']))
                    viol('find-exception', {'exception': ans['exc'], 'via': 'df_model_statistics'},
                         'df_model_statistics(%r) raises %s: %s' % (q['node'], ans['exc'], ans.get('msg')), rep)
                    continue
                c = ans['stats']
                if c and set(c) == {'date', 'runid', 'status'} and c['status'] in ('succeeded', 'failed', 'both'):
                    got_s = ((dt.datetime.fromisoformat(c['date']) - EPOCH) // dt.timedelta(microseconds=1),
                             c['runid'], {'succeeded': 0, 'failed': 1, 'both': 2}[c['status']])
                elif c == {}:
                    got_s = None
                else:
                    got_s = ('other', json.dumps(c, sort_keys=True))
                answers.append(('stats', got_s))
                want_s = spec_stats(appends, q['node'], ticks(q['boot']), ticks(q['now']))
                if want_s is not None:
                    hist['stats_nonempty'] = hist.get('stats_nonempty', 0) + 1
                if got_s != want_s:
                    viol('stats-wrong', {'lost_entries': want_s is not None and got_s is None},
                         'df_model_statistics(%r) [boot=%s now=%s] reports %r, the recorded history says %r'
                         % (q['node'], mkdt(q['boot']).isoformat(), mkdt(q['now']).isoformat(), got_s, want_s),
                         dict(rep, expected=want_s, observed=got_s))
                continue
            if q.get('kind') == 'api':
                hist['api'] = hist.get('api', 0) + 1
                q = dict(q, after=None, succeeded=q['which'] == 'succeeded')
            A, B, L = q['after'], q['before'], q['limit']
            if 'exc' in ans:
                answers.append(('exc', ans['exc']))
                if A is None and B is None and L is None and ans['exc'] == 'ValueError':
                    hist['no_argument'] += 1
                    continue
                viol('find-exception', {'exception': ans['exc']},
                     'find(%s) raises %s: %s' % (json.dumps(q), ans['exc'], ans.get('msg')), rep)
                continue
            got = ans['ok']
            answers.append(('ok', got))
            hist['empty_answer'] += not got
            hist['relabelled'] = hist.get('relabelled', 0) + bool(q.get('relabel'))
            if not set(ans.get('labels', [])) <= {'success' if q['succeeded'] else 'failure'}:
                viol('find-foreign', {'labels': True},
                     'find(%s) hands out entries whose status reads %r (the journal records success/failure/invalid)'
                     % (json.dumps(q), ans['labels']), rep)
                continue
            if A is None and B is None and L is None:
                viol('find-no-argument', {}, 'find() with no argument returned %r' % (got,), rep)
                continue
            lo = ticks(A) if A is not None else 0
            hi = ticks(B) if B is not None else ticks(q['now'])
            full = spec_window(appends, lo, hi, q['succeeded'])
            fullkeys = [skey(a) for a in full]
            if any(g not in byid for g in got) or len(set(got)) != len(got):
                viol('find-foreign', {}, 'find(%s) returns unknown or repeated entries %r' % (json.dumps(q), got), rep)
                continue
            gotkeys = [skey(byid[g]) for g in got]
            if A is not None and B is not None:
                kind = 'window'
                want = fullkeys
                exact_ids = sorted(a['id'] for a in full)
            elif A is None:
                kind = 'limit_only' if B is None else 'before_limit'
                if L is not None and L <= 0:
                    hist['nonpositive_limit'] += 1
                    want, exact_ids = [], []
                else:
                    want = fullkeys if L is None else fullkeys[:L]
                    exact_ids = sorted(a['id'] for a in full) if (L is None or L >= len(full)) else None
            elif L is None:
                kind = 'after_only'
                want = fullkeys
                exact_ids = sorted(a['id'] for a in full)
            else:
                # after + limit without before: outside the property statement
                # (see META note); only the correspondence speaks about it
                hist['after_limit'] += 1
                continue
            hist[kind] += 1
            not_midnight = all(x is None or tuple(x[3:]) != (0, 0, 0, 0) for x in (A, B))
            spans = {tuple(byid[a['id']]['completed'][:3]) for a in full}
            if A is not None and B is not None and not_midnight:
                hist['bounds_not_midnight'] += 1
            if len(spans) >= 2:
                hist['multi_day'] += 1
                hist['cross_month'] += len({s[:2] for s in spans}) >= 2
                hist['cross_year'] += len({s[0] for s in spans}) >= 2
            if not_midnight and len(daysset) >= 2 and (A is not None or B is not None):
                nontrivial.append(('c', sorted(keys), lo, hi, L, q['succeeded']))
            hist['tied_keys'] += tied
            bad_status = [g for g in got if byid[g]['status'] != ('success' if q['succeeded'] else 'failure')]
            if gotkeys != want or (exact_ids is not None and sorted(got) != exact_ids) or bad_status:
                missing = [a['id'] for a in full if a['id'] not in got]
                extra = [g for g in got if g not in [a['id'] for a in full]]
                if gotkeys == sorted(gotkeys, reverse=True) and not extra and missing and (L is None or len(got) < L):
                    k, f = 'window-cursor', {'lost_entries': True}
                elif extra:
                    k, f = 'window-filter', {'extra_entries': True}
                elif gotkeys != sorted(gotkeys, reverse=True):
                    k, f = 'window-order', {}
                else:
                    k, f = 'window-limit', {'limit': L is not None}
                viol(k, f, 'find(after=%s, before=%s, limit=%r, succeeded=%r) [now=%s] returns entries %r, expected %r%s'
                     % (A and mkdt(A).isoformat(), B and mkdt(B).isoformat(), L, q['succeeded'],
                        mkdt(q['now']).isoformat(), got, [a['id'] for a in full][:L if (L and A is None) else None],
                        (' (missing %r)' % missing) if missing else ''),
                     dict(rep, expected=[a['id'] for a in full], observed=got))
        obs.append((res['files'], answers))
    ctx.note('query_histogram', hist)

    # ---- PROVE -----------------------------------------------------------------
    r = ctx.coq_props()
    if not r['ok']:
        if not found:
            ctx.broken('theorem/file %s' % r['failing'], r['log'], {'source': 'proof', 'theorem': r['failing']})
        ctx.count(evaluations=sum(len(c['queries']) + len(c['appends']) for c in cases), nontrivial_keys=nontrivial)
        return

    # ---- RUN-MODEL + DIFF ----------------------------------------------------------
    tcode = {n: i for i, n in enumerate(sorted(TARGETS))}
    kcode = {n: i for i, n in enumerate(sorted(TASKS))}
    pre = ('Definition jfiles (j : journal) := map (fun f => (f_day f, f_runid f, map e_id (f_entries f))) j.\n'
           'Definition out (r : result) : list Z := match r with Ok l => 0 :: map e_id l '
           '| ValueError => [1] | OutOfFuel => [2] end.\n'
           'Definition sout (r : option stat) : list Z := match r with None => [2] | Some NoStat => [3] '
           '| Some (Stat d r s) => [4; d; r; s] end.\n')
    exprs = []
    for ci, case in enumerate(cases):
        jdef = 'fold_left Chron.append [%s] []' % '; '.join(coq_entry(a, tcode, kcode) for a in case['appends'])
        qs = []
        for q in case['queries']:
            if q.get('kind') == 'stats':
                qs.append('sout (Chron.stats greg j %s %s %s)' % (
                    core.to_coq(ticks(q['boot'])), core.to_coq(ticks(q['now'])),
                    core.to_coq(kcode.get(node_of(q['node']), 99))))
                continue
            if q.get('kind') == 'api':
                q = dict(q, after=None, succeeded=q['which'] == 'succeeded')
            qs.append('out (Chron.find greg j %s %s %s %s %s)' % (
                coq_opt(None if q['after'] is None else ticks(q['after'])),
                coq_opt(None if q['before'] is None else ticks(q['before'])),
                coq_opt(q['limit']), 'true' if q['succeeded'] else 'false',
                core.to_coq(ticks(q['now']))))
        exprs.append('let j := %s in (jfiles j, [%s])' % (jdef, '; '.join(qs)))
    mres = ctx.coq_eval(['DV.Model.Chron'], exprs, preamble=pre, chunk=6)
    mism = None
    for ci, (case, (mfiles, mans), (ifiles, ians)) in enumerate(zip(cases, mres, obs)):
        mf = {}
        for d, rid, ids in mfiles:
            date = dt.date(1980, 1, 1) + dt.timedelta(days=d)
            mf['%04d/%02d/%02d/%d.json' % (date.year, date.month, date.day, rid)] = ids
        if mf != ifiles:
            mism = (ci, 'journal files', mf, ifiles, None)
            break
        for qi, (m, o) in enumerate(zip(mans, ians)):
            mo = (('ok', m[1:]) if m[0] == 0 else ('exc', 'ValueError') if m[0] == 1 else ('fuel', None)
                  if m[0] == 2 else ('stats', None) if m[0] == 3 else ('stats', tuple(m[1:])))
            if mo != o:
                mism = (ci, 'find', mo, o, case['queries'][qi])
                break
        if mism:
            break
    if mism and not found:
        ci, what, mo, o, q = mism
        ctx.broken('correspondence: chronicle %s vs Model.Chron' % what,
                   'query=%s model=%r python=%r' % (json.dumps(q), mo, o),
                   {'source': 'correspondence', 'case': {'appends': cases[ci]['appends'],
                                                         'queries': [q] if q else []},
                    'expected': mo, 'observed': o})
    ctx.count(evaluations=sum(len(c['queries']) + len(c['appends']) for c in cases),
              nontrivial_keys=nontrivial)
    ctx.sample({'appends': cases[1]['appends'][:3], 'query': cases[1]['queries'][0],
                'answer': impl[1]['answers'][0]})
    ctx.sample({'witness_answers': impl[0]['answers']})
    ctx.note('observed_outside_statement',
             'find(after, limit) without before returns the oldest `limit` entries of the newest '
             'days walked (docstring rule 2 promises the entries closest to `after`); modelled as '
             'is, not part of the property statement; %d such queries compared with the model'
             % hist['after_limit'])


EXPECTED_FP = {
    '_load': 'e2b2fb54651fbe0c',
    '_most_recent_first': 'b8b1591c18b551ce',
    'append': '75ce4516c0903a1d',
    'complete': 'fb12116b841dc480',
    'find': '88671a5e0c5a331e',
    'api.failed': '1a70414eaef554b4',
    'api.succeeded': '1a1dcc843bc5a858',
    'df_model_statistics': 'deef049c933606b0',
}
