'''C18 -- The execution history records every run once; queries return the window.

Proof side: Props/C18.v over Model/Chron.v (hand model of chronicle.append,
_load, _most_recent_first, find and of the chronicle call of
schedule.complete; abstract calendar + the Gregorian instance).

Implementation side: tools/harness/drive_chron.py runs the real chronicle on
real files in a temp data_dbs with frozen clocks; observations are compared
with the model (correspondence) and with a brute-force filter of everything
appended (oracle = the property, independent of the model).

Composition with the scheduler (C03/C05): Model/SchedChron.v feeds every
history-entry output of Model/Sched.v, with a clock reading per event, to
Chron.complete; tools/harness/drive_schedchron.py runs the same scheduler
histories on the real schedule/farm with the REAL chronicle writing files in a
temp directory under an injected clock and reads the journal back with the
real find (composition_study below).'''
import datetime as dt
import json
import random

from vlib import core

PID = 'C18'
META = {
    'text': 'Theorems (unbounded: every history of appends, every completion time, every window and limit, every calendar obeying three interval laws) over an executable Gallina model of chronicle.append/_load/find and of the chronicle call of schedule.complete: an append adds exactly one copy of the entry to its (day, run id) file and preserves every file in order; complete appends exactly one entry carrying the reply data; find(after, before) is a permutation of the recorded entries of the requested status with after < completed < before, sorted newest first; find(before, limit) and find(limit) return the first limit entries of that list with after = 1980-01-01 (resp. before = now); the day walk never runs out of fuel; df_model_statistics (the front-end consumer of the history) reports the run with the highest id among the recorded failed/succeeded entries of the node completed since boot, its latest completion and its outcome (C18_stats). COMPOSED with the scheduler model (Model/SchedChron.v = Sched.step events with a clock reading each, every history-entry output fed to Chron.complete; state = scheduler state x journal), for every engine graph, every scheduler history from boot, every clock and every coding of names: the journal equals, as a sequence, the journal of the replies the scheduler applied (a reply is applied iff its job is still queued when it arrives), appended in completion order with run id, target, task, status of the reply and the clock reading of its event; file by file in completion order; no entry duplicated, none without such a reply; event by event: an applied reply has exactly one entry, a reply that finds no job (output ODropped, the open finding C03 reply-dropped) and every non-reply event have none, a reply whose unit is still counted as doing is always applied (C18_every_run_recorded_once); in clean histories (no purge of an executing dependent) the journal is the journal of ALL replies (C18_every_reply_recorded_clean); without the exception clause the statement is refuted by the C03 witness with a clock (C18_dropped_reply_unrecorded: a unit a worker executed and answered has no entry); find over that journal returns exactly the applied replies of the requested outcome completed inside the window, newest first / the newest limit of them (C18_find_returns_applied), and with a strictly increasing clock the answer is, as a list, the reverse completion order of those replies (C18_find_returns_applied_in_order). Tied to the real code by correspondence on real files in a temp directory with frozen clocks (day, month, year boundaries, 29 Feb; bounds at arbitrary times of day) and by a brute-force window oracle on the implementation; the real fe.api.df_model_statistics and fe.api.schedule.failed/succeeded run between the queries and every answer is relabelled in place as the front end does, so that answers sharing state with the journal are noticed; the composition is tied by scheduler histories (corpus scenarios incl. the reply-dropped witness + generated ones) run on the real schedule/farm with the REAL chronicle writing under an injected clock (repeated readings, day/month/year crossings, clock set back), the files read back and queried with the real find, compared with the combined model and with an oracle computed from the implementation\'s own queue observations.',
    'note': 'Trusted: Coq kernel; hand models Model/Chron.v, Model/Sched.v, Model/SchedChron.v + correspondence drivers (temp directory, frozen clocks, stand-in job for schedule.complete; drive_schedchron.py reuses drive_sched.py with the real chronicle.append put back, clock and changeset stamped per event); tick/name-code conversion and the brute-force oracles in props/C18.py; the Gregorian calendar instance satisfies the three laws (checked by vm_compute for 1980..2100, tested against the real directory walk); CPython sort stability, os.listdir, json. Open finding seen from C18: a reply dropped by Hand._res (C03 reply-dropped, cause purge-cleared-doing) leaves a completed run without journal entry; it is the stated exception clause of C18_every_run_recorded_once, proved to occur (C18_dropped_reply_unrecorded) and replayed on the real code on every run (noted in the evidence; printed as KNOWN-FINDING once known_findings.json carries a C18 entry kind=run-not-recorded match cause=reply-dropped). Not covered: crash during the JSON rewrite, concurrent appenders; the in-memory suc/err lists of schedule.complete; find(after, limit) without before (documented to return the oldest entries, returns the oldest of the newest days: modelled as is, outside the property statement).',
    'technique': 'Coq proof over hand model (fuelled walk, permutation + sortedness; composition by simulation of the scheduler run: journal = fold of append over the applied replies); model/implementation correspondence on real files incl. scheduler histories with the real chronicle under an injected clock; brute-force specification oracle',
}

EPOCH = dt.datetime(1980, 1, 1, tzinfo=dt.UTC)
ANCHORS = [(2023, 12, 30), (2023, 12, 31), (2024, 1, 1), (2024, 1, 2), (2024, 1, 31), (2024, 2, 1),
           (2024, 2, 28), (2024, 2, 29), (2024, 3, 1), (2024, 3, 2), (2024, 6, 15), (2025, 1, 1),
           (2022, 7, 4), (2024, 2, 27), (2024, 12, 31), (2025, 2, 28), (2025, 3, 1)]
TARGETS = ['T', 'T2', 'U', '__all__']
TASKS = ['net.alg', 'net.alg2', 'tsk.a', 'a.b']
STATUS = {'success': 0, 'failure': 1, 'invalid': 2}


def ticks(t):
    return (mkdt(t) - EPOCH) // dt.timedelta(microseconds=1)


def mkdt(t):
    return dt.datetime(*t, tzinfo=dt.UTC)


def dayno(t):
    return (dt.date(*t[:3]) - dt.date(1980, 1, 1)).days


def rand_time(rng, day):
    r = rng.random()
    if r < 0.1:
        hms = (0, 0, 0, 0)
    elif r < 0.2:
        hms = (23, 59, 59, rng.choice([0, 999999]))
    else:
        hms = (rng.randrange(24), rng.randrange(60), rng.randrange(60),
               0 if rng.random() < 0.7 else rng.randrange(1000000))
    return list(day) + list(hms)


def gen_case(rng, nq, big=False):
    days = rng.sample(ANCHORS, rng.randint(2, 5))
    if rng.random() < 0.3:   # a dense run of consecutive days
        base = dt.date(*rng.choice(ANCHORS))
        days += [((base + dt.timedelta(days=k)).timetuple()[:3]) for k in range(-2, 3)]
    days = sorted(set(tuple(d) for d in days))
    appends = []
    n = rng.randint(3, 22 if big else 12)
    for i in range(n):
        if appends and rng.random() < 0.15:     # same key again (same file, tie in the sort)
            src = rng.choice(appends)
            a = dict(src)
            if rng.random() < 0.5:
                a['status'] = rng.choice(list(STATUS))
        else:
            a = {'completed': rand_time(rng, rng.choice(days)),
                 'runid': rng.choice([1, 2, 3, 10, 17]),
                 'status': rng.choice(['success', 'success', 'failure', 'failure', 'invalid']),
                 'target': rng.choice(TARGETS), 'task': rng.choice(TASKS)}
            if appends and rng.random() < 0.2:  # same instant, other run/target/task
                a['completed'] = list(rng.choice(appends)['completed'])
        a['id'] = i + 1
        a['via'] = rng.choice(['datetime', 'string', 'complete'])
        appends.append(a)
    times = [a['completed'] for a in appends]
    lastday = max(days)
    queries = []
    for _ in range(nq):
        def bound():
            r = rng.random()
            if r < 0.45:
                t = list(rng.choice(times))
                # next to an entry: equal / one tick / seconds / hours away
                delta = rng.choice([0, 0, 1, -1, 1000000, -1000000, 3600 * 10**6, -3600 * 10**6,
                                    7 * 3600 * 10**6, -11 * 3600 * 10**6])
                d = mkdt(t) + dt.timedelta(microseconds=delta)
                return [d.year, d.month, d.day, d.hour, d.minute, d.second, d.microsecond]
            if r < 0.85:
                return rand_time(rng, rng.choice(days))
            return rand_time(rng, rng.choice(ANCHORS))
        now = rand_time(rng, rng.choice([lastday, lastday, (2025, 3, 2), (2025, 6, 1), rng.choice(days)]))
        r = rng.random()
        if r < 0.40:
            a, b = bound(), bound()
            if mkdt(a) > mkdt(b) and rng.random() < 0.85:
                a, b = b, a
            q = {'after': a, 'before': b, 'limit': None if rng.random() < 0.7 else rng.randint(0, 4)}
        elif r < 0.62:
            q = {'after': None, 'before': bound(), 'limit': rng.choice([None, 1, 2, 3, 5, 50])}
        elif r < 0.76:
            q = {'after': None, 'before': None, 'limit': rng.choice([1, 2, 3, 7, 50])}
        elif r < 0.86:
            q = {'after': bound(), 'before': None, 'limit': None}
        elif r < 0.93:
            q = {'after': bound(), 'before': None, 'limit': rng.choice([1, 2, 3, 50])}
        elif r < 0.97:
            q = {'after': None, 'before': rng.choice([None, bound()]), 'limit': rng.choice([0, -1, -3])}
        else:
            q = {'after': None, 'before': None, 'limit': None}
        q['succeeded'] = rng.random() < 0.6
        q['now'] = now
        # what the front end does with an answer (fe.api.df_model_statistics
        # relabels the dicts it was handed): later answers must not notice
        q['relabel'] = rng.random() < 0.35
        queries.append(q)
        r = rng.random()
        if r < 0.18:
            node = rng.choice(TASKS + [TASKS[0] + '.sv', 'no.such'])
            queries.append({'kind': 'stats', 'node': node, 'boot': bound(), 'now': now})
        elif r < 0.30:
            queries.append({'kind': 'api', 'which': rng.choice(['failed', 'succeeded']),
                            'before': rng.choice([None, bound(), bound()]),
                            'limit': rng.choice([None, 1, 2, 3, 7, 50]), 'now': now})
    return {'appends': appends, 'queries': queries}


WITNESS = {
    'appends': [
        {'id': 1, 'completed': [2026, 1, 9, 15, 0, 0, 0], 'runid': 1, 'status': 'success', 'target': 'T', 'task': 'tsk.a', 'via': 'datetime'},
        {'id': 2, 'completed': [2026, 1, 10, 8, 0, 0, 0], 'runid': 2, 'status': 'success', 'target': 'T', 'task': 'tsk.a', 'via': 'string'},
        {'id': 3, 'completed': [2026, 1, 9, 9, 0, 0, 0], 'runid': 3, 'status': 'success', 'target': 'T', 'task': 'tsk.a', 'via': 'complete'},
        {'id': 4, 'completed': [2025, 12, 31, 23, 59, 0, 0], 'runid': 4, 'status': 'success', 'target': 'T', 'task': 'tsk.a', 'via': 'complete'}],
    'queries': [
        {'after': [2026, 1, 9, 10, 0, 0, 0], 'before': [2026, 1, 10, 9, 0, 0, 0], 'limit': None, 'succeeded': True, 'now': [2026, 2, 1, 0, 0, 0, 0]},
        {'after': None, 'before': [2026, 1, 10, 9, 0, 0, 0], 'limit': 3, 'succeeded': True, 'now': [2026, 2, 1, 0, 0, 0, 0]},
        {'after': None, 'before': [2026, 1, 10, 9, 0, 0, 0], 'limit': 10, 'succeeded': True, 'now': [2026, 2, 1, 0, 0, 0, 0]},
        {'after': None, 'before': None, 'limit': 10, 'succeeded': True, 'now': [2026, 1, 9, 12, 0, 0, 0]},
        {'kind': 'stats', 'node': 'tsk.a', 'boot': [2025, 12, 1, 0, 0, 0, 0], 'now': [2026, 2, 1, 0, 0, 0, 0]},
        {'kind': 'stats', 'node': 'tsk.a', 'boot': [2025, 12, 1, 0, 0, 0, 0], 'now': [2026, 2, 1, 0, 0, 0, 0]},
        {'after': None, 'before': None, 'limit': 10, 'succeeded': True, 'now': [2026, 2, 1, 0, 0, 0, 0], 'relabel': True},
        {'kind': 'api', 'which': 'succeeded', 'before': None, 'limit': 10, 'now': [2026, 2, 1, 0, 0, 0, 0]}],
}


# ---------------------------------------------------------------------------
# specification (brute force over everything appended)
# ---------------------------------------------------------------------------

def skey(a):
    return (ticks(a['completed']), a['runid'], a['target'], a['task'])


def spec_window(appends, lo, hi, succeeded):
    '''entries with lo < completed < hi and the status, newest first (ticks)'''
    st = 'success' if succeeded else 'failure'
    es = [a for a in appends if a['status'] == st and lo < ticks(a['completed']) < hi]
    return sorted(es, key=skey, reverse=True)


def node_of(name):
    return '.'.join(name.split('.')[:2]) if name.count('.') > 1 else name


def spec_stats(appends, node, lo, hi):
    '''df_model_statistics for a node that is neither executing nor pending:
    None or (date ticks, run id, 0 succeeded / 1 failed / 2 both)'''
    m = [a for a in appends if a['task'] == node_of(node) and a['status'] in ('success', 'failure')
         and lo < ticks(a['completed']) < hi]
    if not m:
        return None
    rid = max(a['runid'] for a in m)
    m = [a for a in m if a['runid'] == rid]
    st = {a['status'] for a in m}
    return (max(ticks(a['completed']) for a in m), rid,
            2 if len(st) > 1 else 0 if st == {'success'} else 1)


def coq_entry(a, tcode, kcode):
    return 'mkE %s %s %s %s %s %s' % tuple(core.to_coq(x) for x in (
        ticks(a['completed']), a['runid'], tcode[a['target']], kcode[a['task']], STATUS[a['status']], a['id']))


def coq_opt(v):
    return 'None' if v is None else '(Some %s)' % core.to_coq(v)


# ---------------------------------------------------------------------------
# composition with the scheduler (Model/SchedChron.v): scheduler histories
# with the REAL chronicle under an injected clock
# ---------------------------------------------------------------------------

OUTCOME = {3: 'success', 1: 'failure', 6: 'invalid'}
SC_TARGETS = [['ta', 'tb'], ['T1', 'T2'], ['Ta', 'tb', 'tc'], ['t1']]
SC_PREFIX = [['reg', 1, 0, True], ['reg', 2, 1, True], ['reg', 3, 0, True], ['reg', 4, 2, True]]


def tk2dt(t):
    return EPOCH + dt.timedelta(microseconds=t)


def sc_clock(rng, n):
    '''one clock reading per event: starts shortly before a day / month / year
    boundary; gaps from 0 (same reading twice: tied sort keys) over seconds to
    more than a day; now and then the clock is set back'''
    day = dt.datetime(*rng.choice(ANCHORS), tzinfo=dt.UTC)
    start = day + dt.timedelta(hours=rng.choice([0, 9, 22, 23]), minutes=rng.randrange(60),
                               seconds=rng.randrange(60))
    t = (start - EPOCH) // dt.timedelta(microseconds=1)
    out = []
    for _ in range(n):
        out.append(t)
        r = rng.random()
        if r < 0.10:
            gap = 0
        elif r < 0.20:
            gap = rng.choice([1, 500, 999999])
        elif r < 0.70:
            gap = rng.randrange(1, 900) * 10**6
        elif r < 0.93:
            gap = rng.randrange(1, 9 * 3600) * 10**6 + rng.choice([0, 0, rng.randrange(10**6)])
        elif r < 0.97:
            gap = rng.randrange(20, 80) * 3600 * 10**6
        else:
            gap = -rng.randrange(1, 5 * 3600) * 10**6
        t += gap
    return out


def sc_queries(rng, clock, nq):
    lo, hi = min(clock), max(clock)
    qs = []

    def bound():
        r = rng.random()
        if r < 0.6:
            return rng.choice(clock) + rng.choice([0, 0, 1, -1, 10**6, -10**6, 3600 * 10**6, -3600 * 10**6,
                                                   7 * 3600 * 10**6, -11 * 3600 * 10**6])
        return rng.randrange(lo - 2 * 86400 * 10**6, hi + 2 * 86400 * 10**6)
    for _ in range(nq):
        now = rng.choice([hi + 1, hi + 1, hi + rng.randrange(1, 40 * 86400 * 10**6), rng.choice(clock)])
        r = rng.random()
        if r < 0.45:
            a, b = bound(), bound()
            if a > b and rng.random() < 0.9:
                a, b = b, a
            q = {'after': a, 'before': b, 'limit': None if rng.random() < 0.8 else rng.randint(0, 3)}
        elif r < 0.65:
            q = {'after': None, 'before': bound(), 'limit': rng.choice([None, 1, 2, 3, 50])}
        elif r < 0.80:
            q = {'after': None, 'before': None, 'limit': rng.choice([1, 2, 3, 7, 50])}
        elif r < 0.93:
            q = {'after': bound(), 'before': None, 'limit': None}
        else:
            q = {'after': bound(), 'before': None, 'limit': rng.choice([1, 2, 50])}
        q['succeeded'] = rng.random() < 0.55
        q['now'] = now
        qs.append(q)
    return qs


def sc_cases(ctx, rng, n, nev, nq):
    import glob
    import os
    cases = []
    for f in sorted(glob.glob(os.path.join(core.VERIF, 'corpus', 'sched', '*.json'))):
        c = json.load(open(f))
        # the directed scenarios of the scheduler corpus (incl. the witness of the
        # open finding C03 reply-dropped), then some generated events
        cases.append({'seed': c['seed'], 'desc': c['desc'], 'targets': c.get('targets', ['T1', 'T2']),
                      'events': c['events'], 'extra': 6, 'profile': 'sched'})
    for i in range(n):
        cases.append({'seed': '%d:sc:%d' % (ctx.seed, i), 'profile': 'sched' if i % 4 else 'mixed',
                      'nalg': 6 if i % 3 else 8, 'shape': 'fan' if i % 2 else 'random',
                      'targets': SC_TARGETS[i % len(SC_TARGETS)],
                      'events': list(SC_PREFIX) if i % 5 else [], 'extra': nev})
    for c in cases:
        c['clock'] = sc_clock(rng, len(c['events']) + c.pop('extra'))
        c['queries'] = sc_queries(rng, c['clock'], nq)
    return cases


def sc_key(e):
    return (e['ticks'], e['runid'], e['target'], e['task'])


def composition_study(ctx, deep, replay_case=None):
    '''scheduler histories x real chronicle vs Model/SchedChron.v; oracle = the
    property on the implementation's own observations (every reply whose job
    was queued when it arrived has exactly one entry with its data, in reply
    order per file; nothing else is in the journal; find = brute-force window
    over those replies)'''
    from props import sched_common as sc
    rng = random.Random('%s:C18:schedchron' % ctx.seed)
    if replay_case is not None:
        cases = [replay_case]
    else:
        cases = sc_cases(ctx, rng, 120 if deep else 30, 70 if deep else 60, 10 if deep else 8)
    res = ctx.harness('drive_schedchron.py', {'cases': cases})['cases']
    hist = {'histories': len(cases), 'events': 0, 'replies': 0, 'applied': 0, 'dropped': 0,
            'entries_success': 0, 'entries_failure': 0, 'entries_invalid': 0, 'files': 0,
            'files_with_2plus': 0, 'histories_2plus_days': 0, 'tied_clock_entries': 0,
            'queries': 0, 'queries_nonempty': 0, 'queries_multi_day': 0}
    nontrivial = []
    viol = []

    def v(kind, fields, what, replay):
        viol.append(kind)
        ctx.violation(kind, fields, what, dict(replay, source='oracle (composition)', study='schedchron'))

    expected = []
    for case, r in zip(cases, res):
        r['seed'] = case['seed']
        g = r['graph']
        clock = case['clock']
        tn, tags = g['tnames'], g['tags']
        rcase = dict(sc.strip(r), clock=clock, queries=[])
        rep0 = {'case': rcase, 'theorem': 'C18_every_run_recorded_once'}
        exp, dropped, want_files = [], [], {}
        hist['events'] += len(r['events'])
        for i, ev in enumerate(r['events']):
            if ev[0] != 'rep':
                continue
            hist['replies'] += 1
            x, t, rid, oc = ev[2], ev[3], ev[4], ev[5]
            if x in r['que_before'][i]:
                d = tk2dt(clock[i])
                e = {'id': i, 'ticks': clock[i], 'runid': rid, 'target': tn[t], 'task': tags[x],
                     'status': OUTCOME[oc]}
                exp.append(e)
                want_files.setdefault('%04d/%02d/%02d/%d.json' % (d.year, d.month, d.day, rid), []).append(i)
                hist['entries_' + OUTCOME[oc]] += 1
            else:
                dropped.append(i)
        expected.append((exp, dropped))
        hist['applied'] += len(exp)
        hist['dropped'] += len(dropped)
        hist['files'] += len(want_files)
        hist['files_with_2plus'] += sum(len(x) > 1 for x in want_files.values())
        ndays = len({k[:10] for k in want_files})
        hist['histories_2plus_days'] += ndays >= 2
        hist['tied_clock_entries'] += len(exp) - len({e['ticks'] for e in exp})
        if len(exp) >= 3 and ndays >= 2:
            nontrivial.append(('sc', str(case['seed'])))
        # ---- every applied reply recorded exactly once, nothing else ----
        got = {int(k): val for k, val in r['entries'].items()}
        for e in exp:
            recs = got.get(e['id'], [])
            if not recs:
                v('run-not-recorded', {'status': e['status']},
                  'history %s: the reply of event %d (%s on %s, run %d, %s) was applied by the scheduler '
                  '(its job was queued) but the journal has no entry for it'
                  % (case['seed'], e['id'], e['task'], e['target'], e['runid'], e['status']),
                  dict(rep0, step=e['id']))
                break
            if len(recs) > 1:
                v('run-recorded-twice', {'status': e['status']},
                  'history %s: the reply of event %d has %d journal entries' % (case['seed'], e['id'], len(recs)),
                  dict(rep0, step=e['id']))
                break
            c = recs[0]
            if (c['runid'], c['status'], c['target'], c['task']) != (e['runid'], e['status'], e['target'], e['task']) \
                    or dt.datetime.fromisoformat(c['completed']) != tk2dt(e['ticks']) \
                    or c['keys'] != ['changeset', 'runid', 'status', 'target', 'task', 'timing', 'version']:
                v('append-content', {'via': 'reply'},
                  'history %s: the reply of event %d is recorded as %r, the reply says %r at %s'
                  % (case['seed'], e['id'], c, e, tk2dt(e['ticks']).isoformat()), dict(rep0, step=e['id']))
                break
        else:
            stray = sorted(set(got) - {e['id'] for e in exp})
            if stray:
                v('entry-without-run', {'dropped_reply': bool(set(stray) & set(dropped))},
                  'history %s: journal entries %r belong to no applied reply' % (case['seed'], stray), rep0)
            elif r['files'] != want_files:
                v('append-lost', {'via': 'reply-order'},
                  'history %s: journal files %r, the applied replies in completion order give %r'
                  % (case['seed'], r['files'], want_files), rep0)
        # the scheduler reaches chronicle.append exactly for the applied replies
        for i, ev in enumerate(r['events']):
            n5 = sum(1 for o in r['outs'][i] if o and o[0] == 5)
            want5 = 1 if any(e['id'] == i for e in exp) else 0
            if n5 != want5 and not viol:
                v('run-not-recorded' if n5 < want5 else 'run-recorded-twice', {'seen_by': 'chronicle.append calls'},
                  'history %s: event %d %r reached chronicle.append %d times, expected %d'
                  % (case['seed'], i, ev, n5, want5), dict(rep0, step=i))
        # ---- find over the journal the scheduler wrote ----
        byid = {e['id']: e for e in exp}
        for q, ans in zip(case['queries'], r['answers']):
            hist['queries'] += 1
            rep = dict(rep0, case=dict(rcase, queries=[q]), query=q, theorem='C18_find_returns_applied')
            if 'exc' in ans:
                v('find-exception', {'exception': ans['exc']}, 'find(%s) raises %s: %s'
                  % (json.dumps(q), ans['exc'], ans.get('msg')), rep)
                continue
            A, B, L = q['after'], q['before'], q['limit']
            lo = A if A is not None else 0
            hi = B if B is not None else q['now']
            st = 'success' if q['succeeded'] else 'failure'
            full = sorted([e for e in exp if e['status'] == st and lo < e['ticks'] < hi], key=sc_key, reverse=True)
            if A is not None and B is None and L is not None:
                continue              # after + limit: outside the property statement (see META note)
            if A is None and L is not None:
                want = full[:L] if L > 0 else []
            else:
                want = full
            hist['queries_nonempty'] += bool(want)
            hist['queries_multi_day'] += len({e['ticks'] // 86400000000 for e in want}) >= 2
            gotk = [sc_key(byid[i]) if i in byid else None for i in ans['ok']]
            exact = A is not None or L is None or L >= len(full)
            if gotk != [sc_key(e) for e in want] or (exact and sorted(ans['ok']) != sorted(e['id'] for e in want)):
                missing = [e['id'] for e in want if e['id'] not in ans['ok']]
                v('window-cursor' if missing else 'window-filter',
                  {'lost_entries': True} if missing else {'extra_entries': True},
                  'history %s: find(after=%s, before=%s, limit=%r, succeeded=%r) [now=%s] returns the replies '
                  'of events %r, the applied replies in the window are %r'
                  % (case['seed'], A and tk2dt(A).isoformat(), B and tk2dt(B).isoformat(), L, q['succeeded'],
                     tk2dt(q['now']).isoformat(), ans['ok'], [e['id'] for e in want]),
                  dict(rep, expected=[e['id'] for e in want], observed=ans['ok']))
    ctx.note('composition_histogram', hist)
    # ---- the C18 face of the open finding C03 reply-dropped ----
    ndrop = hist['dropped']
    if ndrop:
        what = ('%d replies of units a worker was executing found no job (IndexError in schedule.find, the '
                'open finding C03 reply-dropped): schedule.complete never ran, the run has no journal entry'
                % ndrop)
        if ctx._match_known('run-not-recorded', {'cause': 'reply-dropped'}) is not None:
            ctx.violation('run-not-recorded', {'cause': 'reply-dropped'}, what, {'source': 'oracle (composition)'})
        ctx.note('dropped_replies_without_entry',
                 {'count': ndrop, 'what': what, 'coq': 'C18_dropped_reply_unrecorded',
                  'known_finding': 'C03 reply-dropped (known_findings.json has no C18 entry for it: '
                                   'noted here, not a verdict)'})
    if replay_case is None:
        ctx.expect_known('reply-dropped-unrecorded', bool(ndrop))
        if not ndrop and not viol:
            ctx.broken('the witness of the open finding C03 reply-dropped no longer leaves a reply without '
                       'journal entry: model (faithful to the finding) and code have diverged',
                       'corpus/sched/c03_duplicate_flight_after_purge.json produced no dropped reply',
                       {'source': 'correspondence', 'study': 'schedchron'})
    # ---- RUN-MODEL + DIFF ----
    pre = ('Open Scope nat_scope.\n'
           'Definition qout (r : Chron.result) : list Z := match r with Chron.Ok l => 0%Z :: map e_id l '
           '| Chron.ValueError => [1%Z] | Chron.OutOfFuel => [2%Z] end.\n'
           'Definition study (tc : nat -> Z) (c : cfg) (tes : list tev) (qs : journal -> list (list Z)) :=\n'
           '  let j := snd (sc_boot tc zc c tes) in\n'
           '  (jfiles j, jentries j, dropped c (init c) 0%Z tes, '
           'map e_id (applied tc zc c (init c) 0%Z tes), qs j).\n')
    exprs = []
    codes = []
    for case, r in zip(cases, res):
        tn = r['graph']['tnames']
        rank = {n: k for k, n in enumerate(sorted(tn))}
        codes.append(rank)
        tc = '(fun t => nth t [%s] 0%%Z)' % '; '.join('(%d)%%Z' % rank[n] for n in tn)
        tes = '[' + '; '.join('((%d)%%Z, %s)' % (case['clock'][i], sc.ev_term(e))
                              for i, e in enumerate(r['events'])) + ']'
        qs = '; '.join('qout (Chron.find greg j %s %s %s %s %s)' % (
            coq_opt(q['after']), coq_opt(q['before']), coq_opt(q['limit']),
            'true' if q['succeeded'] else 'false', core.to_coq(q['now'])) for q in case['queries'])
        exprs.append('study %s %s %s (fun j => [%s])' % (tc, sc.cfg_term(r['graph']), tes, qs))
    try:
        mres = ctx.coq_eval(['DV.Model.Chron', 'DV.Model.Sched', 'DV.Model.SchedChron'], exprs,
                            preamble=pre, chunk=4, z_scope=False)
    except core.CoqEvalError as e:
        if not viol:
            ctx.broken('model evaluation of Model/SchedChron.v failed', str(e.args[-1])[-2000:],
                       {'source': 'correspondence', 'study': 'schedchron'})
        return nontrivial, hist
    for case, r, (exp, dropped), rank, (mfiles, ments, mdropped, mapplied, mans) in zip(
            cases, res, expected, codes, mres):
        mf = {}
        for d, rid, ids in mfiles:
            date = dt.date(1980, 1, 1) + dt.timedelta(days=d)
            mf['%04d/%02d/%02d/%d.json' % (date.year, date.month, date.day, rid)] = ids
        tags = r['graph']['tags']
        ie = sorted([int(k), (dt.datetime.fromisoformat(c['completed']) - EPOCH) // dt.timedelta(microseconds=1),
                     c['runid'], rank.get(c['target'], -1), tags.index(c['task']) if c['task'] in tags else -1,
                     STATUS.get(c['status'], -1)] for k, cs in r['entries'].items() for c in cs)
        idrop = [i for i, o in enumerate(r['outs']) if any(x and x[0] == 6 for x in o)]
        ians = [[0] + a['ok'] if 'ok' in a else [1] if a['exc'] == 'ValueError' else [9, a['exc']]
                for a in r['answers']]
        diffs = [(n, m, i) for n, m, i in (('journal files', mf, r['files']), ('entries', sorted(ments), ie),
                                           ('dropped replies', mdropped, idrop),
                                           ('applied replies', mapplied, [e['id'] for e in exp]),
                                           ('find answers', mans, ians)) if m != i]
        if diffs and not viol:
            n, m, i = diffs[0]
            qq = case['queries']
            if n == 'find answers':
                k = [a != b for a, b in zip(m, i)].index(True)
                n, m, i, qq = 'find answer to %s' % json.dumps(case['queries'][k]), m[k], i[k], [case['queries'][k]]
            ctx.broken('correspondence: scheduler x chronicle (%s) vs Model.SchedChron' % n.split(' to ')[0],
                       'history %s: %s: model=%r python=%r' % (case['seed'], n, m, i),
                       {'source': 'correspondence', 'study': 'schedchron',
                        'case': dict(sc.strip(r), clock=case['clock'], queries=qq),
                        'expected': m, 'observed': i})
            break
    if replay_case is None:
        ctx.sample({'composition_history': {'seed': cases[-1]['seed'], 'events': res[-1]['events'][:10],
                                            'clock': [tk2dt(t).isoformat() for t in cases[-1]['clock'][:10]],
                                            'journal_files': res[-1]['files']}})
    return nontrivial, hist


def run(ctx):
    ctx.cov['rule'] = (
        'random histories of 3..22 appends (through chronicle.append with a '
        'datetime, with the string schedule.complete hands over, and through '
        'schedule.complete itself) at any time of day incl. microseconds on days '
        'around month/year boundaries and 29 Feb, repeated (day, run id) files and '
        'tied sort keys; queries: windows whose bounds sit on/next to entries at '
        'arbitrary times of day, before+limit, limit only (clock = now), after '
        'only, after+limit, limit <= 0, no argument; non-trivial = both bounds '
        'not at midnight and entries on >= 2 days. Composition: the 6 directed '
        'scenarios of corpus/sched (incl. the reply-dropped witness) and random '
        'engines x random scheduler histories of ~60 events (replies in any order, '
        're-requests of units in flight, failures/invalid outcomes) with one clock '
        'reading per event (gaps 0 .. days, start near a day/month/year boundary, '
        'now and then set back), four target-name sets (string order of __all__ '
        'differs); 8-10 find queries per history with bounds on/next to the '
        'readings; non-trivial = >= 3 applied replies recorded on >= 2 days'
    )
    ctx.trust(
        'hand model coq/Model/Chron.v of chronicle.append/_load/find and of the '
        'chronicle call in schedule.complete (sampled by the correspondence below)',
        'props/C18.py: datetime -> microsecond ticks since 1980-01-01, target/task '
        'name codes in string order, brute-force window oracle',
        'tools/harness/drive_chron.py: temp data_dbs, frozen clocks '
        '(chronicle.datetime.now, schedule.datetime.datetime.now), stand-in job',
        'the Gregorian calendar instance of the model obeys the three calendar laws '
        '(vm_compute check 1980..2100 in Props/C18.v, sampled against the real walk)',
        'CPython list.sort stability with reverse=True; json round trip; isoformat '
        'strings of UTC datetimes order like the instants',
        'hand models coq/Model/Sched.v (pl/schedule.py + pl/farm.py, tied by C01-C05/C11) and '
        'coq/Model/SchedChron.v (which outputs reach chronicle.append, with which clock reading)',
        'tools/harness/drive_schedchron.py: drive_sched.py (fake transports, fsm stub, db.next/'
        'targets, in-memory AE) with the REAL chronicle.append put back; clock '
        '(schedule.datetime.datetime.now during replies, chronicle.datetime.now for find) and '
        'context.git_rev = c<event index> stamped per event through the event source',
    )
    ctx.assume(
        'all completion times are UTC datetimes (schedule.complete uses '
        'datetime.now(UTC)); the day directory is the UTC date of the entry',
        'the chronicles tree is only written by chronicle.append (no stray '
        'directories), one appender at a time, no crash inside the JSON rewrite',
        'Twisted delivers callbacks of one reactor atomically: a reply is handled (and its entry '
        'written) as one step; the clock is read once per reply (schedule.complete)',
    )
    fp = {}
    fp.update(core.fingerprint('Python/dawgie/pl/logger/chronicle.py',
                               ['_load', '_most_recent_first', 'append', 'find']))
    fp.update(core.fingerprint('Python/dawgie/pl/schedule.py', ['complete']))
    fp.update(core.fingerprint('Python/dawgie/fe/api/__init__.py', ['df_model_statistics']))
    fp.update({'api.' + k: v for k, v in core.fingerprint(
        'Python/dawgie/fe/api/schedule.py', ['failed', 'succeeded']).items()})
    fp.update({'farm.' + k: v for k, v in core.fingerprint(
        'Python/dawgie/pl/farm.py', ['Hand._res']).items()})
    fp.update({'farm.' + k: v for k, v in core.fingerprint(
        'Python/dawgie/pl/farm.py', ['Hand._translate']).items()})
    fp.update({'schedule.' + k: v for k, v in core.fingerprint(
        'Python/dawgie/pl/schedule.py', ['find']).items()})
    ctx.note('fingerprints', fp)
    escalate = fp != EXPECTED_FP
    ctx.note('escalated_by_fingerprint', escalate)
    deep = escalate or not ctx.quick
    rng = random.Random('%s:C18' % ctx.seed)

    ncase = 220 if deep else 40
    nq = 24 if deep else 14
    cases = [WITNESS] + [gen_case(rng, nq, big=deep and i % 4 == 0) for i in range(ncase)]
    if ctx.replay and json.load(open(ctx.replay)).get('study') == 'schedchron':
        # a replay of the composition study (scheduler history x real chronicle)
        R = json.load(open(ctx.replay))
        ctx.note('replayed', ctx.replay)
        ctx.count(evaluations=1, nontrivial_keys=[('replay', 1), ('replay', 2)])
        if ctx.coq_props()['ok'] and 'clock' in R.get('case', {}):
            composition_study(ctx, deep, replay_case=R['case'])
        return
    if ctx.replay:
        # re-execute the single case of a replay file through the same pipeline
        R = json.load(open(ctx.replay))
        cases = [R['case'], R['case']]
        ctx.note('replayed', ctx.replay)
        ctx.count(evaluations=1, nontrivial_keys=[('replay', 1), ('replay', 2)])
    impl = ctx.harness('drive_chron.py', {'cases': cases})['cases']

    found = []

    def viol(kind, fields, what, replay):
        found.append(kind)
        ctx.violation(kind, fields, what, dict(replay, source='oracle'))

    hist = {'window': 0, 'before_limit': 0, 'limit_only': 0, 'after_only': 0, 'after_limit': 0,
            'nonpositive_limit': 0, 'no_argument': 0, 'bounds_not_midnight': 0, 'multi_day': 0,
            'cross_month': 0, 'cross_year': 0, 'tied_keys': 0, 'empty_answer': 0,
            'via_complete': 0, 'files_with_2plus': 0}
    nontrivial = []
    obs = []          # per case: (files, answers) canonical, for the diff
    for ci, (case, res) in enumerate(zip(cases, impl)):
        appends = case['appends']
        byid = {a['id']: a for a in appends}
        rep0 = {'case': case, 'theorem': 'C18_append_once'}
        # ---- oracle: every append adds exactly one copy, nothing else changes ----
        want_files = {}
        total = 0
        for a, (rel, content, count) in zip(appends, res['after_each']):
            key = '%04d/%02d/%02d/%d.json' % (a['completed'][0], a['completed'][1], a['completed'][2], a['runid'])
            want_files.setdefault(key, []).append(a['id'])
            total += 1
            hist['via_complete'] += a['via'] == 'complete'
            if content != want_files[key] or count != total:
                kind = 'append-lost' if count < total or (content or []) != want_files[key] else 'append-dup'
                viol(kind, {'via': a['via']},
                     'after appending entry %d (%s) file %s holds %r (expected %r), journal holds %d entries (expected %d)'
                     % (a['id'], a['via'], key, content, want_files[key], count, total),
                     dict(rep0, step=a['id'], theorem='C18_append_once / C18_complete_once'))
                break
        if res['files'] != want_files and 'append-lost' not in found and 'append-dup' not in found:
            viol('append-lost', {'via': 'final'}, 'journal files %r, expected %r' % (res['files'], want_files), rep0)
        hist['files_with_2plus'] += sum(len(v) > 1 for v in want_files.values())
        for a in appends:
            e = res['entries'].get(str(a['id']))
            if e is None:
                continue
            got_t = dt.datetime.fromisoformat(e['completed'])
            if (e['runid'], e['status'], e['target'], e['task']) != (a['runid'], a['status'], a['target'], a['task']) \
                    or got_t != mkdt(a['completed']) \
                    or e['keys'] != ['changeset', 'runid', 'status', 'target', 'task', 'timing', 'version']:
                viol('append-content', {'via': a['via']},
                     'entry %d recorded as %r, given %r' % (a['id'], e, a),
                     dict(rep0, step=a['id'], theorem='C18_complete_once'))
                break
        daysset = {tuple(a['completed'][:3]) for a in appends}
        keys = [skey(a) for a in appends]
        tied = len(set(keys)) < len(keys)
        # ---- oracle: queries ----
        answers = []
        for qi, (q, ans) in enumerate(zip(case['queries'], res['answers'])):
            rep = {'case': {'appends': appends, 'queries': [q]}, 'query': q,
                   'theorem': 'C18_window / C18_newest'}
            if q.get('kind') == 'stats':
                hist['stats'] = hist.get('stats', 0) + 1
                rep['theorem'] = 'C18_stats'
                if 'exc' in ans:
                    answers.append(('exc', ans['exc']))
                    viol('find-exception', {'exception': ans['exc'], 'via': 'df_model_statistics'},
                         'df_model_statistics(%r) raises %s: %s' % (q['node'], ans['exc'], ans.get('msg')), rep)
                    continue
                c = ans['stats']
                if c and set(c) == {'date', 'runid', 'status'} and c['status'] in ('succeeded', 'failed', 'both'):
                    got_s = ((dt.datetime.fromisoformat(c['date']) - EPOCH) // dt.timedelta(microseconds=1),
                             c['runid'], {'succeeded': 0, 'failed': 1, 'both': 2}[c['status']])
                elif c == {}:
                    got_s = None
                else:
                    got_s = ('other', json.dumps(c, sort_keys=True))
                answers.append(('stats', got_s))
                want_s = spec_stats(appends, q['node'], ticks(q['boot']), ticks(q['now']))
                if want_s is not None:
                    hist['stats_nonempty'] = hist.get('stats_nonempty', 0) + 1
                if got_s != want_s:
                    viol('stats-wrong', {'lost_entries': want_s is not None and got_s is None},
                         'df_model_statistics(%r) [boot=%s now=%s] reports %r, the recorded history says %r'
                         % (q['node'], mkdt(q['boot']).isoformat(), mkdt(q['now']).isoformat(), got_s, want_s),
                         dict(rep, expected=want_s, observed=got_s))
                continue
            if q.get('kind') == 'api':
                hist['api'] = hist.get('api', 0) + 1
                q = dict(q, after=None, succeeded=q['which'] == 'succeeded')
            A, B, L = q['after'], q['before'], q['limit']
            if 'exc' in ans:
                answers.append(('exc', ans['exc']))
                if A is None and B is None and L is None and ans['exc'] == 'ValueError':
                    hist['no_argument'] += 1
                    continue
                viol('find-exception', {'exception': ans['exc']},
                     'find(%s) raises %s: %s' % (json.dumps(q), ans['exc'], ans.get('msg')), rep)
                continue
            got = ans['ok']
            answers.append(('ok', got))
            hist['empty_answer'] += not got
            hist['relabelled'] = hist.get('relabelled', 0) + bool(q.get('relabel'))
            if not set(ans.get('labels', [])) <= {'success' if q['succeeded'] else 'failure'}:
                viol('find-foreign', {'labels': True},
                     'find(%s) hands out entries whose status reads %r (the journal records success/failure/invalid)'
                     % (json.dumps(q), ans['labels']), rep)
                continue
            if A is None and B is None and L is None:
                viol('find-no-argument', {}, 'find() with no argument returned %r' % (got,), rep)
                continue
            lo = ticks(A) if A is not None else 0
            hi = ticks(B) if B is not None else ticks(q['now'])
            full = spec_window(appends, lo, hi, q['succeeded'])
            fullkeys = [skey(a) for a in full]
            if any(g not in byid for g in got) or len(set(got)) != len(got):
                viol('find-foreign', {}, 'find(%s) returns unknown or repeated entries %r' % (json.dumps(q), got), rep)
                continue
            gotkeys = [skey(byid[g]) for g in got]
            if A is not None and B is not None:
                kind = 'window'
                want = fullkeys
                exact_ids = sorted(a['id'] for a in full)
            elif A is None:
                kind = 'limit_only' if B is None else 'before_limit'
                if L is not None and L <= 0:
                    hist['nonpositive_limit'] += 1
                    want, exact_ids = [], []
                else:
                    want = fullkeys if L is None else fullkeys[:L]
                    exact_ids = sorted(a['id'] for a in full) if (L is None or L >= len(full)) else None
            elif L is None:
                kind = 'after_only'
                want = fullkeys
                exact_ids = sorted(a['id'] for a in full)
            else:
                # after + limit without before: outside the property statement
                # (see META note); only the correspondence speaks about it
                hist['after_limit'] += 1
                continue
            hist[kind] += 1
            not_midnight = all(x is None or tuple(x[3:]) != (0, 0, 0, 0) for x in (A, B))
            spans = {tuple(byid[a['id']]['completed'][:3]) for a in full}
            if A is not None and B is not None and not_midnight:
                hist['bounds_not_midnight'] += 1
            if len(spans) >= 2:
                hist['multi_day'] += 1
                hist['cross_month'] += len({s[:2] for s in spans}) >= 2
                hist['cross_year'] += len({s[0] for s in spans}) >= 2
            if not_midnight and len(daysset) >= 2 and (A is not None or B is not None):
                nontrivial.append(('c', sorted(keys), lo, hi, L, q['succeeded']))
            hist['tied_keys'] += tied
            bad_status = [g for g in got if byid[g]['status'] != ('success' if q['succeeded'] else 'failure')]
            if gotkeys != want or (exact_ids is not None and sorted(got) != exact_ids) or bad_status:
                missing = [a['id'] for a in full if a['id'] not in got]
                extra = [g for g in got if g not in [a['id'] for a in full]]
                if gotkeys == sorted(gotkeys, reverse=True) and not extra and missing and (L is None or len(got) < L):
                    k, f = 'window-cursor', {'lost_entries': True}
                elif extra:
                    k, f = 'window-filter', {'extra_entries': True}
                elif gotkeys != sorted(gotkeys, reverse=True):
                    k, f = 'window-order', {}
                else:
                    k, f = 'window-limit', {'limit': L is not None}
                viol(k, f, 'find(after=%s, before=%s, limit=%r, succeeded=%r) [now=%s] returns entries %r, expected %r%s'
                     % (A and mkdt(A).isoformat(), B and mkdt(B).isoformat(), L, q['succeeded'],
                        mkdt(q['now']).isoformat(), got, [a['id'] for a in full][:L if (L and A is None) else None],
                        (' (missing %r)' % missing) if missing else ''),
                     dict(rep, expected=[a['id'] for a in full], observed=got))
        obs.append((res['files'], answers))
    ctx.note('query_histogram', hist)

    # ---- PROVE -----------------------------------------------------------------
    r = ctx.coq_props()
    if not r['ok']:
        if not found:
            ctx.broken('theorem/file %s' % r['failing'], r['log'], {'source': 'proof', 'theorem': r['failing']})
        ctx.count(evaluations=sum(len(c['queries']) + len(c['appends']) for c in cases), nontrivial_keys=nontrivial)
        return

    # ---- RUN-MODEL + DIFF ----------------------------------------------------------
    tcode = {n: i for i, n in enumerate(sorted(TARGETS))}
    kcode = {n: i for i, n in enumerate(sorted(TASKS))}
    pre = ('Definition jfiles (j : journal) := map (fun f => (f_day f, f_runid f, map e_id (f_entries f))) j.\n'
           'Definition out (r : result) : list Z := match r with Ok l => 0 :: map e_id l '
           '| ValueError => [1] | OutOfFuel => [2] end.\n'
           'Definition sout (r : option stat) : list Z := match r with None => [2] | Some NoStat => [3] '
           '| Some (Stat d r s) => [4; d; r; s] end.\n')
    exprs = []
    for ci, case in enumerate(cases):
        jdef = 'fold_left Chron.append [%s] []' % '; '.join(coq_entry(a, tcode, kcode) for a in case['appends'])
        qs = []
        for q in case['queries']:
            if q.get('kind') == 'stats':
                qs.append('sout (Chron.stats greg j %s %s %s)' % (
                    core.to_coq(ticks(q['boot'])), core.to_coq(ticks(q['now'])),
                    core.to_coq(kcode.get(node_of(q['node']), 99))))
                continue
            if q.get('kind') == 'api':
                q = dict(q, after=None, succeeded=q['which'] == 'succeeded')
            qs.append('out (Chron.find greg j %s %s %s %s %s)' % (
                coq_opt(None if q['after'] is None else ticks(q['after'])),
                coq_opt(None if q['before'] is None else ticks(q['before'])),
                coq_opt(q['limit']), 'true' if q['succeeded'] else 'false',
                core.to_coq(ticks(q['now']))))
        exprs.append('let j := %s in (jfiles j, [%s])' % (jdef, '; '.join(qs)))
    mres = ctx.coq_eval(['DV.Model.Chron'], exprs, preamble=pre, chunk=6)
    mism = None
    for ci, (case, (mfiles, mans), (ifiles, ians)) in enumerate(zip(cases, mres, obs)):
        mf = {}
        for d, rid, ids in mfiles:
            date = dt.date(1980, 1, 1) + dt.timedelta(days=d)
            mf['%04d/%02d/%02d/%d.json' % (date.year, date.month, date.day, rid)] = ids
        if mf != ifiles:
            mism = (ci, 'journal files', mf, ifiles, None)
            break
        for qi, (m, o) in enumerate(zip(mans, ians)):
            mo = (('ok', m[1:]) if m[0] == 0 else ('exc', 'ValueError') if m[0] == 1 else ('fuel', None)
                  if m[0] == 2 else ('stats', None) if m[0] == 3 else ('stats', tuple(m[1:])))
            if mo != o:
                mism = (ci, 'find', mo, o, case['queries'][qi])
                break
        if mism:
            break
    if mism and not found:
        ci, what, mo, o, q = mism
        ctx.broken('correspondence: chronicle %s vs Model.Chron' % what,
                   'query=%s model=%r python=%r' % (json.dumps(q), mo, o),
                   {'source': 'correspondence', 'case': {'appends': cases[ci]['appends'],
                                                         'queries': [q] if q else []},
                    'expected': mo, 'observed': o})
    ctx.count(evaluations=sum(len(c['queries']) + len(c['appends']) for c in cases),
              nontrivial_keys=nontrivial)
    # ---- COMPOSITION with the scheduler (Model/SchedChron.v) ---------------------
    if not found and not ctx.replay:
        sc_nontrivial, sc_hist = composition_study(ctx, deep)
        ctx.count(evaluations=sc_hist['events'] + sc_hist['queries'], nontrivial_keys=sc_nontrivial)
    ctx.sample({'appends': cases[1]['appends'][:3], 'query': cases[1]['queries'][0],
                'answer': impl[1]['answers'][0]})
    ctx.sample({'witness_answers': impl[0]['answers']})
    ctx.note('observed_outside_statement',
             'find(after, limit) without before returns the oldest `limit` entries of the newest '
             'days walked (docstring rule 2 promises the entries closest to `after`); modelled as '
             'is, not part of the property statement; %d such queries compared with the model'
             % hist['after_limit'])


EXPECTED_FP = {
    '_load': 'e2b2fb54651fbe0c',
    '_most_recent_first': 'b8b1591c18b551ce',
    'append': '75ce4516c0903a1d',
    'complete': 'fb12116b841dc480',
    'find': '88671a5e0c5a331e',
    'api.failed': '1a70414eaef554b4',
    'api.succeeded': '1a1dcc843bc5a858',
    'df_model_statistics': 'deef049c933606b0',
    'farm.Hand._res': 'a4e0a9cdcdd6f358',
    'farm.Hand._translate': 'c036f92d5de77b2b',
    'schedule.find': '2f9745f0f1b37a1a',
}
