'''C19 -- The front end never serves files outside its roots nor commands to
strangers.

Static half: Model/Static.v mirrors fe._static (repaired tree) with the OS as
Section oracles; containment is proved for all oracles (Props/C19.v).  The
tie: the real _static runs on real directory trees (symlinks in/out, `..`,
encoded and absolute segments, long names, NUL, loops); every answer of the
OS during a request is recorded and becomes the finite oracle of the model
for that request; the outcomes (served file / refusal text / exception) must
agree byte for byte.  The property oracle works on the implementation alone
with os.path.realpath ground truth.

Access half: Gen/AccessTable.v (allow-list, decision function, HttpMethod,
the 54 registrations with effect markers) is regenerated from the source on
every run; theorems over it; the real render path is driven for every
registered endpoint x verb x certificate situation x hook x configuration and
compared with the model; the oracle looks at handler invocations only.
'''
import itertools
import os
import random

from vlib import core
from props import c19_source

PID = 'C19'
GENERATORS = [('endpoints2coq.py', 'Gen/AccessTable.v'), ('security2coq.py', 'Gen/SecurityGen.v'),
              ('static2coq.py', 'Gen/StaticGen.v')]
META = {
    'text': 'Coq: fe._static modelled function-for-function with the operating system (Path.resolve/is_dir/is_file, each may raise) as unconstrained Section oracles; proved for ALL oracles, request strings and roots: whatever is served is the very path that was checked, is a prefix-extension of a resolved root and a regular file (C19_contained), and files inside a root are served (non-vacuity). Access: allow-list, is_sanctioned decision and the endpoint registrations are regenerated from the Python source on every run (fail-closed translator, effect markers per handler); proved: an anonymous caller with certificates configured can only invoke allow-listed endpoints, those are GET-only, non-command, effect-free; a raising/missing hook denies; denied never invokes. Source tie by translation: fe._static up to `if found:` (the loop with continue / break / raising OS calls, static2coq.py -> Gen/StaticGen.v) is regenerated on every run and PROVED equal to Model/Static.v for all oracles, so containment holds of the generated function itself (C19_static_is_source, C19_contained_is_source); (security2coq.py on pyfrag): security.is_sanctioned / sanctioned / identity, DynamicContent.__init__ (methods default), __render (certificate extraction, check BEFORE the handler, method test) and the render_<VERB> table are regenerated from the source on every run (Gen/SecurityGen.v) and PROVED equal to Model/Access.v / Gen/AccessTable.v for all arguments (C19_*_is_source); the generated definitions are validated on every run against the real functions and the real render path. Tied to the real code by correspondence on real directory trees with recorded OS answers and by driving every endpoint x verb x certificate x hook through the real twisted render path.',
    'note': 'Trusted: Coq kernel; static2coq.py translator (dedicated walker; pathlib lexical operations are those of Static.v; `if found:` pinned by text); security2coq.py translator (+ pyfrag.py, pyfrag_fx.py; what stands for the hook lookup, the peer certificate and the pinned bookkeeping statements of __render is declared at the top of the script); endpoints2coq.py translator (validated each run against the runtime resource tree: uris, methods, handler identities, routing); the recorder wrappers around pathlib.Path.resolve/is_dir/is_file; the fake twisted request/transport; canonical Path.resolve (OS). Not covered: Twisted URL decoding before render; the style-sheet inlining of the deprecated site after a file was accepted; TOCTOU between check and open. No axioms.',
    'technique': 'Coq proof (all oracles) + source-generated tables + access decision translated from the source and proved equal to the model + model/implementation correspondence + implementation-only oracle',
}

COMMANDS = {'/api/cmd/run', '/api/cmd/reset', '/api/cmd/snapshot',
            '/api/rev/submit', '/app/run', '/app/reset', '/app/submit',
            '/app/snapshot'}
# normalised-ast fingerprints of the hand-modelled functions on the tree the
# model was written against; a difference escalates the run to thorough depth
PINNED = {'_static': '9cfc770c053e0319', 'DynamicContent': '33e8006bdb6770cc', 'BaseResource': 'a1310e8ecd8fb85c', 'HttpMethod': 'fe3774335c0b4b0e', 'is_sanctioned': '2e0db9f753edc4bb', 'sanctioned': '744f3e12964d1419', '_lookup': 'bcd966bc513a1cdf', 'clients': '46fd50de5b6e1a12'}
PREFIX = b'Error: could not find static files '
VERBS = ['GET', 'POST', 'PUT', 'DELETE', 'HEAD', 'OPTIONS', 'PATCH', 'get']
VERB_COQ = {'GET': 'V_GET', 'POST': 'V_POST', 'PUT': 'V_PUT',
            'DELETE': 'V_DELETE', 'HEAD': 'V_HEAD'}
HOOK_COQ = {
    'default': '(default_hook %(clients)s)',
    'lookup-raises': 'None',
    'attr-missing': 'None',
    'not-callable': '(Some (fun _ _ => None))',
    'hook-raises': '(Some (fun _ _ => None))',
    'deny': '(Some (fun _ _ => Some false))',
    'allow': '(Some (fun _ _ => Some true))',
    'none': '(Some (fun _ _ => Some false))',
    'truthy': '(Some (fun _ _ => Some true))',
    'only-ae-name': '(Some (fun e _ => Some (String.eqb e "/api/ae/name")))',
    'cert-only': '(Some (fun _ c => Some (negb (is_anon c))))',
    'raise-for-anon': '(Some (fun _ c => if is_anon c then None else Some true))',
}
DENYING = {'lookup-raises', 'attr-missing', 'not-callable', 'hook-raises',
           'deny', 'none'}


# ---------------------------------------------------------------------------
# static half: trees and requests
# ---------------------------------------------------------------------------
LONG = 'L' * 300


def trees(ctx):
    main_ops = [
        ['file', 'r1/a.txt', 'IN:r1/a.txt'],
        ['file', 'r1/d/index.html', 'IN:r1/d/index.html'],
        ['file', 'r1/d/x.css', 'IN:r1/d/x.css'],
        ['dir', 'r1/e'],
        ['file', 'r1/deep/q/z.js', 'IN:r1/deep/q/z.js'],
        ['file', 'r1/w/index.html/inner.txt', 'IN:r1/w/index.html/inner.txt'],
        ['file', 'r1/..hidden', 'IN:r1/..hidden'],
        ['file', 'r1/%2e%2e', 'IN:r1/%2e%2e'],
        ['file', 'r1/sp ace/éж.svg', 'IN:r1/space/unicode.svg'],
        ['file', 'r2/b.txt', 'IN:r2/b.txt'],
        ['file', 'r2/a.txt', 'IN:r2/a.txt(shadowed)'],
        ['file', 'r2/d2/index.html', 'IN:r2/d2/index.html'],
        ['file', 'r2/only2.svg', 'IN:r2/only2.svg'],
        ['file', 'r2/e/index.html', 'IN:r2/e/index.html'],
        ['file', 'out/secret.txt', 'SECRET:out/secret.txt'],
        ['file', 'out/dir/index.html', 'SECRET:out/dir/index.html'],
        ['file', 'out/dir/f.txt', 'SECRET:out/dir/f.txt'],
        ['file', 'r1x/evil.txt', 'SECRET:r1x/evil.txt'],   # sibling sharing the name prefix
        ['link', 'r1/ln_in', 'a.txt'],
        ['link', 'r1/ln_out', '../out/secret.txt'],
        ['link', 'r1/lnd_out', '../out/dir'],
        ['link', 'r1/lnd_in', 'd'],
        ['link', 'r1/idxout/index.html', '../../out/secret.txt'],
        ['link', 'r1/to_r2', '../r2/b.txt'],
        ['link', 'r2/to_r1', '../r1/a.txt'],
        ['link', 'r2/ln_out2', '{BASE}/out/secret.txt'],
        ['link', 'r1/abs_out', '{BASE}/out/secret.txt'],
        ['link', 'r1/abs_in', '{BASE}/r1/d/x.css'],
        ['link', 'r1/loop', 'loop'],
        ['link', 'r1/dangling', 'nowhere/at/all'],
        ['link', 'r1/up', '..'],
        ['link', 'r1/lnidx/index.html', '../d/x.css'],
        ['link', 'r1/sib', '../r1x'],
    ]
    core_pool = ['..', '.', '', 'd', 'ln_out', 'lnd_out', 'a.txt', 'out',
                 'secret.txt', 'r2', 'up', 'index.html']
    ts = [
        {'name': 'main', 'ops': main_ops, 'fe': 'r1', 'bd': 'r2', 'isdep': False,
         'core': core_pool},
        # deprecated-site flag: plain files and html without links/markers
        {'name': 'isdep', 'ops': main_ops, 'fe': 'r1', 'bd': 'r2', 'isdep': True,
         'core': ['..', 'd', 'ln_out', 'a.txt', 'idxout', 'out']},
        # nested roots and a root given through a symlink / with dot-dot
        {'name': 'nested', 'ops': main_ops + [['link', 'rl', 'r1/deep']],
         'fe': 'rl', 'bd': 'r1/d/../../r1', 'isdep': False,
         'core': ['..', 'q', 'z.js', 'd', 'a.txt', 'ln_out', 'deep', 'r1']},
        # first root missing, second root is the outside's parent
        {'name': 'missing-root', 'ops': main_ops, 'fe': 'nonexistent/root',
         'bd': 'r2', 'isdep': False,
         'core': ['..', 'b.txt', 'to_r1', 'ln_out2', 'r1', 'a.txt']},
        # both roots identical
        {'name': 'same-root', 'ops': main_ops, 'fe': 'r1', 'bd': 'r1',
         'isdep': False, 'core': ['..', 'd', 'ln_out', 'sib', 'evil.txt', 'r1x']},
    ]
    return ts


def tree_names(t):
    names = set()
    for op in t['ops']:
        for part in op[1].split('/'):
            names.add(part)
    return sorted(names)


def requests_for(ctx, t, k):
    rng = random.Random('%s:static:%s' % (ctx.seed, t['name']))
    names = tree_names(t)
    special = ['', '.', '..', '...', '%2e%2e', '%2E%2E', '..%2f', '%2f', '~',
               ' ', 'index.html', 'é', 'жж', '..;', '. ',
               'r1', 'r2', 'out', 'r1x', 'secret.txt']
    reqs = []
    # directed
    reqs += ['', '/', '//', '/.', '/..', '/../', '/../out/secret.txt',
             '/../../../../../../../../etc/hostname', '//etc/hostname',
             '/etc/hostname', '{BASE}/out/secret.txt', '/{BASE}/out/secret.txt',
             '/%2e%2e/out/secret.txt', '/..%2fout%2fsecret.txt',
             '/ln_out', '/lnd_out', '/lnd_out/', '/lnd_out/f.txt',
             '/lnd_out/index.html', '/idxout', '/idxout/', '/idxout/index.html',
             '/abs_out', '/abs_in', '/loop', '/loop/x', '/dangling', '/up',
             '/up/out/secret.txt', '/up/r1/a.txt', '/up/r2/b.txt', '/to_r2',
             '/to_r1', '/ln_out2', '/d', '/d/', '/d/.', '/d/..', '/d/../a.txt',
             '/d/../../out/secret.txt', '/e', '/w', '/w/', '/lnidx', '/sib',
             '/sib/evil.txt', '/../r1x/evil.txt', '/..hidden', '/%2e%2e',
             '/sp ace/éж.svg', '/a.txt?x=1', '/a.txt#frag',
             '/a.txt/', '/a.txt/.', '/a.txt/..', '/a.txt/../a.txt', '/' + LONG,
             '/d/' + LONG + '/..', '/a\x00b', '/\x00', '/ln_in', '/lnd_in',
             '/lnd_in/x.css', '/deep/q/z.js', '/deep/q/../q/z.js',
             '/deep//q///z.js', '/./deep/./q/./z.js', '/b.txt', '/only2.svg',
             '/d2', '/q/z.js', '/q/../../a.txt', '/z.js', '/../deep/q/z.js',
             '/../../r1/a.txt', '/r1/a.txt', '/evil.txt', '/b.txt/../to_r1']
    # exhaustive small scope over the core pool
    depth = 2 if ctx.quick and not ctx.extra.get('escalated') else 3
    for n in range(1, depth + 1):
        for combo in itertools.product(t['core'], repeat=n):
            reqs.append('/' + '/'.join(combo))
    # random
    pool = names + special
    for _ in range(k):
        n = rng.randint(0, 6)
        segs = [rng.choice(pool if rng.random() < 0.8 else t['core'])
                for _ in range(n)]
        s = '/' * rng.choice([0, 1, 1, 1, 2, 3]) + '/'.join(segs)
        r = rng.random()
        if r < 0.15:
            s += '/'
        elif r < 0.2:
            s += '?q=' + rng.choice(['1', '../x', '/'])
        reqs.append(s)
    seen, out = set(), []
    for r in reqs:
        if r not in seen:
            seen.add(r)
            out.append(r)
    return out


def nontrivial_static(fn):
    return ('..' in fn or '%' in fn or 'ln' in fn or 'idxout' in fn
            or fn.lstrip('/').startswith(('{BASE}', 'etc')) or 'up' in fn
            or 'sib' in fn or 'to_r' in fn or 'abs_' in fn)


STATIC_PRE = (
    'Require Import NArith. Open Scope N_scope.\n'
    '(* literals are written as binary N and converted inside vm_compute: nat\n'
    '   numerals are expensive to parse *)\n'
    'Definition S_ (l : list N) : list nat := map N.to_nat l.\n'
    'Definition P_ (l : list (list N)) : path := map S_ l.\n'
)


def cp(path, base=None, tag=''):
    '''list of parts (code points) -> Gallina path; parts under the tree's base
    directory are written relative to the constant B_'''
    def lit(ps):
        return '[' + ';'.join('[' + ';'.join(str(c) for c in part) + ']'
                              for part in ps) + ']'
    if base is not None and path[:len(base)] == base:
        return '(U_%s %s)' % (tag, lit(path[len(base):]))
    return '(P_ %s)' % lit(path)


def path_str(path):
    return '/' + '/'.join(''.join(chr(c) for c in part) for part in path)


def under_real(root, p):
    root = root.rstrip('/') or '/'
    return p == root or p.startswith(root + '/') or root == '/'


def static_half(ctx, only=None):
    ts = trees(ctx)
    if only:
        ts = [t for t in ts if t['name'] == only[0]]
    nreq = ctx.n(120, 1000)
    if ctx.extra.get('escalated'):
        nreq = 1000
    pay = {'trees': []}
    for t in ts:
        pay['trees'].append({'name': t['name'], 'ops': t['ops'], 'fe': t['fe'],
                             'bd': t['bd'], 'isdep': t['isdep'],
                             'requests': ([only[1]] if only
                                          else requests_for(ctx, t, nreq))})
    out = ctx.harness('drive_static.py', pay)
    ctx.log('static driver done: %d requests' % sum(len(t['requests']) for t in out['trees']))
    per_tree = {}
    hist = {}
    viol0 = ctx.nviol
    big = 0
    for tr in out['trees']:
        files = tr['files']
        roots = [tr['real_fe'], tr['real_bd']]
        for rq in tr['requests']:
            fn, obs, rec = rq['fn'], rq['obs'], rq['rec']
            # ---- property oracle on the implementation alone -------------
            kind = None
            if 'bytes' in obs:
                b = obs['bytes'].encode('latin-1')
                if b.startswith(PREFIX):
                    kind = 'refused'
                else:
                    owners = [p for p, c in files.items() if c.encode() == b]
                    inside = [p for p in owners
                              if any(under_real(r, p) for r in roots)]
                    if not owners or not inside:
                        ctx.violation(
                            'static-jailbreak', {'tree': tr['name']},
                            '_static(%r) with roots %s returned %r which is not the '
                            'content of a regular file inside a root (owners: %s)'
                            % (fn, [t0 for t0 in (tr['fe_str'], tr['bd_str'])],
                               b[:60], [os.path.relpath(o, tr['base']) for o in owners]),
                            {'source': 'oracle', 'theorem': 'C19_contained',
                             'tree': tr['name'], 'request': fn,
                             'observed': obs['bytes'][:200]})
                    kind = 'served'
                for p, c in files.items():
                    if c.startswith('SECRET') and c.encode() in b:
                        ctx.violation(
                            'static-jailbreak', {'tree': tr['name']},
                            '_static(%r) leaked the outside file %s'
                            % (fn, os.path.relpath(p, tr['base'])),
                            {'source': 'oracle', 'theorem': 'C19_contained',
                             'tree': tr['name'], 'request': fn})
            else:
                kind = 'exc:' + obs['exc']
            # completeness (non-vacuity on the implementation): a plain file
            # really inside a root must be served
            rel = fn.lstrip('/')
            if '\x00' not in rel and len(rel) < 200:
                for r in roots:
                    cand = os.path.normpath(os.path.join(r, rel))
                    # only the unambiguous case: no symlink and no dot-dot on the way
                    if '..' in rel.split('/') or not under_real(r, cand):
                        break
                    if cand in files and os.path.realpath(cand) == cand:
                        if obs.get('bytes') != files[cand]:
                            ctx.violation(
                                'static-not-served', {'tree': tr['name']},
                                '_static(%r) did not serve the regular file %s of its root'
                                % (fn, os.path.relpath(cand, tr['base'])),
                                {'source': 'oracle', 'theorem': 'C19_serves_inside',
                                 'tree': tr['name'], 'request': fn, 'observed': obs})
                        break
                    if cand + '/index.html' in files or any(
                            f.startswith(cand + '/') for f in files):
                        break   # a directory: index rules, left to the model
            hist[kind.split(':')[0]] = hist.get(kind.split(':')[0], 0) + 1
            # ---- the model on the recorded oracle -------------------------
            bad_rec = [x for k in rec for x in rec[k] if isinstance(x[0], dict)]
            cps = [c for k in rec for x in rec[k] for part in x[0] for c in part]
            cps += [ord(c) for c in fn]
            if bad_rec or (cps and max(cps) >= 5000):
                big += 1
                continue

            base = [[ord(c) for c in part]
                    for part in tr['base'].strip('/').split('/')]

            def opt(x, f):
                return 'None' if x is None else '(Some %s)' % f(x)

            tag = str([t0['name'] for t0 in out['trees']].index(tr['name']))

            def pb(x):
                return cp(x, base, tag)

            def bl(v):
                return 'true' if v else 'false'

            tres = '[' + ';'.join('(%s,%s)' % (pb(a), opt(b2, pb))
                                  for a, b2, _ in rec['resolve']) + ']'
            tdir = '[' + ';'.join('(%s,%s)' % (pb(a), opt(b2, bl))
                                  for a, b2, _ in rec['is_dir']) + ']'
            tfil = '[' + ';'.join('(%s,%s)' % (pb(a), opt(b2, bl))
                                  for a, b2, _ in rec['is_file']) + ']'
            per_tree.setdefault(tr['name'], (tr, base, [], []))
            # with the source tie: the hand-written model AND the function
            # generated from fe/__init__.py of today, on the same recorded oracle
            # (every 4th request of a tree: the evaluation is dominated by the
            # look-ups in the recorded tables, a second function doubles it)
            per_tree.setdefault(tr['name'], (tr, base, [], []))
            pair = bool(ctx.extra.get('static_gen')) and len(per_tree[tr['name']][2]) % 4 == 0
            rq['gen_pair'] = pair
            head = ('(fun r d f fn a b => (Static.static r d f fn a b, StaticGen.static r d f fn a b))'
                    if pair else 'Static.static')
            per_tree[tr['name']][2].append(
                '%s (tbl_resolve %s) (tbl_bool %s) (tbl_bool %s) (S_ [%s]) %s %s'
                % (head, tres, tdir, tfil, ';'.join(str(ord(c)) for c in fn),
                   pb(tr['fe']), pb(tr['bd'])))
            per_tree[tr['name']][3].append((tr, rq))
    if ctx.nviol > viol0:
        # a concrete failing input is already in hand: the verdict does not
        # need the (expensive) model evaluation
        ctx.note('static_model_skipped', 'oracle found a failing input')
        ctx.count(evaluations=sum(len(v[2]) for v in per_tree.values()),
                  nontrivial_keys=[('static', v[0]['name'], rq['fn'])
                                   for v in per_tree.values() for (_, rq) in v[3]
                                   if nontrivial_static(rq['fn'])])
        ctx.note('static_outcomes', hist)
        return None, 0
    exprs, meta, pre = [], [], STATIC_PRE
    for name, (tr, base, ex, ms) in per_tree.items():
        tag = str([t0['name'] for t0 in out['trees']].index(name))
        pre += 'Definition B_%s : path := %s.\n' % (tag, cp(base))
        pre += ('Definition U_%s (l : list (list N)) : path := B_%s ++ P_ l.\n'
                % (tag, tag))
        exprs += ex
        meta += ms
    with_gen = bool(ctx.extra.get('static_gen'))
    vals = ctx.coq_eval(['DV.Model.Static'] + (['DV.Gen.StaticGen'] if with_gen else []), exprs,
                        preamble=pre, z_scope=False, chunk=90)
    ctx.log('static model evaluated: %d cases' % len(vals))
    mism = None
    keys = []

    def expected(tr, v):
        if v[0] == 'Served':
            p = path_str(v[1])
            return {'bytes': tr['files'].get(p, '<unknown file %s>' % p)}
        if v[0] == 'NotFound':
            b = PREFIX
            for e in v[1]:
                if e[0] == 'Jail':
                    b += b'attempted jail break'
                else:
                    b += os.fsencode(path_str(e[1])) + b'     '
            return {'bytes': b.decode('latin-1')}
        return {'exc': True}
    gen_bad = None
    ngen = 0
    for (tr, rq), v in zip(meta, vals):
        fn, obs = rq['fn'], rq['obs']
        g = None
        if rq.get('gen_pair'):
            v, g = v
            ngen += 1
        exp = expected(tr, v)
        got = {'exc': True} if 'exc' in obs else obs
        if got != exp and mism is None:
            mism = (tr['name'], fn, exp, obs)
        if g is not None and gen_bad is None and expected(tr, g) != got:
            gen_bad = {'tree': tr['name'], 'request': fn, 'generated': expected(tr, g), 'python': obs}
        if nontrivial_static(fn):
            keys.append(('static', tr['name'], fn))
    ctx.count(evaluations=len(vals), nontrivial_keys=keys)
    ctx.note('static_outcomes', hist)
    ctx.note('static_skipped_large_codepoints', big)
    ctx.note('static_trees', [t['name'] for t in ts])
    if with_gen:
        ctx.extra['static_gen_bad'] = gen_bad
        ctx.note('source_tie_static', {'requests_compared': ngen, 'generated_vs_python_mismatch': gen_bad})
    if meta:
        tr, rq = meta[min(2, len(meta) - 1)]
        ctx.sample({'tree': tr['name'], 'request': rq['fn'],
                    'impl': str(rq['obs'])[:120]})
        for (tr, rq) in meta:
            if rq['fn'] == '/../out/secret.txt':
                ctx.sample({'tree': tr['name'], 'request': rq['fn'],
                            'impl': str(rq['obs'])[:120]})
                break
    return mism, len(vals)


# ---------------------------------------------------------------------------
# access half
# ---------------------------------------------------------------------------
def access_half(ctx, gen_ok):
    hooks = list(HOOK_COQ)
    out = ctx.harness('drive_access.py',
                      {'verbs': VERBS, 'hooks': hooks, 'extra_paths': True})
    eps = out['endpoints']
    ctx.extra['access_out'] = out
    ctx.log('access driver done')
    uris = [e['uri'] for e in eps]
    # ---- oracle on the implementation alone --------------------------------
    ninv = 0
    for row in out['rows']:
        anon = not (row['has_gpc'] and row['cert'])
        for uri, outs in row['table'].items():
            for verb, o in zip(VERBS, outs):
                if o.startswith('Other'):
                    ctx.broken('access driver: unclassified response',
                               '%s %s %s -> %s' % (row, uri, verb, o),
                               {'source': 'correspondence'})
                if o != 'Invoked':
                    continue
                ninv += 1
                rep = {'source': 'oracle', 'uri': uri, 'verb': verb,
                       'clients': row['clients'], 'hook': row['hook'],
                       'has_gpc': row['has_gpc'], 'cert': row['cert']}
                if row['hook'] in DENYING:
                    ctx.violation(
                        'hook-failure-open', {'hook': row['hook']},
                        'handler of %s ran although the access hook %s denies/raises'
                        % (uri, row['hook']), dict(rep, theorem='C19_fail_closed'))
                if row['hook'] == 'raise-for-anon' and anon:
                    ctx.violation(
                        'hook-failure-open', {'hook': row['hook']},
                        'handler of %s ran although the hook raised for the anonymous caller'
                        % uri, dict(rep, theorem='C19_fail_closed'))
                if row['hook'] == 'default' and row['clients'] and anon:
                    if uri in COMMANDS or verb not in ('GET', 'HEAD'):
                        ctx.violation(
                            'anonymous-command', {'uri': uri},
                            'anonymous caller (client certificates configured) made '
                            'the handler of %s run with %s' % (uri, verb),
                            dict(rep, theorem='C19_anonymous_registered'))
    for e in out['extra']:
        bad = [u for u in e['ran'] if u in COMMANDS]
        if bad:
            ctx.violation('anonymous-command', {'uri': bad[0]},
                          'anonymous request for %r ran the command handler %s'
                          % (e['path'], bad[0]),
                          {'source': 'oracle', 'path': e['path'],
                           'theorem': 'C19_anonymous_registered'})
    ctx.note('access_requests', sum(len(r['table']) * len(VERBS) for r in out['rows']))
    ctx.note('access_invocations', ninv)
    ctx.note('endpoints', len(eps))
    if not gen_ok:
        return None, 0
    # ---- translator validation: generated table vs the running tree --------
    gen = ctx.coq_eval(
        ['DV.Gen.AccessTable', 'DV.Model.Access'],
        ['map (fun r => (r_uri r, r_handler r, eff_methods (r_methods r))) registered',
         'all_access'], z_scope=False)
    table, allow = gen
    gmap = {u: (h, [m[0][2:] for m in ms]) for (u, h, ms) in table}
    imap = {e['uri']: (e['handler'], e['methods']) for e in eps}
    if gmap != imap or any(not e['routed'] or e['uri'] != e['registered_uri'] for e in eps):
        diff = sorted(k for k in set(gmap) | set(imap) if gmap.get(k) != imap.get(k))
        return ('translator', 'generated registrations differ from the running '
                'resource tree at %s: generated=%s runtime=%s'
                % (diff[:3], [gmap.get(k) for k in diff[:3]],
                   [imap.get(k) for k in diff[:3]])), 0
    # ---- model vs implementation, every cell --------------------------------
    exprs, cells = [], []
    order = [u for (u, _, _) in table]
    for row in out['rows']:
        h = HOOK_COQ[row['hook']] % {'clients': 'true' if row['clients'] else 'false'}
        tc = '(Some 1)' if row['cert'] else 'None'
        has = 'true' if row['has_gpc'] else 'false'
        exprs.append(
            'map (fun r => map (fun v => request (A:=nat) %s %s %s r v) '
            '[V_GET; V_POST; V_PUT; V_DELETE; V_HEAD; V_OTHER]) registered'
            % (h, has, tc))
        cells.append(row)
    vals = ctx.coq_eval(['DV.Gen.AccessTable', 'DV.Model.Access'], exprs,
                        z_scope=False)
    mism = None
    n = 0
    keys = []
    for row, v in zip(cells, vals):
        for uri, mouts in zip(order, v):
            m6 = [x[0] for x in mouts]
            exp = m6[:5] + [m6[5]] * (len(VERBS) - 5)
            got = row['table'][uri]
            n += len(got)
            if got != exp and mism is None:
                mism = ('access', 'clients=%s hook=%s has_gpc=%s cert=%s uri=%s: '
                        'implementation %s, model %s'
                        % (row['clients'], row['hook'], row['has_gpc'],
                           row['cert'], uri, got, exp))
            if row['clients'] and not (row['has_gpc'] and row['cert']):
                keys.append(('access', row['hook'], row['has_gpc'], row['cert'], uri))
    ctx.count(evaluations=n, nontrivial_keys=keys)
    ctx.sample({'access': 'clients configured, anonymous, default hook',
                '/api/ae/name': [r for r in out['rows'] if r['clients']
                                 and r['hook'] == 'default' and not r['cert']
                                 and r['has_gpc']][0]['table']['/api/ae/name'],
                '/api/cmd/run': [r for r in out['rows'] if r['clients']
                                 and r['hook'] == 'default' and not r['cert']
                                 and r['has_gpc']][0]['table']['/api/cmd/run'],
                'verbs': VERBS})
    ctx.note('allow_list_size', len(allow))
    return mism, n


def replay(ctx, rp):
    '''./check C19 --replay F : re-execute the recorded request on the real code
    (static: the named tree and request string; access: the whole endpoint x
    verb x hook table, it is cheap) and evaluate the oracle.'''
    if 'tree' in rp and 'request' in rp:
        ctx.coq_build(['Model/Static.vo'])
        mism, n = static_half(ctx, only=(rp['tree'], rp['request']))
        ctx.log('replay: tree %s request %r evaluated (%d case)' % (rp['tree'], rp['request'], n))
        if mism:
            ctx.broken('correspondence fe._static: tree %s request %r' % mism[:2],
                       'model expects %s\nimplementation %s' % (mism[2], mism[3]),
                       {'source': 'correspondence'})
    elif 'uri' in rp or 'path' in rp:
        access_half(ctx, False)
    else:
        # the file names a proof / correspondence obligation: the full check
        return run(ctx)
    ctx.level = 'other'   # a replay is not a proof run; the next normal run rewrites the evidence
    ctx.note('replay', ctx.replay)
    ctx.count(evaluations=1, nontrivial_keys=[('replay', 1), ('replay', 2)])


# ---------------------------------------------------------------------------
def run(ctx):
    ctx.cov['rule'] = (
        'static: (directory tree with symlinks in/out, roots incl. nested/'
        'missing/symlinked/identical) x request string (directed list + every '
        'sequence of <=2 (quick) / <=3 (thorough) segments over a core pool + '
        'seeded random), real _static vs model on the recorded OS answers; '
        'non-trivial = the request contains .., an encoded segment, a symlink '
        'name or an absolute path.  access: every registered endpoint x 8 verbs '
        'x 4 certificate situations x 12 hooks x clients configured or not; '
        'non-trivial = anonymous caller with client certificates configured')
    ctx.trust(
        'translator tools/translate/endpoints2coq.py (python ast -> tables and '
        'is_sanctioned decision, fail closed; validated on every run against the '
        'running resource tree: uris, effective methods, handler identity, routing)',
        'recorder wrappers around pathlib.Path.resolve/is_dir/is_file in '
        'drive_static.py (call the original, log the answer); the answers are the '
        'finite oracle handed to the model',
        'fake twisted request/transport objects in drive_access.py; handlers '
        'replaced by recorders',
        'effect markers: a handler is treated as pipeline-changing when its body '
        '(through same-file helpers) mentions organize/wait_for_nothing/ARCHIVE/'
        'grab/... or is a submit.Defer instance (syntactic)',
    )
    ctx.assume(
        'Path.resolve returns the canonical path of its argument (containment is '
        'proved relative to what resolve answered; the check is made on the very '
        'path that is opened)',
        'no file-system change between the check and open(ffn) (TOCTOU not modelled)',
        'twisted routes a request to the registered leaf and dispatches '
        'render_<VERB>; HEAD is served by render_GET (sampled by the driver)',
        'after a file was accepted the deprecated-site branch inlines style '
        'sheets named inside that file from bdir: site content is trusted',
    )
    fps = {}
    fps.update(core.fingerprint('Python/dawgie/fe/__init__.py', ['_static']))
    fps.update(core.fingerprint('Python/dawgie/fe/basis.py',
                                ['DynamicContent', 'BaseResource', 'HttpMethod']))
    fps.update(core.fingerprint('Python/dawgie/security.py',
                                ['is_sanctioned', 'sanctioned', '_lookup', 'clients']))
    ctx.note('fingerprints', fps)
    changed = [k for k, v in PINNED.items() if fps.get(k) != v]
    if changed:
        ctx.note('fingerprints_changed', changed)
        ctx.log('fingerprint changed for %s' % changed)
    if '_static' in changed:
        # the access half is exhaustive in both tiers; only the static half
        # has a deeper setting
        ctx.extra['escalated'] = ['_static']
        ctx.log('static half escalated to thorough depth')

    # ---- generate + prove ---------------------------------------------------
    ok, msg = ctx.generate('endpoints2coq.py', 'Gen/AccessTable.v')
    gsec = c19_source.security_generate(ctx)
    gsta = c19_source.static_generate(ctx)
    ctx.log('generated')
    r = ctx.coq_props() if ok else {'ok': False, 'failing': 'translator', 'log': msg}
    if not ok or not gsec['ok'] or not gsta['ok']:
        if not ok:
            ctx.coq_props()
        # a refused source leaves the previous Gen file in place: what was
        # proved is not about the source of today
        ctx.cov['discharged'] = 0
    static_model = True
    ctx.log('proofs: %s' % r['ok'])
    if not r['ok']:
        # can the static model still be evaluated?  (its cone is separate)
        okb, bad, log = ctx.coq_build(['Model/Static.vo'])
        static_model = okb

    # ---- implementation runs + oracles + correspondence --------------------
    before = ctx.nviol
    mism_s, ns = (None, 0)
    if static_model:
        # the generated _static is evaluated beside the model when it exists and compiles
        ctx.extra['static_gen'] = gsta['ok'] and (r['ok'] or ctx.coq_build(['Gen/StaticGen.vo'])[0])
        mism_s, ns = static_half(ctx)
    gen_ok = ok and (r['ok'] or ctx.coq_build(['Model/Access.vo'])[0])
    mism_a, na = access_half(ctx, gen_ok)
    # the source tie of the access decision (translation + proof): validated
    # against the real functions and the real render path; when it broke, the
    # property is searched on the python functions
    c19_source.security_validate(ctx, gsec, ctx.extra.get('access_out'), None if r['ok'] else r['failing'])
    found = ctx.nviol > before or bool(ctx.known_hits)
    c19_source.static_verdict(ctx, gsta, found)

    if not ok and not found:
        ctx.broken('translator endpoints2coq.py refuses the source', msg,
                   {'source': 'translator'})
    elif not r['ok'] and not found:
        ctx.broken('theorem/file %s' % r['failing'], r['log'],
                   {'source': 'proof', 'theorem': r['failing']})
    if mism_s and not found:
        ctx.broken('correspondence fe._static: tree %s request %r' % mism_s[:2],
                   'model expects %s\nimplementation %s' % (mism_s[2], mism_s[3]),
                   {'source': 'correspondence', 'tree': mism_s[0],
                    'request': mism_s[1], 'expected': mism_s[2],
                    'observed': mism_s[3]})
    if mism_a and not found:
        ctx.broken('correspondence access (%s)' % mism_a[0], mism_a[1],
                   {'source': 'correspondence', 'detail': mism_a[1]})


