'''C20 -- Timer events are computable, land on their moment, keep recurring.

Model/Delay.v mirrors pl.schedule._delay (calendar arithmetic on civil
triples + proleptic ordinal), defer, the effect of periodics, booted, and a
small self-contained model of the status changes of farm.dispatch /
schedule.complete.  Props/C20.v: C20_dow, C20_boot, C20_day, C20_dom_partial,
C20_due_queues proved for all inputs; C20_dom_refuted / C20_recurs_refuted /
C20_due_once_refuted carry the witnesses of the recorded findings.

Tie: the real functions run under an injected clock (the name `datetime`
inside pl.schedule) and a fake reactor.callLater; every (instant, spec) of the
sweep is evaluated on both sides and compared exactly (microseconds); the
property oracle is evaluated on the implementation's own results.
'''
import datetime
import random

from vlib import core

PID = 'C20'
META = {
    'text': 'Coq: pl.schedule._delay modelled branch for branch over civil dates with a proleptic ordinal (validated against datetime.date.toordinal on every run); proved for every clock instant (years 1..9998) and every accepted specification: day-of-week events are computable, land on the requested weekday and time, within (-1 day, 7 days] and no matching moment is skipped; boot events fire exactly once per process; date events designate exactly their date; day-of-month events with dom <= 28 are computable and land on day dom. defer(): a due event (<= 300 s) queues its node with all known targets / the all-targets marker. Refuted with witnesses (recorded findings): dom 29..31 raises for a short next month, dom skips the current month and is never due for dom > 1, a periodic event never fires a second time, one due node can be queued twice. Tied to the real code by exact comparison of _delay over a multi-year sweep and of defer/dispatch/complete scenarios under an injected clock. Source tie: _delay and the due test of defer() are regenerated from the python source on every run (delay2coq.py, fail closed, datetime operations mapped explicitly to the model calendar) and proved equal to the model functions for every argument, without guard (C20_delay_is_source, C20_due_is_source, C20_run_period_is_source); the recorded dom findings hold of the generated definition (C20_dom_refuted_on_source).',
    'note': 'Trusted: Coq kernel; python datetime as the reference calendar (toordinal, timedelta arithmetic); the clock/callLater/db.targets fakes of drive_delay.py; farm.dispatch represented by its status line; the hand model Delay.v (correspondence each run). No axioms. Translator delay2coq.py (python ast -> Gallina; datetime.now/year/month/day/isoweekday/datetime(...)/timedelta(days=)/+/- mapped to Delay.v; the algorithm reference (factory, name) abstracted to an id), validated each run by a sweep of the generated definition against the real _delay and of the due test against the real defer() at 300 s +- 1 us.',
    'technique': 'Coq proof (all instants) + refutation witnesses + model/implementation correspondence under an injected clock + implementation-only oracle + translation of _delay and the due test from the source with equality proofs',
}

US = 1000000
DAY = 86400 * US
TIMES = [(0, 0, 0), (0, 4, 59), (0, 5, 1), (12, 0, 0), (23, 59, 59)]
NODE_ID = {'root': 1, 'A': 2, 'B': 3, 'C': 4, 'D': 5, 'E': 6}
# normalised-ast fingerprints of the hand-modelled functions (tree with the
# repairs 399dc9a, 24d6ee6); a difference escalates the run to thorough depth
PINNED = {'_delay': 'c832d05c042d15fa', 'defer': 'ea6f8245053d2131', 'periodics': '25a2cdba26718331', 'complete': 'fb12116b841dc480', 'schedule': '2f9485953a0b75f3', 'rule_10': '78f5a4901f01e365'}


def build_specs():
    specs = []
    for dow in range(7):
        for t in TIMES:
            specs.append({'dow': dow, 'time': list(t)})
    for dom in range(1, 32):
        for t in TIMES:
            specs.append({'dom': dom, 'time': list(t)})
    for day in ([2027, 2, 28], [2024, 2, 29], [2026, 3, 2], [2030, 12, 31]):
        for t in (TIMES[1], TIMES[3]):
            specs.append({'day': day, 'time': list(t)})
    specs.append({'boot': True})
    specs.append({'boot': False})
    return specs


_ALL_SPECS = build_specs()


def kind_of(sp):
    for k in ('boot', 'day', 'dom', 'dow'):
        if k in sp:
            return k


def coq_moment(sp):
    def o(x, f):
        return 'None' if x is None else '(Some %s)' % f(x)

    def z3(v):
        return '(%d, %d, %d)' % tuple(v)

    return '(mkM %s %s %s %s %s)' % (
        o(sp.get('boot'), lambda b: 'true' if b else 'false'),
        o(sp.get('day'), z3), o(sp.get('dom'), lambda v: '(%d)' % v),
        o(sp.get('dow'), lambda v: '(%d)' % v), o(sp.get('time'), z3))


def coq_clock(v):
    y, m, d, h, mi, s, us = v
    return '(mkNow %d %d %d %d %d)' % (y, m, d, h * 3600 + mi * 60 + s, us)


def dim(y, m):
    import calendar
    return calendar.monthrange(y, m)[1]


def instants(ctx):
    rng = random.Random('%s:C20:instants' % ctx.seed)
    tods = [(0, 0, 0, 0), (0, 58, 0, 0), (12, 0, 0, 5), (23, 59, 59, 999999),
            (0, 4, 58, 999999), (1, 0, 0, 0)]
    out = []
    deep = not ctx.quick or ctx.extra.get('escalated')
    years = range(2023, 2033) if deep else (2023, 2024, 2027, 2028, 2031)
    for y in years:
        for m in range(1, 13):
            days = [1, dim(y, m) - 1, dim(y, m)]
            if not deep:
                pick = rng.sample(tods, 2)
            else:
                days += [15, 28]
                pick = rng.sample(tods, 4)
            for d in sorted(set(days)):
                for t in pick:
                    out.append([y, m, d] + list(t))
    # one full week (every weekday) and century / range edges
    for d in range(1, 8):
        out.append([2026, 3, d, 0, 58, 0, 0])
    out += [[2100, 2, 28, 12, 0, 0, 0], [2000, 2, 29, 0, 0, 0, 0],
            [1, 1, 1, 0, 0, 0, 0], [9998, 12, 31, 23, 59, 59, 999999],
            [9999, 12, 25, 0, 0, 0, 0], [9999, 12, 31, 23, 0, 0, 1],
            [1900, 2, 28, 6, 0, 0, 0], [2024, 2, 28, 23, 59, 59, 0],
            [2024, 12, 31, 23, 59, 59, 999999]]
    return out


def to_dt(v):
    y, m, d, h, mi, s, us = v
    return datetime.datetime(y, m, d, h, mi, s, us, tzinfo=datetime.UTC)


def next_occurrence_skipped(sp, now, then):
    '''the first moment >= now that matches the specification, when it lies
    strictly before `then` (the sharp form of "no further than one period
    ahead"); None when nothing is skipped'''
    t = datetime.time(*sp['time'])
    if now.year >= 9999:
        return None       # outside the span of the property
    if 'dow' in sp:
        day = now.date() + datetime.timedelta(days=(sp['dow'] - (now.isoweekday() - 1)) % 7)
        cand = datetime.datetime.combine(day, t, tzinfo=datetime.UTC)
        if cand < now:
            cand += datetime.timedelta(days=7)
    else:
        y, m = now.year, now.month
        cand = None
        for _ in range(14):
            if y > 9999:
                return None
            if sp['dom'] <= dim(y, m):
                cand = datetime.datetime(y, m, sp['dom'], t.hour, t.minute, t.second,
                                         tzinfo=datetime.UTC)
                if cand >= now:
                    break
                cand = None
            y, m = (y + 1, 1) if m == 12 else (y, m + 1)
        if cand is None:
            return None
    return cand if cand < then else None


def classify_delay(ctx, sp, nowv, got):
    '''property oracle for one evaluation of the REAL _delay.  Returns True when
    the evaluation is "non-trivial" (Appendix B).'''
    now = to_dt(nowv)
    kind = kind_of(sp)
    rep = {'source': 'oracle', 'spec': sp, 'now': nowv, 'observed': got}
    nontriv = False
    if kind == 'boot':
        if got != 0:
            ctx.violation('boot-first-evaluation', {'spec': 'boot'},
                          'first evaluation of a boot event gave %r instead of 0' % (got,),
                          dict(rep, theorem='C20_boot'))
        return False
    if isinstance(got, str):
        exc = got.split(':')[-1]
        if kind == 'dom' and exc == 'ValueError':
            ny, nm = (now.year + 1, 1) if now.month == 12 else (now.year, now.month + 1)
            if ny <= 9999 and sp['dom'] > dim(ny, nm):
                ctx.violation(
                    'dom-next-month-overflow',
                    {'spec': 'dom', 'exception': 'ValueError',
                     'cause': 'dom>days_in(next month)'},
                    '_delay(dom=%d) at %s raises ValueError' % (sp['dom'], now),
                    dict(rep, theorem='C20_dom_refuted'))
                return True
        if now.year >= 9999:
            return False          # outside the span of the property (year 1..9998)
        ctx.violation('delay-exception', {'spec': kind, 'exception': exc},
                      '_delay(%s) at %s raises %s' % (sp, now, exc),
                      dict(rep, theorem='C20_%s' % kind))
        return True
    then = now + datetime.timedelta(microseconds=got)
    t = datetime.time(*sp['time'])
    if kind == 'day':
        want = datetime.datetime.combine(datetime.date(*sp['day']), t, tzinfo=datetime.UTC)
        if then != want:
            ctx.violation('day-wrong-moment', {'spec': 'day'},
                          '_delay(day=%s) at %s designates %s' % (sp['day'], now, then),
                          dict(rep, theorem='C20_day'))
        return abs((want - now).days) <= 1
    if then.time().replace(tzinfo=None) != t or then.microsecond:
        ctx.violation('wrong-time-of-day', {'spec': kind},
                      '_delay(%s) at %s designates %s' % (sp, now, then),
                      dict(rep, theorem='C20_%s' % kind))
    if kind == 'dow':
        nontriv = (now.isoweekday() - 1 == sp['dow']) or now.day >= dim(now.year, now.month) - 1 \
            or now.day == 1
        bad = None
        if then.isoweekday() - 1 != sp['dow']:
            bad = 'weekday %d' % (then.isoweekday() - 1)
        elif not (-DAY < got <= 7 * DAY):
            bad = 'delay %d us outside (-1 day, 7 days]' % got
        else:
            sk = next_occurrence_skipped(sp, now, then)
            if sk is not None:
                bad = 'the matching moment %s is skipped' % sk
        if bad:
            ctx.violation('dow-wrong-moment', {'spec': 'dow'},
                          '_delay(dow=%d %s) at %s designates %s: %s'
                          % (sp['dow'], t, now, then, bad),
                          dict(rep, theorem='C20_dow'))
        return nontriv
    # dom
    nontriv = sp['dom'] > 28 or now.day >= dim(now.year, now.month) - 1 or now.day == 1
    if then.day != sp['dom']:
        ctx.violation('dom-wrong-moment', {'spec': 'dom'},
                      '_delay(dom=%d) at %s designates %s' % (sp['dom'], now, then),
                      dict(rep, theorem='C20_dom_partial'))
        return nontriv
    sk = next_occurrence_skipped(sp, now, then)
    if sk is not None:
        ny, nm = (now.year + 1, 1) if now.month == 12 else (now.year, now.month + 1)
        known = (then.year, then.month) == (ny, nm)    # the recorded mechanism
        ctx.violation(
            'dom-skips-current-month' if known else 'dom-wrong-moment',
            {'spec': 'dom', 'symptom': 'more-than-one-period-ahead',
             'mechanism': 'always-next-month' if known else 'other'},
            '_delay(dom=%d %s) at %s designates %s although %s matches and is '
            'not in the past' % (sp['dom'], t, now, then, sk),
            dict(rep, theorem='C20_dom_refuted'))
    return nontriv


def code_of(got):
    '''implementation result -> the model's canonical (kind, delta)'''
    if got == 'NotKnowable':
        return ('NK', 0)
    if isinstance(got, str):
        return ('E:' + got.split(':')[-1], 0)
    return ('Ok', got)


# one Z per evaluation (printing is the expensive part of the model run):
# Ok d -> 4*d ; NotKnowable -> 1 ; Err e -> 2 + 4*e.  The designated instant is
# then = now + d by definition of delay (C20 theorems speak about it; ord is
# validated separately against date.toordinal).
COQ_CODE = (
    'Definition code (r : dres) : Z :=\n'
    '  match r with\n'
    '  | Ok t d => 4 * d\n'
    '  | NotKnowable => 1\n'
    '  | Err ValueError => 2 + 4 * 1 | Err OverflowError => 2 + 4 * 2\n'
    '  | Err AttributeError => 2 + 4 * 3\n'
    '  end.\n')
ERRNAME = {1: 'ValueError', 2: 'OverflowError', 3: 'AttributeError'}


def model_code(v):
    if v % 4 == 0:
        return ('Ok', v // 4)
    if v == 1:
        return ('NK', 0)
    return ('E:' + ERRNAME[(v - 2) // 4], 0)


# ---------------------------------------------------------------------------
# scenarios for defer / dispatch / complete
# ---------------------------------------------------------------------------
def scenarios(ctx, specs):
    idx = {repr(sorted(s.items())): i for i, s in enumerate(specs)}

    def si(**kw):
        if 'time' in kw:
            kw['time'] = list(kw['time'])
        return idx[repr(sorted(kw.items()))]

    mon = [2026, 3, 2, 0, 58, 0, 0]          # a Monday
    nextmon = [2026, 3, 9, 0, 58, 0, 0]
    out = []
    # (1) the recorded witness: weekly event fires, completes, never again
    out.append({'name': 'weekly-refire', 'events': [['root', si(dow=0, time=(12, 0, 0))]],
                'targets': ['T'],
                'steps': [['start', [2026, 3, 2, 11, 58, 0, 0]], ['dispatch'],
                          ['complete', [2026, 3, 2, 12, 10, 0, 0], 'root', 'T'],
                          ['timers', [2026, 3, 9, 11, 58, 0, 0]],
                          ['defer', [2026, 3, 9, 11, 58, 0, 0]]]})
    out.append({'name': 'monthly-refire', 'events': [['A', si(dom=1, time=(0, 4, 59))]],
                'targets': ['T', 'U'],
                'steps': [['start', [2026, 2, 28, 23, 59, 59, 999999]], ['dispatch'],
                          ['complete', [2026, 3, 1, 0, 6, 0, 0], 'A', 'T'],
                          ['complete', [2026, 3, 1, 0, 6, 0, 0], 'A', 'U'],
                          ['timers', [2026, 3, 31, 23, 59, 59, 0]],
                          ['defer', [2026, 3, 31, 23, 59, 59, 0]]]})
    # (2) not due: a timer is armed, firing it later queues the node
    out.append({'name': 'armed', 'events': [['A', si(dow=2, time=(12, 0, 0))],
                                            ['B', si(dow=0, time=(12, 0, 0))]],
                'targets': ['T'],
                'steps': [['start', mon], ['timers', [2026, 3, 2, 11, 58, 0, 0]],
                          ['dispatch'], ['timers', [2026, 3, 4, 11, 59, 0, 0]],
                          ['complete', [2026, 3, 4, 12, 0, 0, 0], 'B', 'T'],
                          ['dispatch'],
                          ['complete', [2026, 3, 4, 12, 1, 0, 0], 'A', 'T']]})
    # (3) boot + weekly on one node, analysis; paused start
    out.append({'name': 'boot+weekly', 'events': [['root', si(boot=True)],
                                                  ['root', si(dow=3, time=(12, 0, 0))]],
                'targets': ['T', 'U'],
                'steps': [['start', mon], ['dispatch'],
                          ['complete', mon, 'root', 'T'], ['complete', mon, 'root', 'U'],
                          ['timers', [2026, 3, 5, 11, 58, 0, 0]], ['dispatch']]})
    out.append({'name': 'paused', 'events': [['E', si(boot=True)]], 'targets': ['T'],
                'steps': [['start', mon, True], ['timers', mon], ['unpause'],
                          ['timers', mon], ['dispatch'],
                          ['complete', mon, 'E', '__all__'], ['defer', nextmon]]})
    # (4) a dom=31 event makes defer() raise: nodes after it are not examined
    out.append({'name': 'dom31-aborts-defer',
                'events': [['A', si(dom=31, time=(12, 0, 0))],
                           ['B', si(dow=0, time=(0, 5, 1))]],
                'targets': ['T'],
                'steps': [['start', [2026, 3, 30, 0, 2, 0, 0]],
                          ['defer', [2026, 3, 30, 0, 3, 0, 0]]]})
    # (5) the new finding: one node queued twice
    out.append({'name': 'two-due-events',
                'events': [['root', si(boot=True)], ['root', si(dow=0, time=(0, 4, 59))]],
                'targets': ['T', 'U'],
                'steps': [['start', mon], ['dispatch'], ['complete', mon, 'root', 'T'],
                          ['complete', mon, 'root', 'U'], ['dispatch'],
                          ['defer', nextmon]],
                'dup': 'two-due-events'})
    out.append({'name': 'located-twice', 'events': [['E', si(dow=0, time=(12, 0, 0))]],
                'targets': ['T'],
                'steps': [['start', [2026, 3, 2, 11, 58, 0, 0]], ['dispatch'],
                          ['complete', [2026, 3, 2, 12, 10, 0, 0], 'E', '__all__'],
                          ['defer', [2026, 3, 9, 11, 58, 0, 0]]],
                'dup': 'node-located-twice'})
    # (5b) boot events of two algorithms of one task (same factory, same
    # version, same moment): each fires once (fixed finding boot-events-conflated)
    out.append({'name': 'two-boot-nodes', 'events': [['A', si(boot=True)], ['B', si(boot=True)]],
                'targets': ['T', 'U'],
                'steps': [['start', mon], ['dispatch'], ['defer', nextmon]]})
    # (5c) the 300 s window of defer(), to the microsecond: exactly 300 s is due,
    # 300 s + 1 us arms a timer (read from the source by delay2coq.py: DelayGen.due)
    out.append({'name': 'window-exact', 'events': [['A', si(dow=0, time=(0, 5, 1))]],
                'targets': ['T'], 'steps': [['start', [2026, 3, 2, 0, 0, 1, 0]], ['dispatch']]})
    out.append({'name': 'window-plus-1us', 'events': [['A', si(dow=0, time=(0, 5, 1))]],
                'targets': ['T'], 'steps': [['start', [2026, 3, 2, 0, 0, 0, 999999]], ['dispatch']]})
    # (5d) a target becomes known between two firings a few minutes apart: the
    # second due node is queued for the targets known at ITS moment
    out.append({'name': 'new-target-between-firings',
                'events': [['A', si(dow=0, time=(0, 4, 59))], ['C', si(dow=0, time=(0, 5, 1))]],
                'targets': ['T', 'U'],
                'steps': [['start', [2026, 3, 1, 12, 0, 0, 0]], ['defer', [2026, 3, 2, 0, 0, 0, 0]],
                          ['targets', ['T', 'U', 'W']],
                          ['defer', [2026, 3, 2, 0, 0, 2, 0]], ['dispatch']]})
    # (6) seeded random scenarios over mutually independent nodes
    rng = random.Random('%s:C20:scenarios' % ctx.seed)
    groups = [['root'], ['A', 'B'], ['A'], ['B'], ['C'], ['D'], ['E']]
    n = ctx.n(40, 400)
    if ctx.extra.get('escalated'):
        n = 400
    for k in range(n):
        nodes = rng.choice(groups)
        t0 = [2026, rng.choice([2, 3, 12]), rng.choice([1, 2, 15, 28]),
              rng.choice([0, 11, 23]), rng.choice([0, 58, 59]), rng.choice([0, 30]),
              rng.choice([0, 1, 999999])]
        now = to_dt(t0)
        evs = []
        for nd in nodes:
            for _ in range(rng.choice([1, 1, 2, 3])):
                r = rng.random()
                near = rng.choice(TIMES)
                if r < 0.15:
                    evs.append([nd, si(boot=rng.choice([True, False]))])
                elif r < 0.6:
                    evs.append([nd, si(dow=(now.isoweekday() - 1 + rng.choice([0, 0, 1, 6])) % 7,
                                       time=near)])
                elif r < 0.9:
                    evs.append([nd, si(dom=rng.choice([1, 2, 15, 28, 29, 30, 31]), time=near)])
                else:
                    evs.append([nd, si(day=rng.choice([[2026, 3, 2], [2027, 2, 28]]),
                                       time=rng.choice([TIMES[1], TIMES[3]]))])
        targets = rng.choice([['T'], ['T', 'U'], ['T', 'U', 'V'], []])
        steps = [['start', t0] + ([True] if rng.random() < 0.15 else [])]
        cur = now
        for _ in range(rng.randint(2, 9)):
            r = rng.random()
            cur = cur + datetime.timedelta(
                seconds=rng.choice([0, 1, 60, 299, 301, 3600, 86400, 7 * 86400, 31 * 86400]))
            cv = [cur.year, cur.month, cur.day, cur.hour, cur.minute, cur.second,
                  cur.microsecond]
            if r < 0.25:
                steps.append(['defer', cv])
            elif r < 0.45:
                steps.append(['timers', cv])
            elif r < 0.65:
                steps.append(['dispatch'])
            elif r < 0.9:
                nd = rng.choice(nodes)
                tg = '__all__' if nd == 'E' and rng.random() < 0.8 else \
                    rng.choice((targets or ['T']) + ['__all__'])
                steps.append(['complete', cv, nd, tg])
            elif r < 0.93:
                steps.append(['pause'])
            elif r < 0.96:
                steps.append(['unpause'])
            else:
                # a target becomes known / is forgotten while the scheduler is up
                steps.append(['targets', rng.choice([['T', 'U', 'W'], ['T', 'W'], ['W'], ['T', 'U', 'V', 'W']])])
        out.append({'name': 'rand%d' % k, 'events': evs, 'targets': targets, 'steps': steps})
    return out


def coq_scenario(sc, specs, engine, trace):
    '''Gallina term: list of observations of the model for the scenario; the
    number of timers fired by a `timers` step is the number pending on the
    implementation side (the reactor is the environment).'''
    tid = {'__all__': 0}
    for t in sc['targets']:
        tid[t] = len(tid)
    for st in sc['steps']:
        if st[0] == 'complete' and st[3] not in tid:
            tid[st[3]] = len(tid)
        if st[0] == 'targets':
            for t in st[1]:
                if t not in tid:
                    tid[t] = len(tid)
    nodes = sorted({n for n, _ in sc['events']}, key=lambda n: NODE_ID[n])
    ids = [NODE_ID[n] for n in nodes]
    located = []
    for k, (n, si) in enumerate(sc['events']):
        ev = '(%d%%nat, %s)' % (NODE_ID[n], coq_moment(specs[si]))
        located += ['(%d%%nat, %s)' % (NODE_ID[n], ev)] * engine[n]['mult']
    nodef = 'fun k => ' + ''.join(
        'if Nat.eqb k %d then init_node %s (%d) else ' % (
            NODE_ID[n], 'true' if engine[n]['asp'] else 'false', engine[n]['level'])
        for n in engine) + 'init_node false 0'
    start = sc['steps'][0]
    paused = 'true' if (len(start) > 2 and start[2]) else 'false'
    def tl(ts):
        return '[' + ';'.join('%d%%nat' % tid[t] for t in ts) + ']'

    cur = list(sc['targets'])
    steps = ['(%s, SDefer %s)' % (tl(cur), coq_clock(start[1]))]
    for i, st in enumerate(sc['steps'][1:], 1):
        if st[0] == 'defer':
            steps.append('(%s, SDefer %s)' % (tl(cur), coq_clock(st[1])))
        elif st[0] == 'timers':
            steps.append('(%s, STimers %s %d%%nat)' % (tl(cur), coq_clock(st[1]),
                                                      len(trace[i - 1]['timers'])))
        elif st[0] == 'dispatch':
            steps.append('(%s, SDispatch)' % tl(cur))
        elif st[0] == 'complete':
            steps.append('(%s, SComplete %d%%nat %d%%nat)' % (tl(cur), NODE_ID[st[2]], tid[st[3]]))
        elif st[0] == 'pause':
            steps.append('(%s, SPause)' % tl(cur))
        elif st[0] == 'unpause':
            steps.append('(%s, SUnpause)' % tl(cur))
        elif st[0] == 'targets':
            cur = list(st[1])     # no step of the model: the list of the moment changes
    term = ('DV.Model.DelayT.run_steps_t [%s] (attach [%s] (init_sched (%s) %s)) [%s]' % (
        ';'.join('%d%%nat' % i for i in ids), ';'.join(located), nodef,
        paused, ';'.join(steps)))
    return term, tid, nodes


STATUS_CODE = {'delayed': 0, 'failure': 1, 'running': 2, 'success': 3,
               'waiting': 4, 'initial': 5, 'invalid': 6}


def impl_obs(snap, tid, nodes):
    exc = {None: 0, 'ValueError': 1, 'OverflowError': 2, 'AttributeError': 3}.get(
        snap['exc'], 'exc:%s' % snap['exc'])
    rows = []
    for n in nodes:
        v = snap['nodes'].get('test_15.' + n)
        if v is None:
            rows.append(None)
            continue
        rows.append((STATUS_CODE[v['status']],
                     sorted(tid.get(t, -1) for t in v['todo']),
                     sorted(tid.get(t, -1) for t in v['doing'])))
    return ([NODE_ID[t.split('.')[1]] for t in snap['que']], rows,
            list(snap['timers']), snap['booted'], exc)


def model_obs(v):
    que, rows, timers, booted, exc = v      # coq prints nested pairs flat
    return (list(que), [(a, sorted(b), sorted(c)) for (a, b, c) in rows],
            list(timers), booted, exc)


def scenario_oracle(ctx, sc, trace, engine):
    '''the property on the implementation's own trace'''
    known = list(sc['targets'])      # the targets known at the moment of the step
    for i, (step, snap) in enumerate(zip(sc['steps'], trace)):
        rep = {'source': 'oracle', 'scenario': sc, 'step': i}
        if step[0] == 'targets':
            known = list(step[1])
            continue
        pre = snap.get('pre')
        if step[0] in ('start', 'defer') and pre and snap['exc'] is None \
                and not (step[0] == 'start' and len(step) > 2 and step[2]) \
                and not (i and trace[i - 1]['paused']):
            due = {}
            aborted = False
            for tag, d in pre['delays']:
                if isinstance(d, str) and d.startswith('exc'):
                    aborted = True
                if isinstance(d, int) and d <= 300 * US:
                    due.setdefault(tag, []).append(d)
            newly = [t for t in set(snap['que'])
                     if snap['que'].count(t) > pre['que'].count(t)]
            if not aborted and step[0] == 'start':
                # a boot event fires once per process: at the first defer() every
                # node that declares one is queued (independent of what _delay
                # says about it)
                for name, spi in sc['events']:
                    if 'boot' not in _ALL_SPECS[spi]:
                        continue
                    tags = [t for t in snap['nodes'] if t.split('.')[-1] == name]
                    for tag in tags:
                        node = snap['nodes'][tag]
                        want = ['__all__'] if node['asp'] else known
                        if tag not in snap['que'] or not set(want) <= set(node['todo']):
                            ctx.violation(
                                'boot-not-fired', {'tag': name},
                                'first defer() of the process: %s declares a boot event but que=%s todo=%s'
                                % (tag, snap['que'], node['todo']),
                                dict(rep, theorem='C20_boot'))
            if not aborted:
                for tag, ds in due.items():
                    st0 = pre['status'].get(tag, 'initial')
                    if st0 in ('running', 'waiting'):
                        # the recorded finding: a periodic node that already fired
                        # is never examined again
                        if step[0] == 'defer' and tag not in snap['que'] and \
                                not snap['nodes'][tag]['todo'] and not snap['nodes'][tag]['doing']:
                            ctx.violation(
                                'periodic-never-refires',
                                {'symptom': 'no-refire', 'status': st0},
                                'defer() at %s: event of %s is due (%s us) but the node '
                                'is not queued: status %s is skipped and no timer was '
                                're-armed' % (step[1], tag, ds[0], st0),
                                dict(rep, theorem='C20_recurs_refuted'))
                        continue
                    node = snap['nodes'][tag]
                    want = ['__all__'] if node['asp'] else known
                    if tag not in snap['que'] or node['status'] != 'waiting' or \
                            not set(want) <= set(node['todo']):
                        ctx.violation(
                            'due-not-queued', {'tag': tag},
                            'defer() at %s: event of %s is due (%s us) but que=%s '
                            'status=%s todo=%s' % (step[1], tag, ds[0], snap['que'],
                                                   node['status'], node['todo']),
                            dict(rep, theorem='C20_due_queues'))
                # re-arm: one timer for the rounded smallest pending delay
                pending = [d for tag, d in pre['delays']
                           if isinstance(d, int) and d > 300 * US
                           and pre['status'].get(tag, 'initial') not in ('running', 'waiting')]
                before = len(trace[i - 1]['timers']) if i else 0
                armed = snap['timers'][before:]
                want_t = [round(min(pending) / 1e6)] if pending else []
                # the property: some pending timer fires no later than the
                # rounded smallest pending delay (exactly which timers are armed
                # is the correspondence's business)
                now_ts = datetime.datetime(*step[1], tzinfo=datetime.timezone.utc).timestamp()
                covered = bool(want_t) and any(due <= now_ts + want_t[0] + 1e-3
                                               for due in snap.get('timers_due', []))
                if armed != want_t and not (want_t and covered):
                    ctx.violation(
                        'timer-not-earliest', {'step': step[0]},
                        'defer() at %s armed timers %s; pending delays %s need %s'
                        % (step[1], armed, sorted(pending)[:3], want_t),
                        dict(rep, theorem='C20_rearm'))
                for tag in newly:
                    if tag not in due:
                        ctx.violation(
                            'queued-not-due', {'tag': tag},
                            'defer() at %s queued %s although none of its events is '
                            'within 300 s (%s)' % (step[1], tag, pre['delays']),
                            dict(rep, theorem='C20_due_queues'))
        if step[0] in ('start', 'defer', 'timers'):
            dups = sorted({t for t in snap['que'] if snap['que'].count(t) > 1})
            for tag in dups:
                name = tag.split('.')[1]
                cause = ('node-located-twice' if engine[name]['mult'] > 1
                         else 'two-due-events')
                ctx.violation(
                    'due-queued-twice',
                    {'symptom': 'duplicate-queue-entry', 'cause': cause},
                    'defer() at %s queued %s %d times (que=%s): complete() removes one '
                    'entry, the other stays for ever' % (
                        step[1], tag, snap['que'].count(tag), snap['que']),
                    dict(rep, theorem='C20_due_once_refuted'))


# ---------------------------------------------------------------------------
# source tie: Gen/DelayGen.v (delay2coq.py) = Model/Delay.v, proved in
# Proofs/DelayGenEq.v (pattern of props/gen_tie.py)
# ---------------------------------------------------------------------------
def source_generate(ctx):
    ok, msg = ctx.generate('delay2coq.py', 'Gen/DelayGen.v')
    ctx.trust('translator tools/translate/delay2coq.py (python ast of pl.schedule._delay and of the due test '
              'of defer -> Gallina, fail closed; the datetime operations are mapped explicitly to the calendar '
              'of Model/Delay.v: now(), year/month/day, isoweekday, datetime(...), timedelta(days=), +, -); '
              'validated on every run by a sweep of the generated definition against the real _delay; the '
              'generated definitions are PROVED equal to Delay.delay / the window test, coq/Proofs/DelayGenEq.v')
    ctx.cov.setdefault('translated_fingerprints', {})['Python/dawgie/pl/schedule.py'] = \
        core.fingerprint('Python/dawgie/pl/schedule.py', ['_delay', 'defer'])
    if not ok:
        ctx.log('delay2coq.py refuses the source: %s' % msg.strip()[-300:])
    return {'ok': ok, 'msg': msg}


def source_validate(ctx, g, r, specs, inst, out, scs, found):
    '''g: result of source_generate; r: result of coq_props; found: a failing
    input (oracle) or a separating input (model correspondence) is already
    reported by the main study -- the search the tie needs when it breaks IS
    that study: the oracle over every (instant, spec) of the sweep on the real
    _delay and the exact comparison with Delay.delay.'''
    tie_proved = r['ok']
    bad = None
    nval = 0
    if g['ok']:
        # (1) generated _delay vs the real one: every 5th instant (+ the range
        # edges at the end of the list) x every specification
        sel = [k for k in range(len(inst)) if k % 5 == ctx.seed % 5 or k >= len(inst) - 16]
        pre = COQ_CODE + 'Definition gspecs : list event := [%s].\n' % ';'.join(
            '(1%%nat, %s)' % coq_moment(s) for s in specs)
        exprs = ['map (fun e => code (fst (DelayGen.delay [] e %s))) gspecs' % coq_clock(inst[k]) for k in sel]
        # boot: second evaluation with the list returned by the first
        boots = [s for s in specs if 'boot' in s]
        for s in boots:
            b = '(1%%nat, %s)' % coq_moment(s)
            exprs.append('let r1 := DelayGen.delay [] %s %s in let r2 := DelayGen.delay (snd r1) %s %s in '
                         '[code (fst r1); Z.of_nat (List.length (snd r1)); code (fst r2); Z.of_nat (List.length (snd r2))]'
                         % (b, coq_clock(inst[0]), b, coq_clock(inst[1])))
        # (2) the due test on the delays the real defer() saw at a first defer()
        # of a node with one calendar event
        wcases = []
        for sc, trace in zip(scs, out['scenarios']):
            st0, snap = sc['steps'][0], trace[0]
            if (len(st0) > 2 and st0[2]) or snap['exc'] is not None or not snap.get('pre'):
                continue
            per_node = {}
            for tag, d in snap['pre']['delays']:
                per_node.setdefault(tag, []).append(d)
            for tag, ds in per_node.items():
                if len(ds) == 1 and isinstance(ds[0], int):
                    wcases.append((sc['name'], tag, ds[0], tag in snap['que']))
        wvals = sorted({w[2] for w in wcases})
        exprs.append('map DelayGen.due [%s]' % ';'.join('(%d)' % v for v in wvals))
        try:
            vals = ctx.coq_eval(['DV.Model.Delay', 'DV.Gen.DelayGen'], exprs, preamble=pre, chunk=60)
            for k, mrow in zip(sel, vals[:len(sel)]):
                for sp, got, mv in zip(specs, out['sweep'][k], mrow):
                    nval += 1
                    if model_code(mv) != code_of(got) and bad is None:
                        bad = {'spec': sp, 'now': inst[k], 'python': got, 'generated': model_code(mv)}
            for j, s in enumerate(boots):
                mv = vals[len(sel) + j]
                iv = out['boot'][j][:2]
                want = [model_code(mv[0]), mv[1], model_code(mv[2]), mv[3]]
                have = [code_of(iv[0][0]), iv[0][1], code_of(iv[1][0]), iv[1][1]]
                nval += 2
                if want != have and bad is None:
                    bad = {'spec': s, 'python': have, 'generated': want}
            duemap = dict(zip(wvals, vals[-1]))
            for name, tag, d, queued in wcases:
                nval += 1
                if duemap[d] is not queued and bad is None:
                    bad = {'scenario': name, 'node': tag, 'delay_us': d, 'python_queued': queued,
                           'generated_due': duemap[d]}
            ctx.note('source_tie_window_cases', {'n': len(wcases), 'due': sum(1 for w in wcases if w[3]),
                                                 'nearest_us_to_window': min([abs(w[2] - 300 * US) for w in wcases] or [None])})
        except core.CoqEvalError as e:
            bad = {'generated': 'Gen/DelayGen.v does not evaluate: %s' % (e.args[1][-600:],)}
        if bad and not found:
            ctx.broken('translator validation: the definition generated from pl.schedule._delay / defer '
                       'disagrees with the python function', repr(bad),
                       {'source': 'translator-validation', 'spec': bad.get('spec'), 'now': bad.get('now'),
                        'expected': repr(bad.get('generated')), 'observed': repr(bad.get('python'))})
    elif not found:
        ctx.broken('translator delay2coq.py refuses dawgie/pl/schedule.py (_delay / defer changed shape) and '
                   'neither the oracle nor the comparison with Model/Delay.v over %d instants x %d specifications '
                   'separates the new code from the old' % (len(inst), len(specs)), g['msg'],
                   {'source': 'translator'})
    ctx.note('source_tie_delay', {'translator_ok': g['ok'], 'proved_equal': bool(tie_proved and g['ok']),
                                  'generated_vs_python_evaluations': nval,
                                  'generated_vs_python_mismatch': bad})
    return nval


def replay(ctx, rp):
    '''./check C20 --replay F : re-execute the recorded case on the real code and
    evaluate the oracle on it.  Returns False when the file names a proof or
    correspondence obligation (then the full check runs).'''
    if 'spec' in rp and 'now' in rp:
        out = ctx.harness('drive_delay.py', {
            'specs': [rp['spec']], 'sweep': {'instants': [rp['now']], 'specs': [0]}})
        got = out['sweep'][0][0]
        ctx.log('replay: _delay(%s) at %s -> %r' % (rp['spec'], rp['now'], got))
        if 'boot' not in rp['spec']:
            classify_delay(ctx, rp['spec'], rp['now'], got)
    elif 'spec' in rp and 'boot' in rp['spec']:
        inst = [[2026, 3, 2, 0, 0, 0, 0], [2026, 3, 2, 0, 0, 1, 0], [2026, 3, 9, 0, 0, 0, 0]]
        out = ctx.harness('drive_delay.py', {'specs': [rp['spec']], 'boot': [[0, inst]]})
        seq = out['boot'][0]
        ctx.log('replay: boot event evaluated three times -> %s' % seq)
        if seq != [[0, 1], ['NotKnowable', 1], ['NotKnowable', 1]]:
            ctx.violation('boot-refires', {'spec': 'boot'},
                          'boot event %s evaluated three times gave %s' % (rp['spec'], seq),
                          {'source': 'oracle', 'spec': rp['spec'], 'observed': seq,
                           'theorem': 'C20_boot'})
    elif 'scenario' in rp:
        sc = rp['scenario']
        out = ctx.harness('drive_delay.py', {
            'specs': build_specs(),
            'scenarios': [{'events': sc['events'], 'targets': sc['targets'],
                           'steps': sc['steps']}]})
        for st, snap in zip(sc['steps'], out['scenarios'][0]):
            ctx.log('replay: %s -> que=%s exc=%s' % (st, snap['que'], snap['exc']))
        scenario_oracle(ctx, sc, out['scenarios'][0], out['engine'])
    else:
        # the file names a proof / correspondence obligation: the full check
        return run(ctx)
    ctx.level = 'other'   # a replay is not a proof run; the next normal run rewrites the evidence
    ctx.note('replay', ctx.replay)
    ctx.count(evaluations=1, nontrivial_keys=[('replay', 1), ('replay', 2)])


# ---------------------------------------------------------------------------
def run(ctx):
    ctx.cov['rule'] = (
        '_delay: (clock instant: first/last two days of every month of 5 years '
        '(quick) / first, 15th, 28th and last two days of every month 2023-2032 '
        '(thorough), a full week, leap/century/range edges; 2 (quick) or 4 '
        '(thorough) times of day incl. microseconds) x (dow 0..6, dom 1..31, 4 '
        'dates, boot) x 5 times of day (quick: the model sees dom at 2 times of '
        'day, the oracle all), exact comparison in microseconds; non-trivial = instant within 1 '
        'day of a month end, or dom > 28, or weekday == today.  defer/dispatch/'
        'complete: directed scenarios (re-fire, armed timer, paused, dom-31 abort, '
        'double queue, the 300 s window to the microsecond) + seeded random scenarios; thorough adds an hourly sweep '
        'of the oracle over 2023-2032')
    ctx.trust(
        'python datetime as reference calendar (date.toordinal, isoweekday, '
        'timedelta arithmetic) -- Model/Delay.v ord/weekday are validated against '
        'it on every run over every day of 2023-2032 and the range edges',
        'drive_delay.py fakes: the name `datetime` inside dawgie.pl.schedule '
        '(clock), reactor.callLater (records the delay), dawgie.db.targets, '
        'chronicle.append (no-op); farm.dispatch represented by its status line '
        '(next_job_batch is the real one)',
    )
    ctx.assume(
        'a timer armed with reactor.callLater(n, ...) calls defer() once, n seconds '
        'later; exceptions inside it are logged and swallowed (DeferWithLogOnError)',
        'time of day of an event is a datetime.time without tzinfo; microseconds '
        'of the specification are ignored by _delay (hour, minute, second only)',
        'years 1..9998: at the end of year 9999 datetime overflows (modelled as '
        'Err OverflowError / ValueError, excluded from the theorems)',
    )
    fps = core.fingerprint('Python/dawgie/pl/schedule.py',
                           ['_delay', 'defer', 'periodics', 'complete'])
    fps.update(core.fingerprint('Python/dawgie/__init__.py', ['schedule']))
    fps.update(core.fingerprint('Python/dawgie/tools/compliant.py', ['rule_10']))
    ctx.note('fingerprints', fps)
    changed = [k for k, v in PINNED.items() if fps.get(k) != v]
    if changed:
        ctx.extra['escalated'] = changed
        ctx.log('fingerprint changed for %s: thorough depth' % changed)

    g = source_generate(ctx)
    r = ctx.coq_props()
    ctx.log('proofs: %s' % r['ok'])
    model_ok = r['ok'] or ctx.coq_build(['Model/Delay.vo'])[0]

    specs = build_specs()
    inst = instants(ctx)
    ordinals = []
    d = datetime.date(2023, 1, 1)
    while d < datetime.date(2033, 1, 1):
        ordinals.append([d.year, d.month, d.day])
        d += datetime.timedelta(days=1)
    for y in (1, 4, 100, 400, 1600, 1900, 2000, 2100, 9999):
        for m in range(1, 13):
            ordinals += [[y, m, 1], [y, m, dim(y, m)]]
    scs = scenarios(ctx, specs)
    boot_ix = [i for i, s in enumerate(specs) if 'boot' in s]
    pay = {'ordinals': ordinals, 'specs': specs,
           'sweep': {'instants': inst, 'specs': list(range(len(specs)))},
           'boot': [[i, [inst[0], inst[1], inst[5]]] for i in boot_ix],
           'scenarios': [{'events': s['events'], 'targets': s['targets'],
                          'steps': s['steps']} for s in scs]}
    deep = (not ctx.quick) or bool(ctx.extra.get('escalated'))
    if deep:
        pay['hourly'] = {'from': [2023, 1, 1], 'to': [2033, 1, 1], 'step_h': 1,
                         'minute': 30, 'second': 0, 'us': 0,
                         'specs': [i for i, s in enumerate(specs)
                                   if 'boot' not in s and s.get('time') in
                                   ([0, 4, 59], [12, 0, 0])]}
    # specifications outside what the compliance rules are documented to
    # accept: no time of day, ill-typed fields, two moments, none
    pay['malformed'] = (
        [{k: v} for k, v in (('dow', 0), ('dow', 6), ('dom', 1), ('dom', 15), ('day', [2026, 3, 2]))] +
        [{'dow': 2, 'time': None}, {'dom': 31, 'time': None}, {'boot': True, 'time': [12, 0, 0]},
         {'boot': False, 'dow': 1, 'time': [12, 0, 0]}, {'dow': 1, 'dom': 2, 'time': [12, 0, 0]},
         {}, {'time': [12, 0, 0]}, {'dow': 'mon', 'time': [12, 0, 0]}, {'dom': 1.5, 'time': [12, 0, 0]},
         {'dow': 0, 'time': 'noon'}])
    # (dom 0 / 32 and dow -1 / 7 are accepted by dawgie.schedule and rule_10 and make
    #  _delay raise or land on another weekday; the property quantifies over dom 1..31
    #  and the seven weekdays, so they are noted in DESIGN section 8, not checked here)
    pay['malformed_instants'] = [[2026, 3, 2, 0, 58, 0, 0], [2024, 2, 29, 23, 59, 59, 0],
                                 [2027, 12, 31, 12, 0, 0, 0], [2026, 11, 15, 6, 0, 0, 0]]
    out = ctx.harness('drive_delay.py', pay)
    ctx.log('driver done')
    nmal = 0
    for rec in out.get('malformed', []):
        if not rec.get('schedule') or not rec.get('rule_10'):
            continue               # refused by the API or by the gate: fine
        nmal += 1
        sp = rec['spec']
        bad = sorted({d for d in rec['delay'] if d.startswith('exc')})
        # dom 29..31 overflowing the next month is the recorded finding
        known = set(sp) >= {'dom', 'time'} and isinstance(sp.get('dom'), int) and 29 <= sp['dom'] <= 31
        if bad and not known:
            ctx.violation('accepted-spec-not-computable', {'spec': '+'.join(sorted(sp)) or 'empty'},
                          'dawgie.schedule and compliant.rule_10 accept the event specification %r but '
                          '_delay raises %s' % (sp, bad),
                          {'source': 'oracle', 'spec': sp, 'observed': rec,
                           'theorem': 'C20 "for every event specification the compliance rules accept"'})
    ctx.note('malformed_specs', {'tried': len(out.get('malformed', [])), 'accepted_by_api_and_gate': nmal})

    # ---- accepted specifications -------------------------------------------
    if out['rule_10'] != [True] * len(specs) or out['schedule_accepts'] != [True] * len(specs):
        ctx.broken('specifications of the sweep are no longer accepted by '
                   'dawgie.schedule / compliant.rule_10',
                   'rule_10=%r schedule=%r' % (out['rule_10'], out['schedule_accepts']),
                   {'source': 'correspondence'})

    # ---- oracle on the implementation --------------------------------------
    keys = []
    hist = {}
    for nowv, row in zip(inst, out['sweep']):
        for sp, got in zip(specs, row):
            k = kind_of(sp)
            tag = k + ':' + ('exc' if isinstance(got, str) else 'ok')
            hist[tag] = hist.get(tag, 0) + 1
            if classify_delay(ctx, sp, nowv, got):
                keys.append(('delay', nowv, sorted(sp.items())))
    for i, seq in zip(boot_ix, out['boot']):
        want = [[0, 1], ['NotKnowable', 1], ['NotKnowable', 1]]
        if seq != want:
            ctx.violation('boot-refires', {'spec': 'boot'},
                          'boot event %s evaluated three times gave %s (expected 0 '
                          'then not-knowable)' % (specs[i], seq),
                          {'source': 'oracle', 'spec': specs[i], 'observed': seq,
                           'theorem': 'C20_boot'})
    if deep:
        t = datetime.datetime(2023, 1, 1, 0, 30, tzinfo=datetime.UTC)
        hs = [specs[i] for i in pay['hourly']['specs']]
        nh = 0
        for row in out['hourly']:
            nowv = [t.year, t.month, t.day, t.hour, t.minute, t.second, 0]
            for sp, got in zip(hs, row):
                classify_delay(ctx, sp, nowv, got)
                nh += 1
            t += datetime.timedelta(hours=1)
        ctx.note('hourly_oracle_evaluations', nh)
    engine = out['engine']
    for sc, trace in zip(scs, out['scenarios']):
        scenario_oracle(ctx, sc, trace, engine)
    # every open finding must keep reproducing on its witness
    for kind in ('dom-next-month-overflow', 'dom-skips-current-month',
                 'periodic-never-refires'):
        hit = any(k.startswith(kind) for k in ctx.known_hits)
        ctx.expect_known(kind, hit)
        if not hit and not ctx.nviol:
            ctx.broken('recorded finding %s no longer reproduces on its witness' % kind,
                       'the code changed: the _refuted theorem of Props/C20.v and the '
                       'model no longer describe it', {'source': 'correspondence',
                                                       'finding': kind})
    ctx.note('delay_outcomes', hist)
    found_new = ctx.nviol > 0

    # ---- model vs implementation ---------------------------------------------
    mism = None
    nev = 0
    if found_new:
        # a concrete failing input is in hand: the verdict does not need the
        # (expensive) model evaluation
        ctx.note('model_skipped', 'oracle found a failing input')
        nev = sum(len(r) for r in out['sweep'])
    if model_ok and not found_new:
        pre = COQ_CODE + 'Definition specs : list event := [%s].\n' % ';'.join(
            '(1%%nat, %s)' % coq_moment(s) for s in specs)
        # quick: the model is compared on every dow spec, dom at two times of
        # day, the dates and boot; the oracle above saw every spec
        msel = [i for i, sp in enumerate(specs)
                if deep or 'dom' not in sp or sp['time'] in ([0, 4, 59], [12, 0, 0])]
        pre += 'Definition mspecs : list event := [%s].\n' % ';'.join(
            '(1%%nat, %s)' % coq_moment(specs[i]) for i in msel)
        exprs = ['map (fun e => code (fst (delay [] e %s))) mspecs' % coq_clock(v)
                 for v in inst]
        exprs.append('map (fun x => let \'(y, m, d) := x in (ord y m d, weekday (ord y m d) + 1)) [%s]'
                     % ';'.join('(%d,%d,%d)' % tuple(x) for x in ordinals))
        for i in boot_ix:
            b = '(1%%nat, %s)' % coq_moment(specs[i])
            exprs.append(
                'let r1 := delay [] %s %s in let r2 := delay (snd r1) %s %s in '
                'let r3 := delay (snd r2) %s %s in '
                '[(code (fst r1), List.length (snd r1)); (code (fst r2), List.length (snd r2)); '
                '(code (fst r3), List.length (snd r3))]'
                % (b, coq_clock(inst[0]), b, coq_clock(inst[1]), b, coq_clock(inst[5])))
        sc_terms = []
        for sc, trace in zip(scs, out['scenarios']):
            term, tid, nodes = coq_scenario(sc, specs, engine, trace)
            sc_terms.append((tid, nodes))
            exprs.append(term)
        vals = ctx.coq_eval(['DV.Model.Delay', 'DV.Model.DelayT'], exprs, preamble=pre, chunk=60)
        ctx.log('model evaluated')
        ni = len(inst)
        for nowv, row, mrow in zip(inst, out['sweep'], vals[:ni]):
            for sp, got, mv in zip([specs[i] for i in msel],
                                   [row[i] for i in msel], mrow):
                nev += 1
                ok = model_code(mv) == code_of(got)
                if not ok and mism is None:
                    mism = ('_delay', 'spec %s at %s: implementation %r, model %r'
                            % (sp, nowv, got, mv), {'spec': sp, 'now': nowv})
        mo = [tuple(x) for x in vals[ni]]
        io = [tuple(x) for x in out['ordinals']]
        nev += len(io)
        if mo != io and mism is None:
            k = [a != b for a, b in zip(mo, io)].index(True)
            mism = ('ord/weekday', 'date %s: python %s, model %s'
                    % (ordinals[k], io[k], mo[k]), {'date': ordinals[k]})
        for j, i in enumerate(boot_ix):
            mv = [(model_code(c), n) for (c, n) in vals[ni + 1 + j]]
            iv = [(code_of(g), n) for g, n in out['boot'][j]]
            nev += 3
            if mv != iv and mism is None:
                mism = ('boot sequence', 'spec %s: implementation %s, model %s'
                        % (specs[i], iv, mv), {'spec': specs[i]})
        base = ni + 1 + len(boot_ix)
        for k, (sc, trace) in enumerate(zip(scs, out['scenarios'])):
            tid, nodes = sc_terms[k]
            mt = [model_obs(v) for v in vals[base + k]]
            it = [impl_obs(s, tid, nodes) for st_, s in zip(sc['steps'], trace) if st_[0] != 'targets']
            nev += len(it)
            if mt != it and mism is None:
                j = [a != b for a, b in zip(mt, it)].index(True) if len(mt) == len(it) else 0
                msteps = [st_ for st_ in sc['steps'] if st_[0] != 'targets']
                mism = ('defer scenario', '%s step %d %s: implementation %s, model %s'
                        % (sc['name'], j, msteps[j] if j < len(msteps) else None, it[j] if j < len(it) else None,
                           mt[j] if j < len(mt) else None),
                        {'scenario': sc, 'step': j})
            if any(len(e) for e in [sc['events']]) and len(sc['steps']) > 2:
                keys.append(('scenario', sc['events'], sc['steps']))
    nev += source_validate(ctx, g, r, specs, inst, out, scs, found_new or bool(mism))
    ctx.count(evaluations=nev, nontrivial_keys=keys)
    ctx.sample({'now': inst[3], 'spec': specs[0], 'impl_us': out['sweep'][3][0]})
    ctx.sample({'now': inst[3], 'spec': specs[35 + 30 * 5], 'impl_us': out['sweep'][3][35 + 30 * 5]})
    ctx.sample({'scenario': scs[0]['name'], 'steps': scs[0]['steps'],
                'que_per_step': [s['que'] for s in out['scenarios'][0]]})
    ctx.note('instants', len(inst))
    ctx.note('specs', len(specs))
    ctx.note('scenarios', len(scs))

    if not r['ok'] and not found_new:
        ctx.broken('theorem/file %s' % r['failing'], r['log'],
                   {'source': 'proof', 'theorem': r['failing']})
    if mism and not found_new:
        ctx.broken('correspondence %s' % mism[0], mism[1],
                   dict(mism[2], source='correspondence'))
