'''C15 end to end (names): the model Model/BuildNames.v (+ generated
Gen/BuildNamesGen.v) against the REAL record -> shelve.update ->
shelve.versions -> version.current -> schedule.build chain
(tools/harness/drive_buildnames.py), and an oracle evaluated on the
implementation's own observations from what was registered.'''
from props import sched_common
from vlib import core


def nm(s):
    return '[' + '; '.join(str(ord(c)) for c in s) + ']'


def ver(v):
    return '(%d, %d, %d)%%Z' % tuple(v)


def engine_term(eng):
    tasks = []
    for tn, algs in eng:
        al = []
        for an, av, svs in algs:
            sl = []
            for sn, sv, vals in svs:
                vl = '; '.join('(%s, %s)' % (nm(vn), ver(vv)) for vn, vv in vals)
                sl.append('mk_sv %s %s [%s]' % (nm(sn), ver(sv), vl))
            al.append('mk_alg %s %s [%s]' % (nm(an), ver(av), '; '.join(sl)))
        tasks.append('mk_task %s [%s]' % (nm(tn), '; '.join(al)))
    return '[' + '; '.join(tasks) + ']'


def idents_term(ids):
    return '[' + '; '.join('mkid %s %s %s %s %s %s %s' % (nm(t), nm(a), ver(av), nm(s), ver(sv), nm(v), ver(vv))
                           for t, a, av, s, sv, v, vv in ids) + ']'


def tostr(codes):
    return ''.join(chr(c) for c in codes)


def expected_changed(eng, ids):
    '''independent reference on tuples of names (no joined strings): the
    algorithms with a version that was never registered for exactly its name'''
    ra = {(t, a, tuple(av)) for t, a, av, s, sv, v, vv in ids}
    rs = {(t, a, s, tuple(sv)) for t, a, av, s, sv, v, vv in ids}
    rv = {(t, a, s, v, tuple(vv)) for t, a, av, s, sv, v, vv in ids}
    out = {}
    for tn, algs in eng:
        for an, av, svs in algs:
            why = None
            if (tn, an, tuple(av)) not in ra:
                why = 'algorithm version %s' % (av,)
            for sn, sv, vals in svs:
                if vals and (tn, an, sn, tuple(sv)) not in rs:
                    why = why or 'state vector %s version %s' % (sn, sv)
                for vn, vv in vals:
                    if (tn, an, sn, vn, tuple(vv)) not in rv:
                        why = why or 'value %s.%s version %s' % (sn, vn, vv)
            out.setdefault((tn, an), why)
    return out


def confusable(tags):
    '''some tag is a proper prefix of another one / shares the part up to a dot'''
    for a in tags:
        for b in tags:
            if a != b and (b.startswith(a) or a.split('.')[1] == b.split('.')[1]
                           or b.split('.')[1].startswith(a.split('.')[1])):
                return True
    return False


def names_study(ctx, gen_ok, gen_msg, proofs_ok):
    ctx.trust('translator tools/translate/buildnames2coq.py (schedule._diff, the set comprehension of '
              'schedule.build and the test of dag.Node.locate -> Gen/BuildNamesGen.v; every other statement '
              'of build()/locate() pinned by its ast, fail closed)',
              'hand model Model/BuildNames.v of pl.version.current and of the collation loop of '
              'shelve.versions(), tied by tools/harness/drive_buildnames.py: real record()/shelve.update '
              'registrations in a temp shelve catalogue, real versions()/current()/build(), compared with '
              'the model (current, persisted, queue and todo of every node) on generated engines with '
              'confusable names')
    if not gen_ok:
        ctx.note('buildnames_translator', 'refused: ' + gen_msg[-300:])
        ctx.cov['discharged'] = 0
    n = ctx.n(40, 500) if gen_ok and proofs_ok else 500
    cases = [{'seed': '%d:%d' % (ctx.seed, i), 'nalg': 4 + i % 5,
              'mode': 'mixed' if i % 12 else ('none' if i % 24 else 'all')} for i in range(n)]
    results = []
    for k in range(0, len(cases), 100):
        results += ctx.harness('drive_buildnames.py', {'cases': cases[k:k + 100]})['cases']
    nontriv, bad = [], False
    fates = {}
    nconf = 0
    for cs, r in zip(cases, results):
        if 'exc' in r:
            ctx.violation('persisted-versions-raises', {'exc': r['exc']},
                          'shelve.versions() raises %s after plain registrations' % r['exc'],
                          {'source': 'oracle', 'idents': r['idents'], 'desc': r['desc'],
                           'theorem': 'C15_end_to_end'})
            bad = True
            continue
        tags = r['tags']
        exp = expected_changed(r['engine'], r['idents'])
        if set(tags) != {'.'.join(k) for k in exp}:
            ctx.broken('driver: the nodes of the algorithm tree are not the algorithms of the descriptor',
                       'tags=%s engine=%s' % (tags, sorted(exp)), {'source': 'correspondence', 'desc': r['desc']})
            return
        for f in r['fates'].values():
            fates[f] = fates.get(f, 0) + 1
        nchanged = sum(1 for v in exp.values() if v)
        if 0 < nchanged < len(tags) and confusable(tags):
            nontriv.append(('names', cs['seed']))
        nconf += confusable(tags)
        g = r['graph']
        for (tn, an), why in exp.items():
            tag = '.'.join([tn, an])
            y = tags.index(tag)
            if (r['fates'][tag] not in ('same', 'same-split')) != bool(why):
                ctx.broken('driver: the generated history of %s does not have the intended effect' % tag,
                           'fate=%s reference=%s' % (r['fates'][tag], why), {'source': 'correspondence', 'desc': r['desc']})
                return
            want = ([0] if g['nodes'][y]['fac'] == 1 else list(range(1, len(g['tnames'])))) if why else []
            got = r['obs']['nodes'][y]
            if got[0] != sorted(want) or got[1] or (y in r['obs']['que']) != bool(why):
                ctx.violation('build-names-not-exact', {'node': 'changed' if why else 'unchanged'},
                              'after registering %d identities and build(): algorithm %s (%s) has todo %s, in queue=%s'
                              % (len(r['idents']), tag, why or 'every version registered for exactly this name',
                                 got[0], y in r['obs']['que']),
                              {'source': 'oracle', 'desc': r['desc'], 'idents': r['idents'], 'latest': r['latest'],
                               'previous': r['previous'], 'theorem': 'C15_end_to_end'})
                bad = True
    ctx.count(evaluations=len(results), nontrivial_keys=nontriv)
    ctx.note('build_names_cases', {'cases': len(results), 'with_confusable_names': nconf,
                                   'registered_identities': sum(len(r.get('idents', [])) for r in results),
                                   'algorithm_fates': fates})
    ok_results = [(cs, r) for cs, r in zip(cases, results) if 'exc' not in r]
    if ok_results:
        r = ok_results[0][1]
        ctx.sample({'build_names_case': {'tags': r['tags'], 'registered': r['idents'][:4],
                                         'fates': r['fates'], 'queue_after': r['obs']['que']}})
    if bad:
        return    # a failing input is on the table: the verdict does not depend on the correspondence
    if not gen_ok:
        if not bad:
            ctx.broken('translator buildnames2coq.py refuses schedule.build / dag.Node.locate', gen_msg,
                       {'source': 'translator'})
        return
    exprs = []
    for cs, r in ok_results:
        c = sched_common.cfg_term(r['graph'])
        exprs.append(
            'let e := %s in let ct := registered %s in '
            '(current e, persisted ct, '
            'match build_names %s %s e ct %s (init %s) with '
            'Some s => Some (que s, map (fun n => (todo n, doing n)) (ns s)) | None => None end)'
            % (engine_term(r['engine']), idents_term(r['idents']), c,
               '[' + '; '.join(nm(t) for t in r['tags']) + ']', sched_common.nl(r['obs']['que']), c))
    try:
        vals = ctx.coq_eval(['DV.Model.Store', 'DV.Model.Sched', 'DV.Model.BuildNames'], exprs, z_scope=False, chunk=14)
    except core.CoqEvalError as e:
        if not bad:
            ctx.broken('model evaluation of build_names failed (generated BuildNamesGen.v does not compile?)',
                       str(e.args[-1])[-2000:], {'source': 'correspondence'})
        return
    for (cs, r), (l0, l1, l2, per, built) in zip(ok_results, vals):
        cur = (l0, l1, l2)
        m_latest = [sorted([tostr(k), tostr(v)] for k, v in d) for d in cur]
        i_latest = [[list(x) for x in d] for d in r['latest']]
        mism = None
        if m_latest != i_latest:
            mism = ('version.current', i_latest, m_latest)
        elif per is None:
            mism = ('shelve.versions', r['previous'], 'raises')
        else:
            ts, p1, p2, p3 = per[1]
            m_prev = [sorted(tostr(t) for t in ts)] + [sorted([tostr(k), sorted(tostr(v) for v in vs)] for k, vs in d)
                                                     for d in (p1, p2, p3)]
            i_prev = [r['previous'][0]] + [[[k, sorted(vs)] for k, vs in d] for d in r['previous'][1:]]
            if m_prev != i_prev:
                mism = ('shelve.versions', i_prev, m_prev)
            else:
                que, nodes = built[1]
                m_nodes = [[sorted(td), sorted(dg)] for td, dg in nodes]
                if que != r['obs']['que'] or m_nodes != r['obs']['nodes']:
                    mism = ('schedule.build', [r['obs']['que'], r['obs']['nodes']], [que, m_nodes])
        if mism:
            if not bad:
                ctx.broken('correspondence build (names): model BuildNames.v and the real %s disagree' % mism[0],
                           'seed=%s impl=%s model=%s' % (cs['seed'], mism[1], mism[2]),
                           {'source': 'correspondence', 'desc': r['desc'], 'idents': r['idents'],
                            'expected': mism[2], 'observed': mism[1]})
            return
