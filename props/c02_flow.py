'''C02 end-state study: whole reprocessing histories run end to end on the real
scheduler + farm.dispatch + worker + shelve store (tools/harness/drive_flow.py)
and on coq/Model/Flow.v; step-by-step comparison of the run ids handed out and
of the final primary table; and the end-state oracle evaluated on the
IMPLEMENTATION's own store (independent of the model): latest stored content
(highest run id) of every (target, value) against a from-scratch evaluation in
dependency order.'''
import json
import random

from vlib import core
from props import sched_common as sc


def alg(name, deps, nvals=1, lvl='v'):
    return {'name': name,
            'svs': [{'name': 's', 'vals': [('v%d' % k, (1, 0, 0)) for k in range(nvals)]}],
            'deps': [(lvl, 'p', 'task', d, 's', 'v0') for d in deps], 'fb': []}


def engine(spec):
    '''spec: list of (name, [parent names]) in dependency order'''
    return {'pkgs': {'p': {'task': [alg(n, d) for n, d in spec]}}}


CHAIN3 = engine([('a', []), ('b', ['a']), ('c', ['b'])])
DIAMOND = engine([('a', []), ('b', ['a']), ('c', ['a']), ('d', ['b', 'c'])])
TWOROOTS = engine([('a', []), ('b', []), ('c', ['a', 'b'])])
# two roots, a long and a short path to the same sink
VEE = engine([('a', []), ('b', []), ('c', ['b']), ('d', ['a', 'c'])])


def algmv(name, deps, nvals):
    '''deps: list of (parent algorithm, index of the parent's value that is declared)'''
    return {'name': name,
            'svs': [{'name': 's', 'vals': [('v%d' % k, (1, 0, 0)) for k in range(nvals)]}],
            'deps': [('v', 'p', 'task', d, 's', 'v%d' % k) for d, k in deps], 'fb': []}


def engine_mv(spec):
    return {'pkgs': {'p': {'task': [algmv(n, d, k) for n, d, k in spec]}}}


# several values per algorithm, a child declares only some of them
# (= ex_mv of coq/Props/C02.v)
MV1 = engine_mv([('a', [], 2), ('b', [('a', 0)], 1), ('c', [('a', 1)], 2), ('d', [('b', 0), ('c', 1)], 1)])
# two roots; c declares one value of each; d declares c's second and a's second value
MV2 = engine_mv([('a', [], 2), ('b', [], 1), ('c', [('a', 0), ('b', 0)], 2), ('d', [('c', 1), ('a', 1)], 2),
                 ('e', [('c', 0)], 1)])
ENGINES = {'chain3': CHAIN3, 'diamond': DIAMOND, 'tworoots': TWOROOTS, 'vee': VEE, 'mv1': MV1, 'mv2': MV2}

# The model image of the open finding endstate-stale (= C02_endstate_refuted in
# coq/Props/C02.v): roots a (0), b (1); c (2) reads b; d (3) reads a and c.
# Both roots change (run 1); while c is executing, a changes again (run 2) and
# its report marks d for run 2; then c's report (run 1) overwrites d's single
# run id with 1; d runs once, under run 1, finds the exact-run entry a@1
# although a@2 exists, and nothing triggers it again.
WITNESS = {
    'name': 'witness-endstate-stale', 'desc': VEE, 'targets': ['T1'],
    'events': None,  # filled by witness_events()
}


def witness_events():
    # see coq/Model/Flow.v / Props/C02.v: ex_stale_hist
    return [['chg', [0, 1], [1]], ['tick'], ['run', 0], ['run', 0], ['tick'],
            ['chg', [0], [1]], ['tick'], ['run', 1], ['run', 0], ['tick'], ['run', 0]]


# A job whose own run id is LOWER than the only entries of one of its inputs
# (overlap): _load must fall back to the highest run id, whatever it is.
# settled first event (run 1); b changes (run 2), c executes under 2; a changes
# (run 3) and reports; c reports (d's run id back to 2); d runs under 2 and has
# no entry a@2: it must load a@3.
HIGHER = {
    'name': 'directed-higher-run', 'desc': VEE, 'targets': ['T1'],
    'events': [['chg', [0, 1], [1]], ['tick'], ['run', 0], ['run', 0], ['tick'], ['run', 0], ['tick'], ['run', 0],
               ['chg', [1], [1]], ['tick'], ['run', 0], ['tick'], ['chg', [0], [1]], ['tick'], ['run', 1], ['run', 0],
               ['tick'], ['run', 0]],
}


# three settled events on two roots: the third run of c has no entry of its own
# run for b and must fall back to the LATEST b (run 2), not the first
THREE = {
    'name': 'directed-three-events', 'desc': TWOROOTS, 'targets': ['T1'],
    'events': [['chg', [0, 1], [1]], ['tick'], ['run', 1], ['run', 0], ['tick'], ['run', 0],
               ['chg', [1], [1]], ['tick'], ['run', 0], ['tick'], ['run', 0],
               ['chg', [0], [1]], ['tick'], ['run', 0], ['tick'], ['run', 0]],
}


def nl(xs):
    return '[' + '; '.join('%d' % int(x) for x in xs) + ']'


def fcfg_term(g):
    return '{| fc := %s; fouts := [%s] |}' % (sc.cfg_term(g), '; '.join(nl(n['outs']) for n in g['nodes']))


def fev_term(e):
    if e[0] == 'chg':
        return '(FChg %s %s)' % (nl(e[1]), nl(e[2]))
    if e[0] == 'tick':
        return 'FTick'
    if e[0] == 'run':
        return '(FRun %d)' % e[1]
    raise ValueError(e)


def fev2_term(e):
    if e[0] == 'fail':
        return '(FFail %d)' % e[1]
    return '(F1 %s)' % fev_term(e)


def content_py(t):
    '''parsed Coq content -> the nested lists the driver prints'''
    if t == ('CNone',) or t is None:
        return None
    tag, v, tg, base, ins = t
    assert tag == 'CVal'
    return [v, tg, base, [content_py(i) for i in ins]]


def model_eval(ctx, results):
    exprs = []
    for r in results:
        c = fcfg_term(r['graph'])
        es = '[' + '; '.join(fev2_term(e) for e in r['events']) + ']'
        # Model/Flow2.v = Model/Flow.v + failing runs; on a history without a
        # failure its run IS the run of Flow.v (Proofs/Flow2Inv.v frun_all2_embed)
        exprs.append('let c := %s in let es := %s in let g := frun_all2 c (finit2 c) es in let f := fs g in '
                     '(ftrace2 c (finit2 c) es, store_dump f, quiescent c f, stale_values c f, '
                     'nonoverlap2 c (finit2 c) es, wd_units g, locally_stale c f, flow_ok_mv c, flow_ok c, '
                     'hist_ok2 c (finit2 c) es)' % (c, es))
    vals = ctx.coq_eval(['DV.Model.Sched', 'DV.Model.Flow', 'DV.Model.Flow2', 'DV.Proofs.FlowInv',
                         'DV.Proofs.Flow3Inv', 'DV.Proofs.Flow2Main'], exprs, z_scope=False, chunk=8)
    out = []
    for v in vals:
        tr, dump, q, stale, nov, wdu, lst, okmv, ok1, hok = v
        obs = []
        for (que, nodes, cluster, nxt) in tr:
            obs.append({'que': que,
                        'nodes': [[sorted(td), sorted(dg), None if rid is None else rid[1]] for td, dg, rid in nodes],
                        'cluster': [list(m) for m in cluster], 'next': nxt})
        store = sorted(([r, t, vn, content_py(cn)] for r, t, vn, cn in dump), key=lambda e: e[:3])
        out.append({'obs': obs, 'store': store, 'quiescent': q, 'stale': sorted(list(x) for x in stale),
                    'nonoverlap': nov, 'wd': sorted(list(x) for x in wdu),
                    'lstale': sorted(list(x) for x in lst), 'in_class_mv': okmv, 'in_class_single': ok1, 'hist_ok2': hok})
    return out


def impl_obs(o):
    return {'que': o['que'], 'nodes': o['nodes'], 'cluster': o['cluster'], 'next': o['next']}


def first_mismatch(r, m):
    for i, (a, b) in enumerate(zip(r['obs'], m['obs'])):
        ca = impl_obs(a)
        if ca != b:
            keys = [k for k in ca if ca[k] != b[k]]
            return i, keys, {k: ca[k] for k in keys}, {k: b[k] for k in keys}
    if len(r['obs']) != len(m['obs']):
        return min(len(r['obs']), len(m['obs'])), ['length'], {}, {}
    if r['store'] != m['store']:
        return len(r['obs']), ['store'], {'store': r['store']}, {'store': m['store']}
    if bool(r['quiescent']) != bool(m['quiescent']):
        return len(r['obs']), ['quiescent'], r['quiescent'], m['quiescent']
    return None


# ---- the oracle, on the implementation's observations only -----------------
def scratch(r):
    '''from-scratch evaluation in dependency order from the engine description
    and the external inputs the driver reports'''
    g = r['graph']
    rin = {(x, t): k for x, t, k in r['root_in']}
    order = sorted(range(len(g['nodes'])), key=lambda x: g['nodes'][x]['lvl'])
    want = {}
    for t in range(1, len(g['tnames'])):
        val = {}
        for x in order:
            nd = g['nodes'][x]
            ins = [val.get(i) for i in nd['ins']]
            base = rin.get((x, t), 0) if not nd['ins'] else 0
            for v in nd['outs']:
                val[v] = [v, t, base, ins]
        for v, c in val.items():
            want[(t, v)] = c
    return want


def latest(r):
    best = {}
    for rid, t, v, c in r['store']:
        if (t, v) not in best or rid > best[(t, v)][0]:
            best[(t, v)] = (rid, c)
    return best


def overlapping(r):
    '''some change event arrived while work was pending or executing'''
    for i, e in enumerate(r['events']):
        if e[0] == 'chg' and i > 0:
            o = r['obs'][i - 1]
            if o['cluster'] or any(n[0] or n[1] for n in o['nodes']):
                return True
    return False


def oracle(r):
    '''list of (target, value, got, want) stale at a quiescent end'''
    if not r['quiescent']:
        return []
    want = scratch(r)
    got = latest(r)
    bad = []
    for k, w in sorted(want.items()):
        g = got.get(k, (None, None))[1]
        if g != w:
            bad.append([k[0], k[1], g, w])
    return bad


# ---- the end-state oracle for histories with FAILED runs -------------------
# (implementation's observations only)  A failed run of (x, T) withdraws T from x
# and from everything below x (schedule.purge).  Statement checked:
#  (1) every (algorithm, target) none of whose upstream units (itself included,
#      upstream = along declared inputs) is withdrawn holds the from-scratch
#      content;
#  (2) a withdrawn unit holds what it held when it was withdrawn.
# withdrawn = reached by the purge of a failed run and no successful run since.
def has_fail(r):
    return any(e[0] == 'fail' for e in r['events'])


def below(g, x):
    seen, todo = set(), [x]
    while todo:
        y = todo.pop()
        if y not in seen:
            seen.add(y)
            todo.extend(g['nodes'][y]['kids'])
    return seen


def above(g, x):
    own = {v: y for y, nd in enumerate(g['nodes']) for v in nd['outs']}
    seen, todo = set(), [x]
    while todo:
        y = todo.pop()
        if y not in seen:
            seen.add(y)
            todo.extend(own[i] for i in g['nodes'][y]['ins'])
    return seen


def latest_of(store):
    best = {}
    for rid, t, v, c in store:
        if (t, v) not in best or rid > best[(t, v)][0]:
            best[(t, v)] = (rid, c)
    return best


def withdrawn(r):
    g = r['graph']
    W = {}
    for e, o in zip(r['events'], r['obs']):
        if e[0] == 'fail' and o.get('failed'):
            x, t = o['failed']
            now = latest_of(o['store_now'])
            for y in sorted(below(g, x)):
                if (y, t) not in W:
                    W[(y, t)] = {v: now.get((t, v), (None, None))[1] for v in g['nodes'][y]['outs']}
        elif e[0] == 'run' and o.get('ran'):
            W.pop(tuple(o['ran']), None)
    return W


def local_stale(r):
    '''units whose latest content is not what the algorithm computes from the
    latest content of its inputs'''
    g = r['graph']
    rin = {(x, t): k for x, t, k in r['root_in']}
    got = latest_of(r['store'])
    out = []
    for t in range(1, len(g['tnames'])):
        for x, nd in enumerate(g['nodes']):
            ins = [got.get((t, i), (None, None))[1] for i in nd['ins']]
            base = rin.get((x, t), 0) if not nd['ins'] else 0
            if any(got.get((t, v), (None, None))[1] != [v, t, base, ins] for v in nd['outs']):
                out.append([t, x])
    return out


def oracle_fail(r):
    '''list of (target, value, got, want) violating (1) or (2) at a quiescent end'''
    if not r['quiescent']:
        return []
    g = r['graph']
    W = withdrawn(r)
    want = scratch(r)
    got = latest_of(r['store'])
    bad = []
    for t in range(1, len(g['tnames'])):
        for x, nd in enumerate(g['nodes']):
            if any((a, t) in W for a in above(g, x)):
                continue
            for v in nd['outs']:
                gv = got.get((t, v), (None, None))[1]
                if gv != want[(t, v)]:
                    bad.append([t, v, gv, want[(t, v)]])
    for (y, t), held in sorted(W.items()):
        for v, c in sorted(held.items()):
            gv = got.get((t, v), (None, None))[1]
            if gv != c:
                bad.append([t, v, gv, c])
    return bad


# c (of the diamond) fails in the first event: d is withdrawn although b reported
# a new value; the second event re-runs everything (= Flow2.ex_fail_hist2)
FAIL1 = {
    'name': 'directed-fail-diamond', 'desc': DIAMOND, 'targets': ['T1'],
    'events': [['chg', [0], [1]], ['tick'], ['run', 0], ['tick'], ['run', 0], ['fail', 0], ['tick'],
               ['chg', [0], [1]], ['tick'], ['run', 0], ['tick'], ['run', 1], ['run', 0], ['tick'], ['run', 0]],
}
# two roots: c fails for T1 (d withdrawn for T1), then d fails for T2; only a
# changes afterwards: d is re-run for T1 and reads c's missing value; c stays withdrawn
FAIL2 = {
    'name': 'directed-fail-vee', 'desc': VEE, 'targets': ['T1', 'T2'],
    'events': [['chg', [0, 1], [1, 2]], ['tick'], ['run', 0], ['run', 2], ['run', 0], ['run', 0], ['tick'],
               ['run', 1], ['fail', 0], ['tick'], ['fail', 0], ['chg', [0], [1]], ['tick'], ['run', 0], ['tick'],
               ['run', 0]],
}


# several values per algorithm (= ex_mv / ex_fail_hist2 of coq/Props/C02.v): c fails, then all succeed
MVFAIL = {
    'name': 'directed-fail-multivalue', 'desc': MV1, 'targets': ['T1'],
    'events': FAIL1['events'],
}


def gen_cases(ctx, n, profile, label, names=None):
    cases = []
    names = names or ['vee', 'tworoots', 'diamond', 'chain3']
    for i in range(n):
        rng = random.Random('%s:%s:%d' % (ctx.seed, label, i))
        en = names[i % len(names)] if i < len(names) else rng.choice(names)
        cases.append({'name': '%s:%s:%d' % (label, en, i), 'desc': ENGINES[en],
                      'targets': ['T1', 'T2'] if rng.random() < 0.5 else ['T1'],
                      'seed': '%s:%s:%d' % (ctx.seed, label, i), 'profile': profile,
                      'nev': rng.randint(10, 22), 'maxchg': 3})
    return cases


def gen_fail_cases(ctx, n):
    cases = gen_cases(ctx, n, 'nonoverlap', 'flow-fail', ['mv1', 'vee', 'mv2', 'diamond', 'tworoots'])
    for i, c in enumerate(cases):
        c['pfail'] = 0.3
        c['maxchg'] = 4
        c['nev'] += 8
    return cases


def study(ctx):
    '''returns (n histories, nontrivial keys)'''
    ctx.trust('Flow.v + drive_flow.py correspondence (fakes: in-memory AE packages whose run() stores a canonical text of what was loaded, db socket hop short-circuited, lock stubs, fsm stub, md5sum/sha1sum answered by hashlib after the first real calls agreed)')
    ctx.assume('worker hand-out, archive trigger, analyses/regressions, feedback and promotion are outside Model/Flow.v / Flow2.v; a failed run is an algorithm that raises before it updates its data set (nothing stored); the end-state theorems are about task-only engines (one or several values per algorithm, every value computed from all declared inputs) and non-overlapping change events')
    w = dict(WITNESS, events=witness_events())
    cases = [w, HIGHER, THREE]
    cases += gen_cases(ctx, ctx.n(2, 12), 'nonoverlap', 'flow-no')
    cases += gen_cases(ctx, ctx.n(1, 12), 'overlap', 'flow-ov')
    cases += [FAIL1, FAIL2, MVFAIL] + gen_fail_cases(ctx, ctx.n(2, 16))
    cases += gen_cases(ctx, ctx.n(1, 8), 'nonoverlap', 'flow-mv', ['mv2', 'mv1'])
    res = ctx.harness('drive_flow.py', {'cases': cases}, timeout=3000)['cases']
    for c, r in zip(cases, res):
        r['name'] = c['name']
    model = model_eval(ctx, res)
    nmis = 0
    keys = []
    hit_witness = False
    # first the oracle on every history (failing inputs), then the correspondence
    parted = []
    for r, m in zip(res, model):
        if not r.get('digest_standin_agrees', True):
            ctx.broken('drive_flow.py: the hashlib stand-in disagrees with md5sum/sha1sum', r['name'],
                       {'source': 'flow', 'case': r['name']})
        mm = first_mismatch(r, m)
        if not m['in_class_mv']:
            ctx.broken('flow: the engine of history %s is outside the class flow_ok_mv of the end-state theorems'
                       % r['name'], json.dumps(r['graph']), {'source': 'flow', 'case': r['name']})
        wf = has_fail(r)
        bad = oracle_fail(r) if wf else oracle(r)
        ov = overlapping(r)
        if ov != (not m['nonoverlap']) and mm is None:
            mm = (0, ['nonoverlap'], ov, m['nonoverlap'])
        if bad:
            cause = 'overlapping-change-events' if ov else 'non-overlapping-change-events'
            ctx.violation('endstate-stale', {'cause': cause},
                          'C02 end state: at quiescence the latest stored content of %d value(s) differs from %s '
                          '(history %s, %s): e.g. target %d value %s holds %s, expected %s'
                          % (len(bad), 'a from-scratch run in dependency order (units with all upstream runs '
                             'succeeded) or from what a withdrawn unit held' if wf else
                             'a from-scratch run in dependency order', r['name'], cause, bad[0][0], r['graph']['vnames'][bad[0][1]],
                             json.dumps(bad[0][2]), json.dumps(bad[0][3])),
                          {'source': 'flow', 'case': {'desc': r['desc'], 'targets': r['graph']['tnames'][1:],
                                                      'events': r['events']}})
            if r['name'] == w['name'] and ov:
                hit_witness = True
        # the model must agree about staleness, too
        if mm is None and r['quiescent'] and not wf and sorted(b[:2] for b in bad) != m['stale']:
            mm = (len(r['obs']), ['stale'], sorted(b[:2] for b in bad), m['stale'])
        if mm is None and wf:
            wi = sorted([y, t] for (y, t) in withdrawn(r))
            if wi != m['wd']:
                mm = (len(r['obs']), ['withdrawn'], wi, m['wd'])
            elif sorted(local_stale(r)) != m['lstale']:
                mm = (len(r['obs']), ['locally-stale'], sorted(local_stale(r)), m['lstale'])
        if mm is not None:
            nmis += 1
            parted.append((r, mm))
        nruns = sum(1 for e, o in zip(r['events'], r['obs']) if e[0] == 'run' and o.get('wrote'))
        nchg = sum(1 for e in r['events'] if e[0] == 'chg')
        if nchg >= 2 and nruns >= 4 and r['quiescent']:
            keys.append('flow:' + r['name'])
        if m['in_class_mv'] and not m['in_class_single'] and r['quiescent'] and nruns >= 4:
            keys.append('flow-mv:' + r['name'])
        if wf and r['quiescent'] and nruns >= 3 and any(
                e[0] == 'fail' and o.get('failed') and len(below(r['graph'], o['failed'][0])) > 1
                for e, o in zip(r['events'], r['obs'])):
            keys.append('flow-fail:' + r['name'])
    for r, mm in parted:
        if ctx.nviol:
            ctx.note('flow_mismatch_explained_by_violation', True)
            break
        ctx.broken('flow correspondence: Model/Flow.v and the real scheduler+store part at step %d of %s (%s)'
                   % (mm[0], r['name'], ','.join(mm[1])),
                   json.dumps({'impl': mm[2], 'model': mm[3], 'events': r['events'][:mm[0] + 1]}, default=str),
                   {'source': 'flow', 'case': {'desc': r['desc'], 'targets': r['graph']['tnames'][1:],
                                               'events': r['events']}})
    ctx.expect_known('endstate-stale', hit_witness)
    if not hit_witness and not ctx.nviol:
        ctx.broken('known finding endstate-stale no longer reproduces: the witness history of C02_endstate_refuted '
                   'ends consistent on the real scheduler+store', json.dumps(res[0]['store']),
                   {'source': 'flow', 'case': {'desc': w['desc'], 'targets': w['targets'], 'events': w['events']}})
    ctx.note('flow_histories', len(res))
    ctx.note('flow_events', sum(len(r['events']) for r in res))
    ctx.note('flow_runs_through_real_store', sum(1 for r in res for e in r['events'] if e[0] == 'run'))
    ctx.note('flow_failed_runs_through_real_worker', sum(1 for r in res for e in r['events'] if e[0] == 'fail'))
    # histories that satisfy every hypothesis of C02_endstate_failures_partial / C02_endstate_mv_partial
    ctx.note('flow_histories_inside_theorem_hypotheses',
             sum(1 for r, m in zip(res, model) if m['hist_ok2'] and m['in_class_mv'] and r['quiescent']))
    ctx.note('flow_histories_multivalue_engines', sum(1 for m in model if m['in_class_mv'] and not m['in_class_single']))
    ctx.note('flow_histories_with_failures', sum(1 for r in res if has_fail(r)))
    ctx.note('flow_units_withdrawn_at_end', sum(len(withdrawn(r)) for r in res if has_fail(r)))
    ctx.note('flow_overlapping_histories', sum(1 for r in res if overlapping(r)))
    ctx.note('flow_mismatches', nmis)
    return len(res), keys


def replay(ctx, obj):
    case = dict(obj['case'], name='replay')
    res = ctx.harness('drive_flow.py', {'cases': [case]})['cases']
    res[0]['name'] = 'replay'
    model = model_eval(ctx, res)
    mm = first_mismatch(res[0], model[0])
    bad = oracle_fail(res[0]) if has_fail(res[0]) else oracle(res[0])
    ctx.log('replay: mismatch=%s stale=%s overlapping=%s' % (mm, bad, overlapping(res[0])))
    if bad:
        ctx.violation('endstate-stale',
                      {'cause': 'overlapping-change-events' if overlapping(res[0]) else 'non-overlapping-change-events'},
                      'C02 end state: stale values %s' % json.dumps(bad), {'source': 'flow', 'case': obj['case']})
    elif mm is not None:
        ctx.broken('flow correspondence parts at step %d (%s)' % (mm[0], ','.join(mm[1])),
                   json.dumps({'impl': mm[2], 'model': mm[3]}, default=str), {'source': 'flow', 'case': obj['case']})
