'''C16 -- engine descriptors for the compliance gate (shared by props/C16.py
and tools/harness/drive_gate.py; stdlib only).

A descriptor is plain JSON mirroring the records of coq/Model/Gate.v:

engine  {"pkgs": [pkg, ...]}
pkg     {"name": str, "analysis": fac|None, "events": efac|None,
         "regress": fac|None, "task": fac|None}
fac     {"params": [[default, annot], ...], "bot_ok": bool, "algs": [alg, ...]}
          default: None (no default) | int | str      annot: None|"str"|"int"|"other"
efac    {"params": [...], "events": [{"isevent": bool, "owner": [kind, algidx]|None,
          "moment": {"boot": None|True|False, "day"|"dom"|"dow"|"time": "none"|"good"|"bad"}}]}
alg     {"isalg": bool, "name": str|None, "ver": "ok"|"bad"|"exc", "deps": [ref]|None,
         "fb": [ref], "svs": [sv]|None, "run": bool}
sv      {"issv": bool, "name": str|None, "ver": .., "items": [value], "view": bool}
value   {"key": str, "isval": bool, "ver": .., "pick": bool, "feat": bool}
ref     {"lvl": "alg"|"sv"|"v"|"none", "fac": [pkgidx, kind]|None, "impl_ok": bool,
         "home": pkgidx, "impl_name": str, "impl_svs": [[name, [keys]], ...],
         "item_ok": bool, "item": [name, [keys]], "feat": str|None,
         "real": [pkgidx, kind, algidx, svidx|None]|None}   # rendering hint only
'''
import copy
import itertools

KINDS = ['analysis', 'events', 'regress', 'task']       # order of dawgie.Factories
AKINDS = ['analysis', 'regress', 'task']
COQ_KIND = {'analysis': 'KAnalysis', 'events': 'KEvents', 'regress': 'KRegress',
            'task': 'KTask'}
EXP_SIG = {
    'analysis': [[None, 'str'], [0, 'int'], [-1, 'int']],
    'events': [],
    'regress': [[None, 'str'], [0, 'int'], ['__none__', 'str']],
    'task': [[None, 'str'], [0, 'int'], [-1, 'int'], ['__none__', 'str']],
}
WALK_NARGS = {'analysis': 3, 'task': 4, 'events': 0, 'regress': 3}
DEP_METHOD = {'task': 'previous', 'analysis': 'traits', 'regress': 'variables'}


# ---------------------------------------------------------------- builders
def value(key='v', **kw):
    d = {'key': key, 'isval': True, 'ver': 'ok', 'pick': True, 'feat': True}
    d.update(kw)
    return d


def sv(name='sv', keys=('v', 'w'), **kw):
    d = {'issv': True, 'name': name, 'ver': 'ok',
         'items': [value(k) for k in keys], 'view': True}
    d.update(kw)
    return d


def alg(name, svs=None, deps=None, fb=None, **kw):
    d = {'isalg': True, 'name': name, 'ver': 'ok',
         'deps': [] if deps is None else deps, 'fb': fb or [],
         'svs': [sv('s0'), sv('s1', ('x',))] if svs is None else svs, 'run': True}
    d.update(kw)
    return d


def fac(kind, algs, **kw):
    d = {'params': copy.deepcopy(EXP_SIG[kind]), 'bot_ok': True, 'algs': algs}
    d.update(kw)
    return d


def moment(boot=None, day='none', dom='none', dow='none', time='none'):
    return {'boot': boot, 'day': day, 'dom': dom, 'dow': dow, 'time': time}


def event(m, owner=None, isevent=True):
    return {'isevent': isevent, 'owner': owner, 'moment': m}


def pkg(name, **kw):
    d = {'name': name, 'analysis': None, 'events': None, 'regress': None, 'task': None}
    d.update(kw)
    return d


def ref_to(eng, lvl, pi, kind, ai, si=0, feat=None):
    '''a faithful reference to algorithm #ai of factory kind of package #pi'''
    a = eng['pkgs'][pi][kind]['algs'][ai]
    svs = a['svs'] or []
    s = svs[si] if svs else None
    item = [s['name'], [v['key'] for v in s['items']]] if s else ['none', []]
    if feat is None and lvl == 'v':
        feat = item[1][0] if item[1] else 'v'
    return {'lvl': lvl, 'fac': [pi, kind], 'impl_ok': True, 'home': pi,
            'impl_name': a['name'],
            'impl_svs': [[x['name'], [v['key'] for v in x['items']]] for x in svs],
            'item_ok': True, 'item': item, 'feat': feat if lvl == 'v' else None,
            'real': [pi, kind, ai, si if s is not None else None]}


# ------------------------------------------------------------ traversal
def positions(eng, pi):
    '''every addressable position of package #pi as a tuple path'''
    p = eng['pkgs'][pi]
    out = []
    for k in KINDS:
        f = p[k]
        if f is None:
            continue
        out.append(('fac', k))
        if k == 'events':
            for ei, _ in enumerate(f['events']):
                out.append(('event', k, ei))
            continue
        for ai, a in enumerate(f['algs']):
            out.append(('alg', k, ai))
            for which in ('deps', 'fb'):
                for ri, _ in enumerate(a[which] or []):
                    out.append(('ref', k, ai, which, ri))
            for si, s in enumerate(a['svs'] or []):
                out.append(('sv', k, ai, si))
                for vi, _ in enumerate(s['items']):
                    out.append(('val', k, ai, si, vi))
    return out


def at(eng, pi, pos):
    p = eng['pkgs'][pi]
    t = pos[0]
    if t == 'fac':
        return p[pos[1]]
    if t == 'event':
        return p['events']['events'][pos[2]]
    a = p[pos[1]]['algs'][pos[2]]
    if t == 'alg':
        return a
    if t == 'ref':
        return a[pos[3]][pos[4]]
    s = a['svs'][pos[3]]
    if t == 'sv':
        return s
    return s['items'][pos[4]]


# ------------------------------------------------------------------ faults
# name -> (position type, rule whose docstring it breaks, mutation, applicable?)
def _set(**kw):
    def m(x, eng, pi, pos):
        x.update(copy.deepcopy(kw))
    return m


def _params(fn):
    def m(x, eng, pi, pos):
        x['params'] = fn(copy.deepcopy(x['params']))
    return m


def _dot(field):
    def m(x, eng, pi, pos):
        x[field] = x[field][:1] + '.' + x[field][1:]
    return m


def _ref_nonexist_alg(x, eng, pi, pos):
    x.update(impl_name=x['impl_name'] + 'zz', real=None)


def _ref_nonexist_sv(x, eng, pi, pos):
    x.update(item=[x['item'][0] + 'zz', x['item'][1]], real=None)


def _ref_nonexist_feat(x, eng, pi, pos):
    x.update(feat='nope')


def _ref_extra_key(x, eng, pi, pos):
    x.update(item=[x['item'][0], x['item'][1] + ['ghost%d' % len(x['item'][1])]], real=None)


def _ref_ghost_sv(x, eng, pi, pos):
    x.update(impl_svs=x['impl_svs'] + [['ghost%d' % len(x['impl_svs']), ['g']]], real=None)


def _ref_foreign_home(x, eng, pi, pos):
    # impl class lives in another package than the factory's
    other = [i for i in range(len(eng['pkgs'])) if i != x['fac'][0]
             and not eng['pkgs'][i]['name'].startswith(eng['pkgs'][x['fac'][0]]['name'])]
    x.update(home=other[0], real=None)


def _has_foreign(x, eng, pi, pos):
    return x['fac'] is not None and any(
        i != x['fac'][0] and not eng['pkgs'][i]['name'].startswith(
            eng['pkgs'][x['fac'][0]]['name']) for i in range(len(eng['pkgs'])))


def _events_any(f):
    return lambda x, eng, pi, pos: True


FAULTS = {
    # rule 1 -- factory signature
    'arity_extra_default': ('fac', 1, _params(lambda ps: ps + [[0, 'int']]), None),
    'arity_extra_required': ('fac', 1, _params(lambda ps: ps[:1] + [[None, 'int']] + ps[1:]),
                             lambda x, e, pi, pos: pos[1] != 'events'),
    'arity_extra_required_ev': ('fac', 1, _params(lambda ps: [[None, 'int']]),
                                lambda x, e, pi, pos: pos[1] == 'events'),
    'arity_missing': ('fac', 1, _params(lambda ps: ps[:-1]),
                      lambda x, e, pi, pos: pos[1] != 'events'),
    'default_wrong': ('fac', 1, _params(lambda ps: ps[:1] + [[5, ps[1][1]]] + ps[2:]),
                      lambda x, e, pi, pos: pos[1] != 'events'),
    'default_last_wrong': ('fac', 1, _params(lambda ps: ps[:-1] + [[7 if isinstance(ps[-1][0], int) else 'none', ps[-1][1]]]),
                           lambda x, e, pi, pos: pos[1] != 'events'),
    'default_on_prefix': ('fac', 1, _params(lambda ps: [['p', 'str']] + ps[1:]),
                          lambda x, e, pi, pos: pos[1] != 'events'),
    'annotation_missing': ('fac', 1, _params(lambda ps: [[ps[0][0], None]] + ps[1:]),
                           lambda x, e, pi, pos: pos[1] != 'events'),
    'annotation_wrong': ('fac', 1, _params(lambda ps: ps[:1] + [[ps[1][0], 'other']] + ps[2:]),
                         lambda x, e, pi, pos: pos[1] != 'events'),
    # rule 2 -- base types
    'bot_type': ('fac', 2, _set(bot_ok=False), lambda x, e, pi, pos: pos[1] != 'events'),
    'alg_type': ('alg', 2, _set(isalg=False), None),
    'sv_type': ('sv', 2, _set(issv=False), None),
    'value_type': ('val', 2, _set(isval=False), None),
    'ref_not_tuple': ('ref', 2, _set(lvl='none', real=None), None),
    'event_type': ('event', 2, _set(isevent=False), None),
    # rule 3 -- abstract methods / version protocol / returned types
    'no_routines': ('fac', 3, _set(algs=[]), lambda x, e, pi, pos: pos[1] != 'events'),
    'abstract_alg_name': ('alg', 3, _set(name=None), None),
    'abstract_deps': ('alg', 3, _set(deps=None), None),
    'abstract_svs': ('alg', 3, _set(svs=None), None),
    'abstract_sv_name': ('sv', 3, _set(name=None), None),
    'alg_ver_bad': ('alg', 3, _set(ver='bad'), None),
    'alg_ver_exc': ('alg', 3, _set(ver='exc'), None),
    'sv_ver_bad': ('sv', 3, _set(ver='bad'), None),
    'sv_ver_exc': ('sv', 3, _set(ver='exc'), None),
    'val_ver_bad': ('val', 3, _set(ver='bad'), None),
    'val_ver_exc': ('val', 3, _set(ver='exc'), None),
    'algref_in_traits': ('ref', 3, _set(lvl='alg', feat=None),
                         lambda x, e, pi, pos: pos[1] != 'task' and pos[3] == 'deps'
                         and x['lvl'] != 'alg'),
    # rule 3, not observable by the gate (finding: abstract-method-unchecked)
    'abstract_run': ('alg', 3, _set(run=False), None),
    'abstract_view': ('sv', 3, _set(view=False), None),
    'abstract_features': ('val', 3, _set(feat=False), None),
    # rule 4 -- dotted names
    'dot_alg': ('alg', 4, _dot('name'), None),
    'dot_sv': ('sv', 4, _dot('name'), None),
    'dot_val': ('val', 4, _dot('key'), None),
    # rule 5 -- empty state vector
    'empty_sv': ('sv', 5, _set(items=[]), None),
    # rule 6 -- factory/impl consistency of previous()
    'foreign_impl': ('ref', 6, _ref_foreign_home,
                     lambda x, e, pi, pos: pos[1] == 'task' and pos[3] == 'deps'
                     and _has_foreign(x, e, pi, pos)),
    # rule 7 -- unpicklable value
    'unpicklable': ('val', 7, _set(pick=False), None),
    # can be dumped but not loaded back (a Value whose constructor needs an
    # argument: Value.__setstate__ calls self.__class__())
    'unloadable': ('val', 7, _set(pick='noload'), None),
    # rule 8 -- component types of references
    'ref_factory_type': ('ref', 8, _set(fac=None, real=None), None),
    'ref_impl_type': ('ref', 8, _set(impl_ok=False, real=None), None),
    'ref_item_type': ('ref', 8, _set(item_ok=False, real=None),
                      lambda x, e, pi, pos: x['lvl'] in ('sv', 'v')),
    'ref_feat_type': ('ref', 8, _set(feat=None), lambda x, e, pi, pos: x['lvl'] == 'v'),
    # rule 9 -- no state vector
    'no_sv': ('alg', 9, _set(svs=[]), None),
    # rule 10 -- moments
    'moment_two': ('event', 10, lambda x, e, pi, pos: x['moment'].update(
        boot=True, dow='good', time='good'), None),
    # boot=False is a defined field ("exactly one of boot/day/dom/dow"): with a
    # second field the moment is malformed
    'moment_bootfalse_two': ('event', 10, lambda x, e, pi, pos: x['moment'].update(
        boot=False, dow='good', time='good'), None),
    'moment_none': ('event', 10, lambda x, e, pi, pos: x.update(moment=moment(time='good')), None),
    'moment_notime': ('event', 10, lambda x, e, pi, pos: x.update(moment=moment(dom='good')), None),
    'moment_badtime': ('event', 10, lambda x, e, pi, pos: x.update(
        moment=moment(dow='good', time='bad')), None),
    'moment_dom_type': ('event', 10, lambda x, e, pi, pos: x.update(
        moment=moment(dom='bad', time='good')), None),
    'moment_dow_type': ('event', 10, lambda x, e, pi, pos: x.update(
        moment=moment(dow='bad', time='good')), None),
    'moment_day_type': ('event', 10, lambda x, e, pi, pos: x.update(
        moment=moment(day='bad', time='good')), None),
    # rule 11 -- unresolvable references
    'unresolvable_alg': ('ref', 11, _ref_nonexist_alg, None),
    'unresolvable_sv': ('ref', 11, _ref_nonexist_sv,
                        lambda x, e, pi, pos: x['lvl'] in ('sv', 'v') and
                        (x['lvl'] == 'v' or x['item'][1])),
    'unresolvable_val': ('ref', 11, _ref_nonexist_feat, lambda x, e, pi, pos: x['lvl'] == 'v'),
    'unresolvable_key': ('ref', 11, _ref_extra_key, lambda x, e, pi, pos: x['lvl'] == 'sv'),
    'unresolvable_ghost_sv': ('ref', 11, _ref_ghost_sv, lambda x, e, pi, pos: x['lvl'] == 'alg'),
}
UNOBSERVABLE = {'abstract_run': 'run', 'abstract_view': 'view',
                'abstract_features': 'features'}


def applicable(eng, pi, fault):
    ptype, _rule, _mut, cond = FAULTS[fault]
    out = []
    for pos in positions(eng, pi):
        if pos[0] != ptype:
            continue
        if cond is None or cond(at(eng, pi, pos), eng, pi, pos):
            out.append(pos)
    return out


def all_refs(eng):
    for p in eng['pkgs']:
        for k in AKINDS:
            if p[k] is not None:
                for a in p[k]['algs']:
                    for r in (a['deps'] or []) + a['fb']:
                        yield r


def refresh_refs(eng):
    '''a reference rendered as a real `pkg.Class()` expression shows whatever
    that class is now: recompute its snapshot after a mutation of the target
    (or keep the old snapshot as a synthesized stale object when the target
    can no longer be described by a snapshot)'''
    for p in eng['pkgs']:
        for e in (p['events'] or {'events': []})['events']:
            o = e.get('owner')
            if o is not None and (p[o[0]] is None or o[1] >= len(p[o[0]]['algs'])):
                e['owner'] = None
    for r in all_refs(eng):
        real = r.get('real')
        if real is None:
            continue
        pi, k, ai, si = real
        f = eng['pkgs'][pi][k]
        tgt = f['algs'][ai] if f is not None and ai < len(f['algs']) else None
        if (tgt is None or tgt['name'] is None or tgt['svs'] is None
                or any(s['name'] is None for s in tgt['svs'])
                or (si is not None and si >= len(tgt['svs']))
                or (si is None and r['lvl'] != 'alg')):
            r['real'] = None
            continue
        r['impl_ok'] = tgt['isalg']
        r['impl_name'] = tgt['name']
        r['impl_svs'] = [[s['name'], [v['key'] for v in s['items']]] for s in tgt['svs']]
        if si is not None:
            s = tgt['svs'][si]
            r['item_ok'] = s['issv']
            r['item'] = [s['name'], [v['key'] for v in s['items']]]


def mutate(eng, pi, fault, pos):
    e2 = copy.deepcopy(eng)
    FAULTS[fault][2](at(e2, pi, pos), e2, pi, pos)
    refresh_refs(e2)
    return e2


# --------------------------------------------------- compliant small engines
def small_engine(kinds, nalg=2):
    '''package #0 = "up" (a compliant task package, the upstream of every
    reference), package #1 = "upx" (a sibling that is NOT prefix-free with
    "up" on purpose ... no: kept prefix-free, see prefix engines), package #2
    = "pk" with the given subset of factory kinds.'''
    up = pkg('up', task=fac('task', [alg('ua', [sv('sv', ('v', 'w'))]),
                                     alg('ub', [sv('sv', ('v',)), sv('t', ('z',))])]))
    other = pkg('other', task=fac('task', [alg('oa', [sv('sv', ('v',))])]))
    eng = {'pkgs': [up, other, pkg('pk')]}
    p = eng['pkgs'][2]
    for k in AKINDS:
        if k not in kinds:
            continue
        algs = []
        for j in range(nalg):
            a = alg('%s%d' % (k[0], j))
            algs.append(a)
        p[k] = fac(k, algs)
    # references: deps at sv and v level (alg level only for tasks), feedback
    for k in AKINDS:
        if p[k] is None:
            continue
        for j, a in enumerate(p[k]['algs']):
            if j == 0:
                a['deps'] = [ref_to(eng, 'sv', 0, 'task', 0, 0),
                             ref_to(eng, 'v', 0, 'task', 1, 1, 'z')]
                if k == 'task':
                    a['deps'].append(ref_to(eng, 'alg', 0, 'task', 1))
                a['fb'] = [ref_to(eng, 'v', 2, k, nalg - 1, 0, 'w')]
            else:
                a['deps'] = [ref_to(eng, 'v', 2, k, 0, 1, 'x')]
                a['fb'] = [ref_to(eng, 'sv', 0, 'task', 0, 0)]
    if 'events' in kinds:
        owner = [k for k in AKINDS if k in kinds]
        o = [owner[0], 0] if owner else None
        p['events'] = {'params': [], 'events': [
            event(moment(dow='good', time='good'), o),
            event(moment(dow='good', time='good'), o),   # rendered alternately as Monday (0) and Wednesday (2)
            event(moment(boot=True), o),
            event(moment(boot=False), o),                # "not at boot": one defined field, no time needed
            event(moment(dom='good', time='good'), o),
            event(moment(day='good', time='good'), o)]}
    return eng


def kind_subsets():
    return [list(c) for n in range(0, 5) for c in itertools.combinations(KINDS, n)]


# --------------------------------------------------------- Gallina rendering
def _name(s):
    return '[' + ';'.join(str(ord(c)) for c in s) + ']'


def _oname(s):
    return 'None' if s is None else '(Some %s)' % _name(s)


def _b(x):
    return 'true' if x else 'false'


_VER = {'ok': 'VerOk', 'bad': 'VerBad', 'exc': 'VerExc'}
_LVL = {'alg': 'LAlg', 'sv': 'LSv', 'v': 'LV', 'none': 'LNone'}
_MF = {'none': 'MNone', 'good': 'MGood', 'bad': 'MBad'}
_ANN = {None: 'ANone', 'str': 'AStr', 'int': 'AInt', 'other': 'AOther'}


def _lst(xs):
    return '[' + '; '.join(xs) + ']'


def g_param(p):
    d, a = p
    if d is None:
        ds = 'DEmpty'
    elif isinstance(d, int):
        ds = '(DInt (%d)%%Z)' % d
    else:
        ds = '(DStr %s)' % _name(d)
    return '(mkParam %s %s)' % (ds, _ANN[a])


def g_value(v):
    return '(mkValue %s %s %s %s %s)' % (_name(v['key']), _b(v['isval']), _VER[v['ver']],
                                         _b(v['pick'] is True), _b(v['feat']))


def g_sv(s):
    return '(mkSv %s %s %s %s %s)' % (_b(s['issv']), _oname(s['name']), _VER[s['ver']],
                                      _lst(g_value(v) for v in s['items']), _b(s['view']))


def g_item(it):
    return '(mkItem %s %s)' % (_name(it[0]), _lst(_name(k) for k in it[1]))


def g_ref(r):
    fac = 'None' if r['fac'] is None else '(Some (%d, %s))' % (r['fac'][0], COQ_KIND[r['fac'][1]])
    return '(mkRef %s %s %s %d %s %s %s %s %s)' % (
        _LVL[r['lvl']], fac, _b(r['impl_ok']), r['home'], _name(r['impl_name']),
        _lst(g_item(i) for i in r['impl_svs']), _b(r['item_ok']), g_item(r['item']),
        _oname(r['feat']))


def g_alg(a):
    deps = 'None' if a['deps'] is None else '(Some %s)' % _lst(g_ref(r) for r in a['deps'])
    svs = 'None' if a['svs'] is None else '(Some %s)' % _lst(g_sv(s) for s in a['svs'])
    return '(mkAlg %s %s %s %s %s %s %s)' % (
        _b(a['isalg']), _oname(a['name']), _VER[a['ver']], deps,
        _lst(g_ref(r) for r in a['fb']), svs, _b(a['run']))


def g_fac(f):
    if f is None:
        return 'None'
    return '(Some (mkFac %s (mkBot %s %s)))' % (
        _lst(g_param(p) for p in f['params']), _b(f['bot_ok']),
        _lst(g_alg(a) for a in f['algs']))


def g_moment(m):
    boot = 'None' if m['boot'] is None else '(Some %s)' % _b(m['boot'])
    return '(mkMoment %s %s %s %s %s)' % (boot, _MF[m['day']], _MF[m['dom']],
                                          _MF[m['dow']], _MF[m['time']])


def g_efac(f):
    if f is None:
        return 'None'
    return '(Some (mkEFac %s %s))' % (
        _lst(g_param(p) for p in f['params']),
        _lst('(mkEvent %s %s)' % (_b(e['isevent']), g_moment(e['moment']))
             for e in f['events']))


def g_pkg(p):
    return '(mkPkg %s %s %s %s %s)' % (_name(p['name']), g_fac(p['analysis']),
                                      g_efac(p['events']), g_fac(p['regress']),
                                      g_fac(p['task']))


def g_engine(eng):
    return _lst(g_pkg(p) for p in eng['pkgs'])


# ----------------------------------------- which descriptors can be rendered
def registry_ok(eng):
    '''can every non-events factory be produced by the dawgie.base registry
    (auto factories)?  signature, bot type, algorithm base type are fixed
    there and an empty bot does not exist.'''
    for p in eng['pkgs']:
        for k in AKINDS:
            f = p[k]
            if f is None:
                continue
            if f['params'] != EXP_SIG[k] or not f['bot_ok'] or not f['algs']:
                return False
            if not all(a['isalg'] for a in f['algs']):
                return False
    return True
