'''c19_source.py -- the "translation + proof" tie of the access half of C19
(pattern of props/gen_tie.py):

  tools/translate/security2coq.py   security.is_sanctioned / sanctioned / identity,
                                    DynamicContent.__init__ (methods) / __render / render_<VERB>
  coq/Gen/SecurityGen.v             the generated definitions
  coq/Proofs/SecurityGenEq.v        generated = Model/Access.v (and Gen/AccessTable.v), all arguments
  coq/Props/C19.v                   C19_*_is_source

  g = security_generate(ctx)             BEFORE ctx.coq_props()
  security_validate(ctx, g, access_out)  AFTER: (1) the generated definitions (vm_compute) against
      the real functions on a sweep and against the real render path (the table the access driver
      produced); (2) when the translator refused the source or a proof obligation broke, the
      property is evaluated on the python functions over the sweep (a hit = a failing input).
'''
from vlib import core

COMMANDS = ['/api/cmd/run', '/api/cmd/reset', '/api/cmd/snapshot', '/api/rev/submit',
            '/app/run', '/app/reset', '/app/submit', '/app/snapshot']
HOOK_COQ = {
    'default': '(Some (fun e c => Some (SecurityGen.is_sanctioned %(clients)s e c)))',
    'lookup-raises': 'None',
    'attr-missing': 'None',
    'not-callable': '(Some (fun _ _ => None))',
    'hook-raises': '(Some (fun _ _ => None))',
    'hook-raises-attributeerror': '(Some (fun _ _ => None))',
    'hook-raises-importerror': '(Some (fun _ _ => None))',
    'deny': '(Some (fun _ _ => Some false))',
    'allow': '(Some (fun _ _ => Some true))',
    'none': '(Some (fun _ _ => Some false))',
    'truthy': '(Some (fun _ _ => Some true))',
    'only-ae-name': '(Some (fun e _ => Some (String.eqb e "/api/ae/name")))',
    'cert-only': '(Some (fun _ c => Some (negb (SecurityGen.is_none c))))',
    'raise-for-anon': '(Some (fun _ c => if SecurityGen.is_none c then None else Some true))',
}
DENYING = {'lookup-raises', 'attr-missing', 'not-callable', 'hook-raises', 'deny', 'none',
           'hook-raises-attributeerror', 'hook-raises-importerror'}
IHOOK_COQ = {
    'lookup-raises': 'None',
    'attr-missing': 'None',
    'hook-raises': '(Some (fun _ => None))',
    'bob': '(Some (fun _ => Some "bob"))',
    'empty-for-anon': '(Some (fun c => Some (if SecurityGen.is_none c then "" else "known")))',
}
PRE = 'Open Scope string_scope.\n'
FUNC_HOOKS = ['default', 'lookup-raises', 'attr-missing', 'not-callable', 'hook-raises',
              'hook-raises-attributeerror', 'hook-raises-importerror', 'deny', 'allow',
              'only-ae-name', 'cert-only', 'raise-for-anon']


def proofs_failed(ctx):
    return ctx.cov.get('discharged', 0) != ctx.cov.get('obligations', 0) or not ctx.cov.get('obligations')


def security_generate(ctx):
    ok, msg = ctx.generate('security2coq.py', 'Gen/SecurityGen.v')
    ctx.trust('translator tools/translate/security2coq.py (+ pyfrag.py, pyfrag_fx.py: python ast -> '
              'Gallina, fail closed; what stands for the outside world -- the hook lookup, the peer '
              'certificate, the three exits of __render, the pinned bookkeeping statements -- is '
              'declared at the top of the script; validated on every run against the real '
              'security.is_sanctioned / sanctioned / identity and the real render path; the generated '
              'definitions are PROVED equal to Model/Access.v, coq/Proofs/SecurityGenEq.v)')
    fps = ctx.cov.setdefault('translated_fingerprints', {})
    fps.update(core.fingerprint('Python/dawgie/security.py', ['is_sanctioned', 'sanctioned', 'identity']))
    fps.update(core.fingerprint('Python/dawgie/fe/basis.py', ['DynamicContent']))
    return {'ok': ok, 'msg': msg}


def q(s):
    return '"%s"' % s.replace('"', '""')


def b(v):
    return 'true' if v else 'false'


def endpoints_sweep(uris):
    eps = list(uris)
    for u in uris[:6] + COMMANDS:
        eps += [u + '/', u + 'x', u.upper(), u[:-1], '/' + u, u.lstrip('/')]
    eps += ['', '/', '/api', '/app', '/api/cmd', '/api/cmd/run/../run', ' /api/cmd/run']
    seen, out = set(), []
    for e in eps:
        if e not in seen and all(32 <= ord(c) < 127 for c in e):
            seen.add(e)
            out.append(e)
    return out


def security_validate(ctx, g, access_out, failing=None):
    '''returns True when the tie holds.  failing: what coq_props named (file or file:theorem)'''
    uris = [e['uri'] for e in access_out['endpoints']] if access_out else list(COMMANDS)
    for c in COMMANDS:
        if c not in uris:
            uris.append(c)
    eps = endpoints_sweep(uris)
    few = set(uris[:4] + COMMANDS[:3] + ['', '/api/ae/name', '/api/cmd/run/', '/API/CMD/RUN'])
    impl = ctx.harness('drive_security.py', {'endpoints': eps, 'hooks': FUNC_HOOKS,
                                             'ihooks': list(IHOOK_COQ)})
    # every endpoint of the sweep under the default hook, a few under the others
    impl['sanctioned'] = [r for r in impl['sanctioned'] if r[1] == 'default' or r[2] in few]
    failed = (not g['ok']) or proofs_failed(ctx)
    found = ctx.nviol > 0 or bool(ctx.known_hits)
    # ---- the property on the python functions (only searched when the tie broke) ----
    if failed and not found:
        for clients, h, e, cert, v in impl['sanctioned']:
            rep = {'source': 'oracle (python function)', 'theorem': 'C19_fail_closed',
                   'function': 'security.sanctioned', 'clients': clients, 'hook': h,
                   'endpoint': e, 'cert': cert}
            truth = v[0] != 'exc' and v != ['bool', False] and v != ['other', 'None'] and v != ['str', '']
            if (h in DENYING or (h == 'raise-for-anon' and not cert)) and truth:
                # (an exception escaping sanctioned() is not counted: __render would not reach the handler)
                ctx.violation('hook-failure-open', {'hook': h},
                              'security.sanctioned(%r, %s) with the hook %s (denies/raises) answered %s'
                              % (e, 'cert' if cert else None, h, v), rep)
                found = True
                break
            if h == 'default' and clients and not cert and e in COMMANDS and truth:
                ctx.violation('anonymous-command', {'uri': e},
                              'security.sanctioned(%r, None) is %s with client certificates configured'
                              % (e, v), dict(rep, theorem='C19_anonymous_registered'))
                found = True
                break
    # ---- translator validation ----------------------------------------------------
    bad = None
    n = 0
    if g['ok']:
        try:
            ex = ['SecurityGen.is_sanctioned (A:=nat) %s %s %s' % (b(cl), q(e), '(Some 1)' if c else 'None')
                  for cl, e, c, _ in impl['is_sanctioned']]
            ex2 = ['SecurityGen.sanctioned (A:=nat) %s %s %s'
                   % (HOOK_COQ[h] % {'clients': b(cl)}, q(e), '(Some 1)' if c else 'None')
                   for cl, h, e, c, _ in impl['sanctioned']]
            ex3 = ['SecurityGen.identity (A:=nat) %s %s' % (IHOOK_COQ[h], '(Some 1)' if c else 'None')
                   for h, c, _ in impl['identity']]

            def batch(xs, k=400):
                return ['[' + '; '.join(xs[i:i + k]) + ']' for i in range(0, len(xs), k)]
            v1 = [x for r in ctx.coq_eval(['DV.Gen.SecurityGen'], batch(ex), z_scope=False, preamble=PRE) for x in r]
            v2 = [x for r in ctx.coq_eval(['DV.Gen.SecurityGen'], batch(ex2), z_scope=False, preamble=PRE) for x in r]
            v3 = [x for r in ctx.coq_eval(['DV.Gen.SecurityGen'], batch(ex3), z_scope=False, preamble=PRE) for x in r]
            n = len(v1) + len(v2) + len(v3)
            for row, v in zip(impl['is_sanctioned'], v1):
                if row[-1] != ['bool', v] and bad is None:
                    bad = {'function': 'is_sanctioned', 'case': row[:-1], 'python': row[-1], 'generated': v}
            for row, v in zip(impl['sanctioned'], v2):
                # python hands back whatever the hook returned: compare truth values
                pv = row[-1]
                truth = None if pv[0] == 'exc' else (pv[1] is True if pv[0] == 'bool' else
                                                     (pv[1] != '' if pv[0] == 'str' else pv[1] not in ('None', '0')))
                if truth != v and bad is None:
                    bad = {'function': 'sanctioned', 'case': row[:-1], 'python': pv, 'generated': v}
            for row, v in zip(impl['identity'], v3):
                if row[-1] != ['str', v] and bad is None:
                    bad = {'function': 'identity', 'case': row[:-1], 'python': row[-1], 'generated': v}
            # the real render path (table of the access driver) vs the generated __render
            if access_out and not bad:
                tab = ctx.coq_eval(['DV.Gen.AccessTable'], ['map (fun r => fst (fst (fst r))) registered'],
                                   z_scope=False)[0]
                rows = [r for r in access_out['rows'] if r['hook'] in HOOK_COQ]
                exr = []
                for r in rows:
                    exr.append('map (fun r => map (fun m => SecurityGen.render (A:=nat) %s %s %s '
                               '(fst (fst (fst r))) (SecurityGen.init_methods (snd (fst r))) m) '
                               '[M_GET; M_POST; M_PUT; M_DEL]) registered'
                               % (HOOK_COQ[r['hook']] % {'clients': b(r['clients'])}, b(r['has_gpc']),
                                  '(Some 1)' if r['cert'] else 'None'))
                vr = ctx.coq_eval(['DV.Gen.AccessTable', 'DV.Gen.SecurityGen'], exr, z_scope=False, preamble=PRE)
                name = {'R_denied': 'Denied', 'R_handler': 'Invoked', 'R_err': 'NotMapped'}
                verbs = access_out.get('verbs') or ['GET', 'POST', 'PUT', 'DELETE']
                for r, v in zip(rows, vr):
                    for uri, outs in zip(tab, v):
                        got = r['table'].get(uri)
                        if got is None:
                            continue
                        want = [name[x[0]] for x in outs]
                        n += 4
                        if got[:4] != want and bad is None:
                            bad = {'function': '__render', 'case': [r['clients'], r['hook'], r['has_gpc'],
                                                                    r['cert'], uri],
                                   'python': got[:4], 'generated': want}
        except core.CoqEvalError as e:
            bad = {'function': None, 'python': '',
                   'generated': 'Gen/SecurityGen.v does not evaluate: %s' % (e.args[1][-600:],)}
        if bad and not found:
            ctx.broken('translator validation: generated access decision disagrees with python',
                       repr(bad), {'source': 'translator-validation', 'case': bad.get('case'),
                                   'expected': repr(bad['generated']), 'observed': repr(bad['python'])})
    elif not found:
        ctx.broken('translator security2coq.py refuses dawgie/security.py or dawgie/fe/basis.py',
                   g['msg'], {'source': 'translator'})
    mine = failing is None or 'SecurityGen' in str(failing) or 'C19_' in str(failing) and 'static' not in str(failing) \
        and 'contained' not in str(failing)
    if failed and not found and g['ok'] and not bad and mine:
        ctx.broken('source tie: Gen/SecurityGen.v (security.py / basis.py of today) is no longer proved to '
                   'be the access model of Model/Access.v',
                   'python still denies on %d sweep cases' % len(impl['sanctioned']),
                   {'source': 'proof', 'theorem': 'Proofs/SecurityGenEq.v'})
    nt = [('security', cl, h, e, c) for cl, h, e, c, _ in impl['sanctioned']
          if cl and not c and (h in DENYING or e in COMMANDS)]
    ctx.count(evaluations=n or len(impl['sanctioned']), nontrivial_keys=nt)
    ctx.note('source_tie_security', {'function_cases': len(impl['is_sanctioned']) + len(impl['sanctioned'])
                                     + len(impl['identity']), 'evaluated': n,
                                     'translator_ok': g['ok'], 'generated_vs_python_mismatch': bad})
    return not (failed or bad)


# =============================================================================
# fe._static  (tools/translate/static2coq.py -> Gen/StaticGen.v, Proofs/StaticGenEq.v)
# =============================================================================
def static_generate(ctx):
    ok, msg = ctx.generate('static2coq.py', 'Gen/StaticGen.v')
    ctx.trust('translator tools/translate/static2coq.py (continuation-style walker for the loop of '
              'fe._static: continue / break / raising OS calls; the lexical part of pathlib is '
              'Model/Static.v\'s; the statement `if found:` is pinned by its text; validated on every run '
              'against the real _static on the recorded OS answers of every request of the static half; '
              'the generated function is PROVED equal to Model/Static.v for all oracles, '
              'coq/Proofs/StaticGenEq.v)')
    fps = ctx.cov.setdefault('translated_fingerprints', {})
    fps.update(core.fingerprint('Python/dawgie/fe/__init__.py', ['_static']))
    return {'ok': ok, 'msg': msg}


def static_verdict(ctx, g, found):
    """after the static half ran (the oracle there is the search for a failing input)"""
    bad = ctx.extra.get('static_gen_bad')
    if not g['ok']:
        ctx.note('source_tie_static', {'translator_ok': False, 'message': g['msg'][-400:]})
        if not found:
            ctx.broken('translator static2coq.py refuses dawgie/fe/__init__.py', g['msg'],
                       {'source': 'translator'})
    elif bad and not found:
        ctx.broken('translator validation: generated _static disagrees with python', repr(bad),
                   {'source': 'translator-validation', 'tree': bad['tree'], 'request': bad['request'],
                    'expected': repr(bad['generated']), 'observed': repr(bad['python'])})
