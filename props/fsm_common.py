'''Shared by props/C10.py and props/C12.py: case generation in the event
language of tools/harness/fsm_world.py, rendering of a case as a Gallina term
for coq/Model/Fsm.v, canonical observations of both sides, and the comparison.
'''
import random

from vlib import core

TRIGGERS = ['archiving', 'contemplation', 'gitting', 'loading', 'running',
            'starting', 'update', 'updating']
STATES = ['archiving', 'contemplation', 'gitting', 'loading', 'running',
          'starting', 'updating']
KINDS = ['crew', 'doing', 'todo']
KCOQ = {'crew': 'KCrew', 'doing': 'KDoing', 'todo': 'KTodo'}
PRIOS = {'now': 'NOW', 'crew_idle': 'CREW', 'doing_empty': 'DOING',
         'todo_empty': 'TODO'}
BYHAND = ('Fire', 'SetInfo', 'Crossroads', 'EWaiterUpdate')

GENERATORS = [('dot2coq.py', 'Gen/FsmTable.v', 'table'),
              ('dot2coq.py', 'Gen/TriggerSites.v', 'sites'),
              ('priority2coq.py', 'Gen/PriorityGen.v')]

FINGERPRINT = [
    ('Python/dawgie/pl/state.py',
     ['FSM.__init__', 'FSM._archive', 'FSM._archive_done', 'FSM._navel_gaze',
      'FSM._pipeline', 'FSM._reload', 'FSM.transitioning', 'FSM.archive',
      'FSM.construct_attributes', 'FSM.is_crew_done', 'FSM.is_doing_done',
      'FSM.is_pipeline_active', 'FSM.is_todo_done', 'FSM.load', 'FSM.navel_gaze',
      'FSM.reload', 'FSM.reset', 'FSM.save_prior_state', 'FSM.set_submit_info',
      'FSM.start', 'FSM.submit_crossroads', 'FSM.wait_for_crew',
      'FSM.wait_for_doing', 'FSM.wait_for_nothing', 'FSM.wait_for_todo',
      'FSM.waiting_on_crew', 'FSM.waiting_on_doing', 'FSM.waiting_on_todo']),
    ('Python/dawgie/fe/api/submit.py',
     ['Defer.__call__', 'Process.failure', 'Process.step_0', 'Process.step_1',
      'Process.step_3', 'VerifyHandler.processEnded']),
    ('Python/dawgie/fe/submit.py',
     ['Defer.__call__', 'Process.failure', 'Process.step_0', 'Process.step_1',
      'Process.step_3', 'VerifyHandler.processEnded']),
    ('Python/dawgie/pl/farm.py', ['dispatch', 'something_to_do', 'clear']),
    ('Python/dawgie/fe/api/__init__.py', ['cmd_reset']),
    ('Python/dawgie/tools/submit.py', ['Priority']),
]


def fingerprints():
    out = {}
    for rel, names in FINGERPRINT:
        for k, v in core.fingerprint(rel, names).items():
            out[rel.split('dawgie/')[1] + ':' + k] = v
    return out


# pinned at the tree the model was written against (pinned snapshot + fix: commits)
def fingerprint_changed(ctx, pinned):
    now = fingerprints()
    ctx.note('fingerprints', now)
    changed = sorted(k for k in now if pinned.get(k) != now[k])
    ctx.note('fingerprints_changed', changed)
    return changed


def generate_all(ctx):
    '''run the three translators; returns (ok, message)'''
    for g in GENERATORS:
        ok, msg = ctx.generate(g[0], g[1], *g[2:])
        if not ok:
            return False, '%s %s: %s' % (g[0], ' '.join(g[2:]), msg)
    return True, ''


# ---------------------------------------------------------------------------
# events -> Gallina
# ---------------------------------------------------------------------------

def b(x):
    return 'true' if x else 'false'


def prio_coq(p):
    return '(Some P_%s)' % PRIOS[p] if p in PRIOS else 'None'


def ev_to_coq(ev):
    k = ev[0]
    if k == 'Fire':
        return '(Fire T_%s)' % ev[1][:-len('_trigger')]
    if k == 'Done':
        return '(Done %d)' % ev[1]
    if k in ('EBoot', 'EIdleArchive', 'ENewData', 'EWaiterUpdate', 'Crossroads'):
        return k
    if k == 'ESubFail':
        return '(%s %d)' % (k, ev[1])
    if k in ('ESubDone', 'ESubStart'):
        return '(%s %d %s)' % (k, ev[1], prio_coq(ev[2]))
    if k == 'ECmdReset':
        return '(ECmdReset %s)' % b(ev[1])
    if k == 'SetInfo':
        return '(SetInfo %s)' % prio_coq(ev[1])
    if k in ('Poll', 'DoneCb'):
        return '(%s %s (%s, %s, %s))' % (k, KCOQ[ev[1]], b(ev[2]), b(ev[3]), b(ev[4]))
    raise ValueError(ev)


def case_to_coq(case):
    start = 'init' if not case.get('initial') else '(init_at S_%s)' % case['initial']
    return 'trace %s [%s]' % (start, '; '.join(ev_to_coq(e) for e in case['events']))


# ---------------------------------------------------------------------------
# canonical observations
# ---------------------------------------------------------------------------

def _c(x):
    '''Coq constructor constant ('S_running',) -> 'S_running' '''
    return x[0] if isinstance(x, tuple) and len(x) == 1 else x


def _opt(x, f=lambda v: v):
    if x is None:
        return None
    assert x[0] == 'Some', x
    return f(x[1])


def canon_model(step):
    '''one element of `trace`: ((st,tr,prior,pending,archive,out,(prio,waits,handles),insub), hops, ulog)'''
    st, tr, prior, pending, archive, out, w, insub, hops, ulog = step
    prio, waits, handles = w
    return {
        'st': _c(st)[2:], 'tr': _c(tr).lower(),
        'prior': _opt(prior, lambda v: _c(v)[2:]),
        'pending': [_c(x) for x in pending],
        'archive': archive, 'out': _c(out),
        'priority': _opt(prio, lambda v: _c(v)[2:]),
        'waits': list(waits),
        'handles': [('None' if h is None else ('Finished' if h[1] else 'Polling')) for h in handles],
        'insub': list(insub),
        'hops': [[_c(a)[2:], _c(c)[2:]] for a, c in hops],
        'updates': [[_opt(who, lambda v: _c(v)[1:].lower()), cond, ok] for who, cond, ok in ulog],
    }


def cond_holds(kind, env):
    busy, doing, que = env
    return {'crew': not busy, 'doing': not doing, 'todo': not que}[kind]


def canon_impl(o):
    ups = []
    for u in o['updates']:
        ev = u['during']
        if ev[0] in ('Fire', 'EWaiterUpdate'):
            continue
        who = ev[1] if ev[0] == 'DoneCb' else None
        cond = cond_holds(who, u['env']) if who else True
        ups.append([who, cond, u['result'] == 'accepted'])
    return {
        'st': o['st'], 'tr': o['tr'], 'prior': o['prior'], 'pending': o['pending'],
        'archive': o['archive'], 'out': o['out'], 'priority': o['priority'],
        'waits': o['waits'], 'handles': o['handles'], 'insub': o['insub'],
        'hops': o['hops'], 'updates': ups,
    }


def first_diff(impl_run, model_run):
    '''index and field of the first disagreement, or None'''
    for i, (a, m) in enumerate(zip(impl_run, model_run)):
        ca, cm = canon_impl(a), canon_model(m)
        for k in cm:
            if ca[k] != cm[k] or type(ca[k]) is not type(cm[k]):
                return i, k, ca[k], cm[k]
        if a.get('orphans'):
            return i, 'orphans', a['orphans'], 0
    if len(impl_run) != len(model_run):
        return min(len(impl_run), len(model_run)), 'length', len(impl_run), len(model_run)
    return None


def model_runs(ctx, cases):
    exprs = [case_to_coq(c) for c in cases]
    return ctx.coq_eval(['DV.Gen.FsmTable', 'DV.Gen.PriorityGen', 'DV.Model.Fsm'],
                        exprs, chunk=40)


# ---------------------------------------------------------------------------
# generators
# ---------------------------------------------------------------------------

def rand_env(rng):
    d = rng.random() < 0.4
    return [rng.random() < 0.5, d, d or rng.random() < 0.4]


def rand_prio(rng, garbage=True):
    ps = list(PRIOS) + (['whenever'] if garbage else [])
    return rng.choice(ps)


def env_event(rng, endpoints=2, waiters=True):
    '''one event of the environment that exists (call sites + their guards are
    inside the real code / the model; the generator only picks)'''
    r = rng.random()
    if r < 0.30:
        return ['Done', 0 if rng.random() < 0.9 else rng.randrange(3)]
    if r < 0.40:
        return ['ESubStart', rng.randrange(endpoints), rand_prio(rng)]
    if r < 0.50:
        return ['ESubDone', rng.randrange(endpoints), rand_prio(rng)]
    if r < 0.54:
        return ['ESubFail', rng.randrange(endpoints)]
    if r < 0.60:
        return ['ENewData']
    if r < 0.67:
        return ['EIdleArchive']
    if r < 0.72:
        return ['ECmdReset', rng.random() < 0.5]
    if r < 0.74:
        return ['EBoot']
    if not waiters:
        return ['Done', 0]
    k = rng.choice(KINDS)
    if r < 0.88:
        e = rand_env(rng)
        if rng.random() < 0.5:          # bias: the condition holds
            e[KINDS.index(k)] = False
            if k == 'doing':
                pass
            if k == 'todo':
                e[1] = False
        return ['Poll', k] + e
    return ['DoneCb', k] + rand_env(rng)


def env_case(rng, n, endpoints=2):
    evs = [['EBoot']]
    if rng.random() < 0.85:
        evs += [['Done', 0], ['Done', 0]]
    for _ in range(n):
        evs.append(env_event(rng, endpoints))
    evs += [['Done', 0]] * 8                       # drain
    return {'initial': None, 'events': evs, 'class': 'env%d' % endpoints}


def free_case(rng, n):
    '''any trigger at any moment, from any initial state'''
    init = rng.choice(STATES + [None, None])
    evs = []
    for _ in range(n):
        r = rng.random()
        if r < 0.45:
            evs.append(['Fire', rng.choice(TRIGGERS) + '_trigger'])
        elif r < 0.65:
            evs.append(['Done', rng.randrange(3)])
        elif r < 0.72:
            evs.append(['SetInfo', rand_prio(rng)])
        elif r < 0.80:
            evs.append(['Crossroads'])
        elif r < 0.83:
            evs.append(['EWaiterUpdate'])
        else:
            evs.append(env_event(rng))
    return {'initial': init, 'events': evs, 'class': 'free'}


def is_env_case(case):
    return not case.get('initial') and all(e[0] not in BYHAND for e in case['events'])


def single_endpoint(case):
    return all(e[1] == 0 for e in case['events'] if e[0] in ('ESubStart', 'ESubFail', 'ESubDone'))


def shrink(case, still_fails, budget=60):
    '''greedy one-event removal'''
    evs = list(case['events'])
    i = len(evs) - 1
    while i >= 0 and budget > 0:
        cand = evs[:i] + evs[i + 1:]
        budget -= 1
        if cand and still_fails(dict(case, events=cand)):
            evs = cand
        i -= 1
    return dict(case, events=evs)
