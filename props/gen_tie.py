'''gen_tie.py -- the "translation + proof" tie of hand-written model functions
to the python source (DESIGN 5.1, extended):

  tools/translate/<x>2coq.py   python ast -> Gallina (fail closed), run on every check
  coq/Gen/<X>Gen.v             the generated definitions
  coq/Proofs/<X>GenEq.v        forall args, Gen.f args = Model.f args
  coq/Props/Cxx.v              Cxx_<f>_is_source

Each study has two halves used by props/Cxx.py:

  g = <x>_generate(ctx)        BEFORE ctx.coq_props(): regenerate the file
  <x>_validate(ctx, g)         AFTER  ctx.coq_props(): (1) the translator is
      validated by a finite sweep generated definition (vm_compute) vs the
      real python function; (2) when the translator refused the source or a
      proof obligation broke, the property oracle is evaluated on the python
      function over the sweep domain (a hit is a failing input: violation);
      when nothing is found the first input on which python and the
      hand-written model disagree goes into the replay of the `broken` verdict.
'''
import itertools
import random

from vlib import core

SEP_P, SEP_V = ':parent___', '___version:'


def proofs_failed(ctx):
    return ctx.cov.get('discharged', 0) != ctx.cov.get('obligations', 0) or not ctx.cov.get('obligations')


def _generate(ctx, script, out_rel, what, fp_rel, fp_names):
    ok, msg = ctx.generate(script, out_rel)
    ctx.trust('translator tools/translate/%s (+ pyfrag.py: python ast -> Gallina, fail closed; '
              'validated on every run by a finite sweep against the real %s; the generated '
              'definitions are PROVED equal to the hand-written model functions, coq/Proofs/%sEq.v)'
              % (script, what, out_rel.split('/')[-1][:-2]))
    fps = ctx.cov.setdefault('translated_fingerprints', {})
    fps[fp_rel] = core.fingerprint(fp_rel, fp_names)
    return {'ok': ok, 'msg': msg, 'script': script, 'out': out_rel}


# =============================================================================
# dawgie/db/shelve/util.py  (C08)
# =============================================================================
U_NAMES = ['a', 'ab', 'alg', 'alg2', 'a_b', '', '1', '11', 'x:parent', '__metric__',
           'a___version', 'a_', '_', 'a___version:1.0.0', 'p:parent___q', 'a.b']
U_VERS = [None, (1, 0, 0), (1, 10, 0), (11, 0, 0), (0, 0, 0), (1, 1, 10)]
U_PARENTS = [None, 0, 1, 11, 12]
U_JUNK = ['', 'x', ':parent___x', 'a:parent___x', '3:parent___', '3:parent___x___version:1.0',
          '3:parent___x___version:1.0.0.0', '3:parent___x___version:1.a.0',
          '3:parent___x___version:-1.0.0', '03:parent___x', 'x___version:1.2.3',
          '3:parent___x___version:1.0.0___version:2.0.0', '1:parent___2:parent___x',
          'x___version:1.0.0:parent___y', '12:parent___a___version:..', '7:parent__x']


def util_generate(ctx):
    return _generate(ctx, 'util2coq.py', 'Gen/UtilGen.v', 'dawgie.db.shelve.util functions',
                     'Python/dawgie/db/shelve/util.py',
                     ['construct', 'dissect', 'subset', 'LocalVersion.__init__'])


def util_units(ctx):
    rng = random.Random('%s:gen-util' % ctx.seed)
    names = U_NAMES if not ctx.quick else U_NAMES[:12]
    units = []
    for n, p, v in itertools.product(names, U_PARENTS, U_VERS):
        units.append({'f': 'roundtrip', 'name': n, 'parent': p, 'ver': list(v) if v else None})
    strings = list(U_JUNK)
    for n, p, v in itertools.product(names, U_PARENTS, U_VERS):
        s = n
        if p is not None:
            s = str(p) + SEP_P + s
        if v:
            s = s + SEP_V + '.'.join(str(x) for x in v)
        strings.append(s)
        if rng.random() < 0.12:
            strings.append(s + rng.choice(['.1', SEP_V + '1.0', 'x', SEP_P + 'z', SEP_V + '1.0.0']))
    seen = set()
    for s in strings:
        if s not in seen:
            seen.add(s)
            units.append({'f': 'dissect', 's': s})
    for _ in range(ctx.n(120, 600)):
        tab = {}
        for _ in range(rng.randint(0, 8)):
            n, p = rng.choice(U_NAMES[:5] + ['1', '11']), rng.choice([0, 1, 11])
            v = rng.choice(U_VERS[1:])
            full = str(p) + SEP_P + n + SEP_V + '.'.join(str(x) for x in v)
            if rng.random() < 0.15:
                full = str(p) + SEP_P + n
            if full not in tab:
                tab[full] = len(tab)
        items = list(tab.items())
        rng.shuffle(items)
        parents = rng.choice([[0], [1], [0, 1], [11], [], [1, 11], [0, 0]])
        units.append({'f': 'subset', 'table': items,
                      'name': rng.choice(U_NAMES[:5] + ['1', '0:par']), 'parents': parents})
    return units


def util_deep_units():
    """the small-scope search run when the tie is broken: every two-entry
    table over a name and its extensions by a fragment of the separators (all
    plain), every parent pair, every query"""
    frags = ['', '2', '_', '__', '___', '___v', '___version', '___versio', '___version_',
             '___version1', '.', '-', '_parent___', 'parent___', '0']
    units = []
    for base in ('a', 'alg'):
        fam = [base + f for f in frags]
        for other in fam[1:]:
            for p1, p2 in ((0, 0), (0, 1), (1, 11), (11, 1)):
                for v in ((1, 0, 0), (1, 10, 0)):
                    vs = '.'.join(map(str, v))
                    items = [(str(p1) + SEP_P + base + SEP_V + vs, 0),
                             (str(p2) + SEP_P + other + SEP_V + vs, 1),
                             (str(p1) + SEP_P + other, 2)]
                    for q in (base, other):
                        for parents in ([p1], [p2], [p1, p2]):
                            units.append({'f': 'subset', 'table': items, 'name': q, 'parents': parents})
        for n in fam:
            for p in (None, 0, 1, 11, 110):
                for v in (None, (1, 0, 0), (1, 10, 0), (-1, 0, 0)):
                    units.append({'f': 'roundtrip', 'name': n, 'parent': p, 'ver': list(v) if v else None})
    return units


def _util_oracle(units, impl):
    '''C08/C15 on the python functions themselves: dissect inverts construct
    on plain names; construct is injective over the domain; subset is exact on
    well-formed tables.  Returns a list of (kind, fields, what, replay).'''
    hits = []
    built = {}
    for u, r in zip(units, impl):
        if u['f'] == 'roundtrip' and ':' not in u['name']:
            want = [u['parent'], u['name'], u['ver']]
            if 'exc' in r:
                hits.append(('construct-raises', {}, 'util.construct(%r, %r, %r) raises %s'
                             % (u['name'], u['parent'], u['ver'], r['exc']), {'unit': u}))
                continue
            s, d = r['r']
            if d != want:
                hits.append(('dissect-does-not-invert-construct', {},
                             'util.dissect(util.construct(%r, %r, %r)) = %r (constructed %r)'
                             % (u['name'], u['parent'], u['ver'], d, s), {'unit': u}))
            if u['parent'] is not None and u['ver'] is not None:
                k = (u['name'], u['parent'], tuple(u['ver']))
                if s in built and built[s] != k:
                    hits.append(('construct-not-injective', {},
                                 'util.construct maps %r and %r to the same key %r' % (built[s], k, s),
                                 {'unit': u}))
                built[s] = k
        if u['f'] == 'subset' and u['parents'] and 'exc' not in r and ':' not in u['name']:
            want = []
            for n, i in u['table']:
                head, _, rest = n.partition(SEP_P)
                nm = rest.split(SEP_V)[0]
                if int(head) in u['parents'] and nm == u['name']:
                    want.append([n, i])
            if sorted(map(list, r['r'])) != sorted(want):
                hits.append(('subset-inexact', {}, 'util.subset(%r, %r) = %r, exact answer %r'
                             % (u['name'], u['parents'], r['r'], sorted(want)), {'unit': u}))
    return hits


def _util_canon(units, impl):
    from props import store_common as sc
    out = []
    for u, r in zip(units, impl):
        if u['f'] == 'roundtrip':
            out.append(('exc',) if 'exc' in r else ('ok', r['r'][0]))
        else:
            out.append(sc.unit_canon_impl(u, r))
    return out


def _util_eval(ctx, units, gen):
    from props import store_common as sc
    req = ['DV.Model.Catalogue', 'DV.Model.Store', 'DV.Model.StoreIO']
    if gen:
        req.append('DV.Gen.UtilGen')       # last import wins: construct/dissect/subset = generated

    def ex(u):
        return sc.unit_expr(dict(u, f='construct') if u['f'] == 'roundtrip' else u)
    vals = ctx.coq_eval(req, [ex(u) for u in units], z_scope=False,
                        preamble='Open Scope string_scope.')
    return [sc.unit_canon_model(dict(u, f='construct') if u['f'] == 'roundtrip' else u, v)
            for u, v in zip(units, vals)]


def util_validate(ctx, g, pid='C08'):
    units = util_units(ctx)
    impl = ctx.harness('drive_gen.py', {'util': units})['util']
    ci = _util_canon(units, impl)
    failed = (not g['ok']) or proofs_failed(ctx)
    found = False
    if failed:
        deep = util_deep_units()
        dimpl = ctx.harness('drive_gen.py', {'util': deep})['util']
        ctx.note('source_tie_util_deep_search', len(deep))
        for kind, fields, what, rp in _util_oracle(units, impl) + _util_oracle(deep, dimpl):
            found = True
            ctx.violation(kind, fields, '%s: %s' % (pid, what), dict(rp, source='oracle (python functions)',
                          theorem='C08_construct_injective / C15 dissect_construct / C08_subset_exact'))
    bad = None
    if g['ok']:
        try:
            cm = _util_eval(ctx, units, True)
            for u, a, b in zip(units, ci, cm):
                if a != b:
                    bad = {'unit': u, 'python': repr(a), 'generated': repr(b)}
                    break
        except core.CoqEvalError as e:
            bad = {'unit': None, 'python': '', 'generated': 'Gen/UtilGen.v does not compile: %s' % (e.args[1][-600:],)}
        if bad and not found:
            ctx.broken('translator validation: generated util function disagrees with python',
                       repr(bad), {'source': 'translator-validation', 'unit': bad['unit'],
                                   'expected': bad['generated'], 'observed': bad['python']})
    else:
        if not found:
            ctx.broken('translator util2coq.py refuses dawgie/db/shelve/util.py', g['msg'],
                       {'source': 'translator'})
    if failed and not found and g['ok']:
        # which input separates the python of today from the hand-written model
        cm = _util_eval(ctx, units, False)
        sep = next(({'unit': u, 'python': repr(a), 'model': repr(b)}
                    for u, a, b in zip(units, ci, cm) if a != b), None)
        ctx.broken('source tie: Gen/UtilGen.v (util.py of today) is no longer proved equal to Model/Catalogue.v',
                   'first separating input: %r' % (sep,),
                   {'source': 'proof', 'theorem': 'Proofs/UtilGenEq.v', 'unit': sep and sep['unit'],
                    'expected': sep and sep['model'], 'observed': sep and sep['python']})
    nt = [('util', u['f'], u.get('name'), u.get('parent'), u.get('ver'), u.get('s'))
          for u in units if u['f'] != 'subset' and (SEP_P in (u.get('s') or '') or u.get('parent') is not None)]
    ctx.count(evaluations=len(units), nontrivial_keys=nt)
    ctx.note('source_tie_util', {'units': len(units), 'translator_ok': g['ok'],
                                 'generated_vs_python_mismatch': bad})
    return not (failed or bad)


# =============================================================================
# dawgie/util/fifo.py class Unique  (C03: the todo sets)
# =============================================================================
FIFO_PRE = '''
Inductive sop := SAdd (v : nat) | SDiscard (v : nat) | SUpdate (l : list nat) | SContains (v : nat) | SCopy.
Inductive sres := RNone | RBool (b : bool) | RCopy (l : list nat) | RExc.
Definition sobs (st : FifoGen.ustate) (r : sres) := (FifoGen.iter st, FifoGen.len st, r).
Fixpoint srun (st : FifoGen.ustate) (ops : list sop) : list (list nat * nat * sres) :=
  match ops with
  | [] => []
  | SAdd v :: r => let st := FifoGen.add st v in sobs st RNone :: srun st r
  | SDiscard v :: r => match FifoGen.discard st v with
                       | Some st => sobs st RNone :: srun st r
                       | None => [([], 0, RExc)] end
  | SUpdate l :: r => let st := FifoGen.update st l in sobs st RNone :: srun st r
  | SContains v :: r => sobs st (RBool (FifoGen.contains st v)) :: srun st r
  | SCopy :: r => sobs st (RCopy (FifoGen.iter (FifoGen.copy st))) :: srun st r
  end.
Definition script (it : list nat) (ops : list sop) :=
  let st := FifoGen.init it in sobs st RNone :: srun st ops.
'''


def fifo_generate(ctx):
    return _generate(ctx, 'fifo2coq.py', 'Gen/FifoGen.v', 'dawgie.util.fifo.Unique',
                     'Python/dawgie/util/fifo.py',
                     ['Unique.__init__', 'Unique.__contains__', 'Unique.__iter__', 'Unique.__len__',
                      'Unique.add', 'Unique.copy', 'Unique.difference', 'Unique.discard', 'Unique.update'])


def fifo_scripts(ctx):
    rng = random.Random('%s:gen-fifo' % ctx.seed)
    alpha = [['add', v] for v in (1, 2, 3)] + [['discard', v] for v in (1, 2, 3)] \
        + [['update', l] for l in ([], [1, 2], [2, 2, 3], None)] \
        + [['contains', v] for v in (1, 3)] + [['copy', None]]
    inits = [None, [], [2, 1, 2], [3, 1, 2, 1]]
    out = []
    for it in inits:
        for k in (1, 2):
            for ops in itertools.product(alpha, repeat=k):
                out.append({'init': it, 'ops': [list(o) for o in ops]})
    for _ in range(ctx.n(150, 1500)):
        out.append({'init': rng.choice(inits + [[rng.randint(0, 5) for _ in range(rng.randint(0, 6))]]),
                    'ops': [list(rng.choice(alpha)) if rng.random() < 0.7 else
                            [rng.choice(['add', 'discard', 'contains']), rng.randint(0, 6)]
                            for _ in range(rng.randint(3, 8))]})
    return out


def _fifo_expr(sc):
    def lst(l):
        return '[' + ';'.join(str(x) for x in (l or [])) + ']'
    ops = []
    for op, a in sc['ops']:
        ops.append({'add': 'SAdd %d', 'discard': 'SDiscard %d', 'contains': 'SContains %d'}[op] % a
                   if op in ('add', 'discard', 'contains') else
                   'SUpdate %s' % lst(a) if op == 'update' else 'SCopy')
    return 'script %s [%s]' % (lst(sc['init']), ';'.join(ops))


def _fifo_canon_model(v):
    out = []
    for l, n, r in v:
        if r == 'RExc' or r == ('RExc',):
            out.append('EXC')
            break
        tag = r if isinstance(r, str) else r[0]
        val = None if tag == 'RNone' else (r[1] if tag == 'RBool' else ['Unique', list(r[1])])
        out.append([list(l), n, val])
    return out


def _fifo_canon_impl(r):
    out = [[list(o[0]), o[1], o[2]] for o in r.get('r', [])]
    if 'exc' in r:
        out.append('EXC')
    return out


def _fifo_reference(sc):
    '''an insertion-ordered set, written down independently (the oracle)'''
    def add(l, v):
        return l if v in l else l + [v]
    cur = []
    for v in sc['init'] or []:
        cur = add(cur, v)
    out = [[cur, len(cur), None]]
    for op, a in sc['ops']:
        r = None
        if op == 'add':
            cur = add(cur, a)
        elif op == 'discard':
            cur = [x for x in cur if x != a]
        elif op == 'update':
            for v in a or []:
                cur = add(cur, v)
        elif op == 'contains':
            r = a in cur
        elif op == 'copy':
            r = ['Unique', list(cur)]
        out.append([list(cur), len(cur), r])
    return out


def fifo_validate(ctx, g, pid='C03'):
    scripts = fifo_scripts(ctx)
    impl = ctx.harness('drive_gen.py', {'fifo': scripts})['fifo']
    ci = [_fifo_canon_impl(r) for r in impl]
    failed = (not g['ok']) or proofs_failed(ctx)
    found = False
    if failed:
        for sc, a in zip(scripts, ci):
            want = _fifo_reference(sc)
            if a != want:
                found = True
                ctx.violation('unique-not-an-ordered-set', {},
                              '%s: fifo.Unique(%r) after %r observes %r, an insertion-ordered set gives %r'
                              % (pid, sc['init'], sc['ops'], a, want),
                              {'source': 'oracle (python class)', 'script': sc,
                               'theorem': 'C03_unique_is_todo_list'})
                break
    bad = None
    if g['ok']:
        try:
            vals = ctx.coq_eval(['DV.Gen.FifoGen'], [_fifo_expr(s) for s in scripts],
                                preamble=FIFO_PRE, z_scope=False)
            for sc, a, v in zip(scripts, ci, vals):
                b = _fifo_canon_model(v)
                if a != b:
                    bad = {'script': sc, 'python': repr(a), 'generated': repr(b)}
                    break
        except core.CoqEvalError as e:
            bad = {'script': None, 'python': '', 'generated': 'Gen/FifoGen.v does not evaluate: %s' % (e.args[1][-600:],)}
        if bad and not found:
            ctx.broken('translator validation: generated Unique disagrees with python',
                       repr(bad), {'source': 'translator-validation', 'script': bad['script'],
                                   'expected': bad['generated'], 'observed': bad['python']})
    elif not found:
        ctx.broken('translator fifo2coq.py refuses dawgie/util/fifo.py', g['msg'], {'source': 'translator'})
    if failed and not found and g['ok'] and not bad:
        ctx.broken('source tie: Gen/FifoGen.v (fifo.py of today) is no longer proved to be the list-set '
                   'library of Model/Sched.v', 'python still behaves as an insertion-ordered set on %d scripts'
                   % len(scripts), {'source': 'proof', 'theorem': 'Proofs/FifoGenEq.v'})
    nt = [('fifo', repr(sc)) for sc in scripts
          if any(o[0] == 'discard' for o in sc['ops']) and any(o[0] in ('add', 'update') for o in sc['ops'])]
    ctx.count(evaluations=len(scripts), nontrivial_keys=nt)
    ctx.note('source_tie_fifo', {'scripts': len(scripts), 'translator_ok': g['ok'],
                                 'generated_vs_python_mismatch': bad})
    return not (failed or bad)


# =============================================================================
# dawgie/pl/farm.py eligibility tests and queue order  (C11)
# =============================================================================
FARM_PRE = '''
Definition effname (e : FarmGen.eff) : nat :=
  match e with FarmGen.ESendAbort => 0 | FarmGen.ESendProceed => 1 | FarmGen.EClose => 2 | FarmGen.ERegister => 3 end.
Definition mk (j t : nat) (r : Z) : msg := {| m_job := j; m_tgt := t; m_rid := r; m_fac := Task |}.
Definition cpu_of (tab : list (nat * nat * Z)) (m : msg) : Z :=
  match find (fun e => andb (Nat.eqb (fst (fst e)) (m_job m)) (Nat.eqb (snd (fst e)) (m_tgt m))) tab with
  | Some e => snd e | None => 0%Z end.
Definition csort (tab : list (nat * nat * Z)) (l : list msg) :=
  map (fun m => (m_job m, m_tgt m, m_rid m)) (FarmGen.cluster_sort (cpu_of tab) l).
'''
EFF = {0: 'abort', 1: 'proceed', 2: 'close', 3: 'register'}


def farm_generate(ctx):
    return _generate(ctx, 'farm2coq.py', 'Gen/FarmGen.v', 'dawgie.pl.farm functions',
                     'Python/dawgie/pl/farm.py',
                     ['Hand._reg', 'Hand._process', 'Hand.__init__', 'something_to_do', '_cluster_sort', '_workers_sort'])


def farm_units(ctx):
    rng = random.Random('%s:gen-farm' % ctx.seed)
    units = []
    for rev_ok in (True, False):
        units.append({'f': 'reg', 'rev_ok': rev_ok})
        for active in (True, False):
            units.append({'f': 'poll', 'rev_ok': rev_ok, 'active': active})
    for active, crew, agency in itertools.product((True, False), repeat=3):
        units.append({'f': 'something_to_do', 'active': active, 'crew': crew, 'agency': agency})
    # queue order: every list of <= 3 messages over run ids {1,2} x two units, without
    # and with insights; then random longer ones
    pool = [(j, t, r) for j in (0, 1) for t in (0, 1) for r in (1, 2)]
    lists = [list(c) for k in (1, 2, 3) for c in itertools.product(pool, repeat=k)]
    if ctx.quick:
        lists = [l for i, l in enumerate(lists) if i % 3 == 0]
    for l in lists:
        units.append({'f': 'cluster_sort', 'msgs': [list(m) for m in l], 'insights': []})
    for _ in range(ctx.n(150, 1000)):
        msgs = [[rng.randint(0, 3), rng.randint(0, 2), rng.choice([0, 1, 2, 3, 7])] for _ in range(rng.randint(2, 7))]
        tab = []
        if rng.random() < 0.6:
            for j, t in {(m[0], m[1]) for m in msgs}:
                if rng.random() < 0.7:
                    tab.append([j, t, rng.randint(0, 4)])
        units.append({'f': 'cluster_sort', 'msgs': msgs, 'insights': tab})
    # idle-list order: every pool of <= 4 workers on 3 hosts, then random larger ones
    for k in range(0, 5):
        for hs in itertools.product((0, 1, 2), repeat=k):
            units.append({'f': 'workers_sort', 'workers': [[i, h] for i, h in enumerate(hs)]})
    for _ in range(ctx.n(60, 600)):
        n = rng.randint(5, 9)
        ids = rng.sample(range(20), n)
        units.append({'f': 'workers_sort', 'workers': [[i, rng.choice([0, 1, 2, 5, 11])] for i in ids]})
    return units


def _farm_payload(u):
    if u['f'] != 'cluster_sort':
        return u
    return dict(u, insights=[['%s.j%d' % ('__all__' if t == 0 else 't%d' % t, j), c] for j, t, c in u['insights']])


def _farm_expr(u):
    def b(x):
        return 'true' if x else 'false'
    f = u['f']
    if f == 'reg':
        return 'map effname (FarmGen.hand_reg %s)' % b(u['rev_ok'])
    if f == 'poll':
        return 'map effname (FarmGen.hand_status %s %s)' % (b(u['rev_ok']), b(u['active']))
    if f == 'something_to_do':
        return 'FarmGen.something_to_do %s %s' % (b(u['crew']), b(u['active']))
    if f == 'workers_sort':
        return 'FarmGen.workers_sort [%s]' % ';'.join('(%d,%d)' % tuple(w) for w in u['workers'])
    tab = '[' + ';'.join('(%d,%d,(%d)%%Z)' % tuple(e) for e in u['insights']) + ']'
    ms = '[' + ';'.join('mk %d %d (%d)%%Z' % tuple(m) for m in u['msgs']) + ']'
    return 'csort %s %s' % (tab, ms)


def _farm_canon_model(u, v):
    if u['f'] in ('reg', 'poll'):
        return ('ok', [EFF[x] for x in v])
    if u['f'] == 'something_to_do':
        return ('ok', v)
    if u['f'] == 'workers_sort':
        return ('exc', 'IndexError') if v is None else ('ok', [list(x) for x in v[1]])
    return ('ok', [list(x) for x in v])


def _farm_canon_impl(u, r):
    if 'exc' in r:
        return ('exc', r['exc'])
    return ('ok', r['r'])


def _farm_oracle(units, impl):
    '''C11 on the python functions: a stale revision is refused and never
    registered; nothing but abort answers while inactive; the queue order is
    a stable sort by run id when the insights do not separate the messages'''
    hits = []
    for u, r in zip(units, impl):
        if 'exc' in r:
            hits.append(('farm-function-raises', {'f': u['f']}, 'farm %s raises %s on %r' % (u['f'], r['exc'], u), u))
            continue
        o = r['r']
        if u['f'] == 'reg':
            want = ['register'] if u['rev_ok'] else ['abort', 'close']
            if o != want:
                hits.append(('registration-eligibility', {}, 'Hand._reg(rev_ok=%s) does %r, expected %r'
                             % (u['rev_ok'], o, want), u))
        elif u['f'] == 'poll':
            want = ['proceed', 'close'] if (u['rev_ok'] and u['active']) else ['abort', 'close']
            if o != want:
                hits.append(('poll-eligibility', {}, 'status poll (rev_ok=%s, active=%s) answers %r, expected %r'
                             % (u['rev_ok'], u['active'], o, want), u))
        elif u['f'] == 'something_to_do':
            if o is not u['active']:
                hits.append(('dispatch-guard', {}, 'something_to_do(active=%s, crew=%s, agency=%s) = %r'
                             % (u['active'], u['crew'], u['agency'], o), u))
        elif u['f'] == 'workers_sort':
            if sorted(map(tuple, o)) != sorted(map(tuple, u['workers'])):
                hits.append(('idle-list-not-preserved', {}, '_workers_sort(%r) = %r: not a permutation'
                             % (u['workers'], o), u))
        elif u['f'] == 'cluster_sort' and not u['insights']:
            want = sorted(u['msgs'], key=lambda m: m[2])
            if o != want:
                hits.append(('queue-order', {}, '_cluster_sort(%r) = %r, stable order by run id is %r'
                             % (u['msgs'], o, want), u))
    return hits


def farm_validate(ctx, g, pid='C11'):
    units = farm_units(ctx)
    impl = ctx.harness('drive_gen.py', {'farm': [_farm_payload(u) for u in units]})['farm']
    ci = [_farm_canon_impl(u, r) for u, r in zip(units, impl)]
    failed = (not g['ok']) or proofs_failed(ctx)
    found = False
    if failed:
        for kind, fields, what, u in _farm_oracle(units, impl)[:3]:
            found = True
            ctx.violation(kind, fields, '%s: %s' % (pid, what),
                          {'source': 'oracle (python functions)', 'unit': u,
                           'theorem': 'C11_stale_refused / C11_inactive / C11_conservation'})
    bad = None
    if g['ok']:
        try:
            vals = ctx.coq_eval(['DV.Model.Sched', 'DV.Gen.FarmGen'], [_farm_expr(u) for u in units],
                                preamble=FARM_PRE, z_scope=False)
            for u, a, v in zip(units, ci, vals):
                b = _farm_canon_model(u, v)
                if a != b:
                    bad = {'unit': u, 'python': repr(a), 'generated': repr(b)}
                    break
        except core.CoqEvalError as e:
            bad = {'unit': None, 'python': '', 'generated': 'Gen/FarmGen.v does not evaluate: %s' % (e.args[1][-600:],)}
        if bad and not found:
            ctx.broken('translator validation: generated farm function disagrees with python',
                       repr(bad), {'source': 'translator-validation', 'unit': bad['unit'],
                                   'expected': bad['generated'], 'observed': bad['python']})
    elif not found:
        ctx.broken('translator farm2coq.py refuses dawgie/pl/farm.py', g['msg'], {'source': 'translator'})
    if failed and not found and g['ok'] and not bad:
        ctx.broken('source tie: Gen/FarmGen.v (farm.py of today) is no longer proved equal to the farm part '
                   'of Model/Sched.v', 'the python functions still satisfy the oracle on %d units' % len(units),
                   {'source': 'proof', 'theorem': 'Proofs/FarmGenEq.v'})
    nt = [('farm', repr(u)) for u in units
          if (u['f'] == 'workers_sort' and len({w[1] for w in u['workers']}) > 1)
          or (u['f'] == 'cluster_sort' and len({m[2] for m in u['msgs']}) < len(u['msgs']))
          or u['f'] not in ('workers_sort', 'cluster_sort')]
    ctx.count(evaluations=len(units), nontrivial_keys=nt)
    ctx.note('source_tie_farm', {'units': len(units), 'translator_ok': g['ok'],
                                 'generated_vs_python_mismatch': bad})
    return not (failed or bad)
