'''Shared plumbing for the scheduler/farm model (C01-C05, C11, C15 build half):
rendering of engine graphs and events as Gallina terms, evaluation of
coq/Model/Sched.v on the same event lists the real code ran, comparison of the
canonical observations, and the per-property oracles evaluated on the
IMPLEMENTATION's observations.'''
import json

from vlib import core

FAC = {0: 'Task', 1: 'Analysis', 2: 'Regress'}
OUTC = {3: 'Success', 1: 'Failure', 6: 'Invalid'}

FINGERPRINT = [
    ('Python/dawgie/pl/schedule.py',
     ['organize', 'next_job_batch', 'complete', 'purge', 'update', 'build', 'find', '_diff',
      '_is_asp', '_priors', 'view_todo', 'view_doing']),
    ('Python/dawgie/pl/farm.py',
     ['Hand._res', 'Hand._reg', 'Hand._process', 'Hand.connectionLost', 'Hand.do', 'Hand.notify',
      'dispatch', '_put', 'rerunid', 'something_to_do', 'notify_all', '_cluster_sort',
      '_workers_sort', 'crew']),
    ('Python/dawgie/pl/dag.py', ['Node.locate', 'Node.iter', 'Node.add']),
    ('Python/dawgie/util/fifo.py', ['Unique']),
]


def nl(xs):
    return '[' + '; '.join(str(int(x)) for x in xs) + ']'


def zopt(r):
    return 'None' if r is None else '(Some (%d)%%Z)' % r


def b(x):
    return 'true' if x else 'false'


def cfg_term(g):
    nodes = '; '.join(
        '{| kids := %s; anc := %s; gfac := %s; lvl := %d; ins := %s |}'
        % (nl(n['kids']), nl(n['anc']), FAC[n['fac']], n['lvl'], nl(n['ins']))
        for n in g['nodes'])
    fb = '; '.join('(%d, %d)' % (a, c) for a, c in g['fb'])
    tg = nl(range(1, len(g['tnames'])))
    return '{| gnodes := [%s]; gfb := [%s]; gtargets := %s |}' % (nodes, fb, tg)


def ev_term(e):
    k = e[0]
    if k == 'org':
        return '(Org %s %s %s)' % (nl(e[1]), zopt(e[2]), nl(e[3]))
    if k == 'tick':
        return 'Tick'
    if k == 'rep':
        _, w, x, t, rid, oc, vals = e
        vs = '; '.join('(%d, %d, %s)' % (vt, vn, b(isn)) for vt, vn, isn in vals)
        return '(Rep %d %d %d (%d)%%Z %s [%s])' % (w, x, t, rid, OUTC[oc], vs)
    if k == 'reg':
        return '(Reg %d %d %s)' % (e[1], e[2], b(e[3]))
    if k == 'poll':
        return '(Poll %d %s)' % (e[1], b(e[2]))
    if k == 'drop':
        return '(Drop %d)' % e[1]
    if k == 'act':
        return '(Act %s)' % b(e[1])
    if k == 'pause':
        return '(Pause %s)' % b(e[1])
    if k == 'stored':
        return '(Stored (%d)%%Z)' % e[1]
    if k == 'buildch':
        return '(Build %s)' % nl(e[1])
    raise ValueError(k)


def canon_impl(o):
    return {
        'que': o['que'],
        'nodes': [[n[0], n[1], n[2], n[3], n[4]] for n in o['nodes']],
        'jobs': o['jobs'], 'cluster': o['cluster'], 'busy': o['busy'],
        'workers': o['workers'], 'flags': o['flags'], 'outs': o['outs'],
    }


def canon_model(t):
    que, nodes, jobs, cluster, busy, workers, flags, outs, inflight = t
    ns = []
    for todo, doing, do, st, rid in nodes:
        ns.append([sorted(todo), sorted(doing), sorted(do), st,
                   None if rid is None else rid[1]])
    return {
        'que': que, 'nodes': ns, 'jobs': jobs, 'cluster': cluster,
        'busy': sorted(busy), 'workers': workers, 'flags': list(flags),
        'outs': outs,
    }


def model_traces(ctx, results):
    '''evaluate obs_trace for every case; returns list of list of canon dicts'''
    exprs = []
    for r in results:
        evs = '[' + '; '.join(ev_term(e) for e in r['events']) + ']'
        exprs.append('obs_trace %s %s' % (cfg_term(r['graph']), evs))
    vals = ctx.coq_eval(['DV.Model.Sched', 'DV.Model.SchedObs'], exprs, z_scope=False, chunk=40)
    return [[canon_model(t) for t in v] for v in vals]


def first_mismatch(impl_obs, model_obs):
    for i, (a, m) in enumerate(zip(impl_obs, model_obs)):
        ca = canon_impl(a)
        if ca != m:
            keys = [k for k in ca if ca[k] != m[k]]
            return i, keys, {k: ca[k] for k in keys}, {k: m[k] for k in keys}
    if len(impl_obs) != len(model_obs):
        return min(len(impl_obs), len(model_obs)), ['length'], {}, {}
    return None


def fingerprints(ctx):
    fp = {}
    for path, names in FINGERPRINT:
        for k, v in core.fingerprint(path, names).items():
            fp['%s:%s' % (path.split('/')[-1], k)] = v
    ctx.note('fingerprints', fp)
    try:
        ref = json.load(open(core.VERIF + '/corpus/sched_fingerprints.json'))
    except OSError:
        ref = fp
    changed = sorted(k for k in fp if ref.get(k) != fp[k])
    ctx.note('fingerprints_changed', changed)
    return changed


def wf_graph(g):
    '''the hypothesis of the scheduler theorems, checked on the graph the REAL
    Construct produced: anc(y) = strict ancestors by kids; kids acyclic.'''
    n = len(g['nodes'])
    parents = {i: set() for i in range(n)}
    for i, nd in enumerate(g['nodes']):
        for k in nd['kids']:
            parents[k].add(i)
    anc = {}

    def up(i, stack=()):
        if i in anc:
            return anc[i]
        if i in stack:
            return None
        s = set()
        for p in parents[i]:
            u = up(p, stack + (i,))
            if u is None:
                return None
            s |= {p} | u
        anc[i] = s
        return s

    for i in range(n):
        u = up(i)
        if u is None or i in u:
            return False, 'cycle at %d' % i
        if u != set(g['nodes'][i]['anc']):
            return False, 'ancestry of %d is %s, closure of kids is %s' % (
                i, sorted(g['nodes'][i]['anc']), sorted(u))
    return True, ''


def run_corr(ctx, cases, oracle=None, label='sched'):
    '''Run the cases on the implementation and on the model, compare, run the
    oracle (callable(case_result) -> list of (kind, fields, what, step)).
    Returns (results, nmismatch).'''
    out = ctx.harness('drive_sched.py', {'cases': cases})
    results = out['cases']
    for c, r in zip(cases, results):
        r['seed'] = c.get('seed')
    traces = model_traces(ctx, results)
    nmis = 0
    for r, tr in zip(results, traces):
        ok, why = wf_graph(r['graph'])
        mm = first_mismatch(r['obs'], tr)
        if not ok:
            # the hypothesis of the scheduler theorems fails on the graph the
            # real Construct built: treated like a parting of model and code
            # (the oracle, which closes the declared edges itself, searches
            # these histories and their continuations for a failing input)
            mm = (mm[0] if mm else 0, ['wf_graph'], {'wf_graph': why}, {})
        r['mismatch'] = mm
        if mm:
            nmis += 1
        if oracle:
            for kind, fields, what, step in oracle(r):
                ctx.violation(kind, fields, what,
                              {'source': 'oracle', 'step': step, 'case': strip(r, step)})
    return results, nmis


def strip(r, upto=None):
    ev = r['events'] if upto is None else r['events'][:upto + 1]
    return {'seed': r.get('seed'), 'desc': r['desc'], 'events': ev,
            'targets': r['graph']['tnames'][1:], 'tags': r['graph']['tags']}


def report_mismatches(ctx, results, what):
    '''a correspondence mismatch that no oracle explained -> broken'''
    for r in results:
        mm = r.get('mismatch')
        if mm:
            i, keys, a, m = mm
            ctx.broken(
                'correspondence %s: model Sched.v and implementation disagree' % what,
                'case seed=%s step=%d event=%s differing=%s\nimpl=%s\nmodel=%s'
                % (r.get('seed'), i, r['events'][i] if i < len(r['events']) else None,
                   keys, json.dumps(a)[:1500], json.dumps(m)[:1500]),
                {'source': 'correspondence', 'step': i, 'case': strip(r, i),
                 'impl': a, 'model': m})
            return True
    return False


# ---------------------------------------------------------------------------
# C15 build half
# ---------------------------------------------------------------------------


def pl(xs):
    return '[' + '; '.join('(%d, %d)' % (a, c) for a, c in xs) + ']'


def pll(xs):
    return '[' + '; '.join('(%d, %s)' % (a, nl(c)) for a, c in xs) + ']'


def c15_build(ctx, ok, msg, proofs_ok):
    ctx.trust('translator tools/translate/diff2coq.py (schedule._diff -> Gen/DiffGen.v, fail closed)',
              *SCHED_TRUST[:2])
    if not ok:
        ctx.note('diff_translator', 'refused: ' + msg[-300:])
        ctx.cov['discharged'] = 0
    n = ctx.n(60, 600) if ok and proofs_ok else 600
    cases = [{'seed': '%d:%d' % (ctx.seed, i), 'nalg': 5 + i % 4, 'prior': i % 2 == 1,
              'mode': 'mixed' if i % 10 else ('none' if i % 20 else 'all')} for i in range(n)]
    out = ctx.harness('drive_build.py', {'cases': cases})
    results = out['cases']
    nontriv = []
    bad = None
    for cs, r in zip(cases, results):
        g = r['graph']
        n_nodes = len(g['nodes'])
        exp = set(r['expect_changed'])
        if 0 < len(exp) < n_nodes:
            nontriv.append(('build', cs['seed']))
        # oracle on the implementation: scheduled exactly the changed ones
        if r['obs'].get('foreign'):
            ctx.violation('build-not-exact', {'node': 'foreign'},
                          'after build the queue holds %s, which are not nodes of the tree that build made '
                          '(before: running %s)' % (r['obs']['foreign'], (r.get('prior') or {}).get('running')),
                          {'source': 'oracle', 'desc': r['desc'], 'latest': r['latest'],
                           'previous': r['previous'], 'prior': r.get('prior'), 'theorem': 'C15_build_exact'})
            bad = True
        for y in range(n_nodes):
            want = ([0] if g['nodes'][y]['fac'] == 1 else list(range(1, len(g['tnames'])))) if y in exp else []
            if r['obs']['nodes'][y][0] != sorted(want) or r['obs']['nodes'][y][1] or (y in r['obs']['que']) != (y in exp):
                ctx.violation('build-not-exact', {'node': 'changed' if y in exp else 'unchanged'},
                              'after build node %s (changed=%s) has todo %s, in queue=%s'
                              % (g['tags'][y], y in exp, r['obs']['nodes'][y][0], y in r['obs']['que']),
                              {'source': 'oracle', 'desc': r['desc'], 'latest': r['latest'],
                               'previous': r['previous'], 'theorem': 'C15_build_exact'})
                bad = True
    ctx.count(evaluations=len(results), nontrivial_keys=nontriv)
    ctx.note('build_cases', len(results))
    ctx.note('build_cases_from_a_working_pipeline', {
        'cases': sum(1 for r in results if r.get('prior')),
        'with_running_jobs': sum(1 for r in results if r.get('prior') and r['prior']['running']),
        'with_running_jobs_that_have_pending_targets': sum(1 for r in results if r.get('prior') and r['prior']['running_with_todo'])})
    if results:
        ctx.sample({'build_case': {'tags': results[0]['graph']['tags'], 'latest': results[0]['latest'],
                                   'previous': results[0]['previous'], 'queue_after': results[0]['obs']['que']}})
    if not ok:
        if not bad:
            ctx.broken('translator diff2coq.py refuses schedule._diff', msg, {'source': 'translator'})
        return
    exprs = []
    for r in results:
        T = r['tables']
        tt = ('{| cur_alg := %s; cur_sv := %s; cur_v := %s; per_alg := %s; per_sv := %s; per_v := %s; '
              'own_sv := %s; own_v := %s |}' % (pl(T['cur_alg']), pl(T['cur_sv']), pl(T['cur_v']),
                                               pll(T['per_alg']), pll(T['per_sv']), pll(T['per_v']),
                                               pl(T['own_sv']), pl(T['own_v'])))
        c = cfg_term(r['graph'])
        exprs.append('let s := build_versions %s %s %s (init %s) in (que s, map (fun n => (todo n, doing n)) (ns s))'
                     % (c, tt, nl(r['obs']['que']), c))
    try:
        vals = ctx.coq_eval(['DV.Model.Sched', 'DV.Model.Build'], exprs, z_scope=False, chunk=40)
    except core.CoqEvalError as e:
        if not bad:
            ctx.broken('model evaluation of build_versions failed (generated DiffGen.v does not compile?)',
                       str(e.args[-1])[-2000:], {'source': 'correspondence'})
        return
    for cs, r, (que, nodes) in zip(cases, results, vals):
        m_nodes = [[sorted(td), sorted(dg)] for td, dg in nodes]
        i_nodes = [[n[0], n[1]] for n in r['obs']['nodes']]
        if que != r['obs']['que'] or m_nodes != i_nodes:
            if not bad:
                ctx.broken('correspondence build: model Build.v/DiffGen.v and schedule.build disagree',
                           'seed=%s impl que=%s nodes=%s model que=%s nodes=%s' % (cs['seed'], r['obs']['que'], i_nodes, que, m_nodes),
                           {'source': 'correspondence', 'desc': r['desc'], 'latest': r['latest'], 'previous': r['previous']})
            return


# ---------------------------------------------------------------------------
# generic check used by props/C01..C05, C11
# ---------------------------------------------------------------------------

SCHED_TRUST = [
    'hand-written model coq/Model/Sched.v of pl/schedule.py + pl/farm.py, tied to the code by the '
    'correspondence: tools/harness/drive_sched.py runs the REAL organize/next_job_batch/complete/'
    'purge/update/dispatch/Hand._res/_reg/_process/connectionLost on generated event lists and '
    'every observable after every event is compared with the model (vm_compute)',
    'driver fakes (outside /repo): Twisted transports, fsm stub (activity flag, archiving_trigger '
    'recorder), dawgie.db.next/targets, chronicle.append recorder, in-memory AE packages '
    '(tools/harness/engine_mem.py); id tables (nodes/targets/values sorted by name)',
    'graph hypothesis wf_graph (ancestry = transitive closure of kids, acyclic) is checked on '
    'every graph the real dag.Construct produced (C09 proves it for the Dag model)',
]
SCHED_ASSUME = [
    'Twisted delivers callbacks of one reactor atomically (events are atomic steps)',
    'promotion engine off (context.allow_promotion = False, the default); AWS agency absent',
    'python set iteration order does not matter: observations compare sets sorted; todo order '
    'is not observable through dispatch (it sorts)',
]


def sched_check(ctx, oracle, profiles, nontrivial, witnesses=(), rule=''):
    import glob
    import os
    ctx.cov['rule'] = rule
    ctx.trust(*SCHED_TRUST)
    ctx.assume(*SCHED_ASSUME)
    changed = fingerprints(ctx)
    escalate = bool(changed) and ctx.quick
    if escalate:
        ctx.note('escalated', 'fingerprint of %s changed: thorough depth' % changed)
    pr = ctx.coq_props()
    # corpus first
    cases = []
    for f in sorted(glob.glob(os.path.join(core.VERIF, 'corpus', 'sched', '*.json'))):
        cases.append(json.load(open(f)))
    ncorpus = len(cases)
    per = ctx.n(40, 400) if not escalate else 400
    nev = ctx.n(50, 80)
    for p in profiles:
        for i in range(per):
            cases.append({'seed': '%d:%s:%d' % (ctx.seed, p, i), 'nev': nev, 'profile': p,
                          'nalg': 6 if i % 3 else 8, 'shape': 'fan' if i % 2 else 'random'})
    results = []
    nmis = 0
    for k in range(0, len(cases), 120):
        res, n = run_corr(ctx, cases[k:k + 120], oracle)
        results += res
        nmis += n
        if ctx.nviol:
            # a failing input is on the table: the verdict does not depend on
            # the remaining histories
            ctx.note('stopped_after_first_violation', {'histories_run': len(results), 'planned': len(cases)})
            break
    keys = [str(r.get('seed')) for r in results if nontrivial(r)]
    ctx.count(evaluations=len(results), nontrivial_keys=keys)
    hist = {}
    for r in results:
        for e in r['events']:
            hist[e[0]] = hist.get(e[0], 0) + 1
    ctx.note('event_histogram', hist)
    ctx.note('corpus_cases', ncorpus)
    ctx.note('events_total', sum(hist.values()))
    ctx.note('correspondence_mismatches', nmis)
    if results:
        ctx.sample({'seed': results[-1].get('seed'), 'tags': results[-1]['graph']['tags'],
                    'events': results[-1]['events'][:12]})
    for w in witnesses:
        ctx.expect_known(w, any(k.startswith(w) for k in ctx.known_hits))
    if not pr['ok']:
        if ctx.nviol == 0:
            ctx.broken('theorem/file %s' % pr['failing'], pr['log'],
                       {'source': 'proof', 'theorem': pr['failing']})
    if nmis and ctx.nviol == 0:
        # model and implementation parted and the oracle saw nothing yet:
        # search for a failing input (a) from the states where they parted,
        # by random continuations of those histories, (b) at thorough depth
        search_failing_input(ctx, results, oracle, profiles, escalate or not ctx.quick)
    if nmis and ctx.nviol == 0:
        report_mismatches(ctx, results, 'scheduler/farm')
    elif nmis:
        ctx.note('correspondence_mismatch_explained_by_violation', True)
    # every open finding must keep reproducing on the implementation
    for w in witnesses:
        if not any(k.startswith(w) for k in ctx.known_hits) and ctx.nviol == 0:
            ctx.broken('known finding %s no longer reproduces: model (faithful to the finding) and code have diverged' % w,
                       'the directed witness in corpus/sched did not trigger', {'source': 'correspondence'})
    return results


CHAIN2 = {'pkgs': {'p0': {'task': [
    {'name': 'a0', 'svs': [{'name': 's0', 'vals': [['v0', [1, 0, 0]]]}], 'deps': [], 'fb': []},
    {'name': 'a1', 'svs': [{'name': 's0', 'vals': [['v0', [1, 0, 0]]]}],
     'deps': [['alg', 'p0', 'task', 'a0', None, None]], 'fb': []}]}}}


TASK_ASPECT = {'pkgs': {'p0': {
    'task': [{'name': 'a0', 'svs': [{'name': 's0', 'vals': [['v0', [1, 0, 0]]]}], 'deps': [], 'fb': []}],
    'analysis': [{'name': 'z0', 'svs': [{'name': 's0', 'vals': [['v0', [1, 0, 0]]]}],
                  'deps': [['alg', 'p0', 'task', 'a0', None, None]], 'fb': []}]}}}


def fault_study(ctx, oracle):
    '''histories in which the database refuses a run id during a dispatch
    (farm.dispatch: "allow db impl to throw an exception via rerunid()": the
    job stays with the farm and is retried by the next dispatch).  This event
    is NOT in the model: the histories support the search for failing inputs
    with the property oracle only, no theorem speaks about them.'''
    n = ctx.n(40, 400)
    cases = [{'seed': '%d:fault:%d' % (ctx.seed, i), 'nev': 50, 'profile': 'fault',
              'nalg': 6 if i % 3 else 8, 'shape': 'fan' if i % 2 else 'random'} for i in range(n)]
    cases.insert(0, {'seed': 'fault-directed', 'nev': 0, 'events': [
        ['reg', 1, 0, True], ['org', [0], None, [1]], ['tickf', 1], ['tick'], ['tick']], 'nalg': 3})
    cases.insert(1, {'seed': 'fault-directed-2', 'nev': 0, 'events': [
        ['reg', 1, 0, True], ['reg', 2, 1, True], ['org', [0, 1], None, [1, 2]], ['tickf', 2], ['tick'], ['tick']],
        'nalg': 3})
    # the witness of the open finding C01 kept-job-sent-while-ancestor-pending
    # (C01_doing_faults_refuted): chain a0 -> a1, one target
    cases.insert(2, {'seed': 'c01-kept-job-sent-while-ancestor-pending', 'desc': CHAIN2, 'targets': ['T1'], 'nev': 0,
                     'events': [['reg', 1, 0, True], ['org', [1], None, [1]], ['tickf', 1],
                                ['org', [0], None, [1]], ['tick']]})
    # the window between a release and the bookkeeping that follows it in
    # farm.dispatch, seen from the all-targets clause: an analysis and its
    # upstream task pending together, the run id of the task refused, then an
    # ordinary dispatch (the analysis must wait for the kept task)
    cases.insert(3, {'seed': 'fault-directed-aspect', 'desc': TASK_ASPECT, 'targets': ['T1', 'T2'], 'nev': 0,
                     'events': [['reg', 1, 0, True], ['org', [0, 1], None, [1, 2]], ['tickf', 1], ['tick'],
                                ['tick']]})
    out = ctx.harness('drive_sched.py', {'cases': cases})
    nf = 0
    for c, r in zip(cases, out['cases']):
        r['seed'] = c['seed']
        nf += sum(1 for o in r['obs'] if [10] in o['outs'])
        for kind, fields, what, step in oracle(r):
            ctx.violation(kind, fields, what, {'source': 'oracle (fault history)',
                                              'step': step, 'case': strip(r, step)})
    # correspondence with Model/SchedFault.v (TickFault k)
    exprs = []
    for r in out['cases']:
        evs = '[' + '; '.join('(TickFault %d)' % e[1] if e[0] == 'tickf' else '(Ev %s)' % ev_term(e)
                              for e in r['events']) + ']'
        exprs.append('obs_xtrace %s %s' % (cfg_term(r['graph']), evs))
    nmis, first, outside = 0, None, 0
    try:
        vals = ctx.coq_eval(['DV.Model.Sched', 'DV.Model.SchedObs', 'DV.Model.SchedFault'], exprs,
                            z_scope=False, chunk=40)
        for r, v in zip(out['cases'], vals):
            mm = first_mismatch(r['obs'], [canon_model(t) for t in v])
            if mm:
                nmis += 1
                first = first or (r, mm)
    except core.CoqEvalError as e:
        nmis, first = -1, (None, str(e.args[-1])[-1500:])
    if first and ctx.nviol == 0:
        r, mm = first
        if r is None:
            ctx.broken('model evaluation of the fault histories failed', mm, {'source': 'correspondence'})
        else:
            i, keys, a, m = mm
            ctx.broken('correspondence fault histories: model SchedFault.v and implementation disagree',
                       'case seed=%s step=%d event=%s differing=%s\nimpl=%s\nmodel=%s'
                       % (r.get('seed'), i, r['events'][i] if i < len(r['events']) else None, keys,
                          json.dumps(a)[:1500], json.dumps(m)[:1500]),
                       {'source': 'correspondence', 'step': i, 'case': strip(r, i), 'impl': a, 'model': m})
    ctx.note('fault_histories', {'histories': len(cases), 'dispatches_with_a_refused_run_id': nf,
                                 'correspondence_mismatches': nmis,
                                 'note': 'TickFault k of Model/SchedFault.v: correspondence + oracle; the '
                                         'invariant theorems are lifted to histories with faults in Proofs/SchedFaultInv.v'})
    ctx.count(evaluations=len(cases))


def search_failing_input(ctx, results, oracle, profiles, deep_done):
    bad = [r for r in results if r.get('mismatch')][:4]
    cont = []
    for bi, r in enumerate(bad):
        i = r['mismatch'][0]
        for k in range(40):
            cont.append({'seed': 'cont:%d:%d:%d' % (ctx.seed, bi, k), 'desc': r['desc'],
                         'targets': r['graph']['tnames'][1:], 'events': r['events'][:i + 1],
                         'extra': 30, 'profile': 'sched' if k % 2 else profiles[0]})
    ctx.log('correspondence mismatch: searching %d continuations for a failing input' % len(cont))
    run_corr(ctx, cont, oracle)
    ctx.note('failing_input_search', {'continuations': len(cont), 'found': ctx.nviol > 0})
    if not ctx.nviol:
        # (a') histories in which the database refuses a run id during a
        # dispatch (oracle only): the window between a release and the
        # bookkeeping that follows it in farm.dispatch
        fcases = [{'seed': '%d:faultsearch:%d' % (ctx.seed, i), 'nev': 50, 'profile': 'fault',
                   'nalg': 6 if i % 3 else 8, 'shape': 'fan' if i % 2 else 'random'} for i in range(200)]
        fcases.insert(0, {'seed': 'fault-directed-aspect', 'desc': TASK_ASPECT, 'targets': ['T1', 'T2'], 'nev': 0,
                          'events': [['reg', 1, 0, True], ['org', [0, 1], None, [1, 2]], ['tickf', 1], ['tick'],
                                     ['tick']]})
        out = ctx.harness('drive_sched.py', {'cases': fcases})
        for c, r in zip(fcases, out['cases']):
            r['seed'] = c['seed']
            for kind, fields, what, step in oracle(r):
                ctx.violation(kind, fields, what, {'source': 'oracle (fault history)',
                                                  'step': step, 'case': strip(r, step)})
            if ctx.nviol:
                break
        ctx.cov['failing_input_search']['fault_histories'] = len(fcases)
        ctx.cov['failing_input_search']['found'] = ctx.nviol > 0
    if ctx.nviol or deep_done:
        return
    cases = []
    for p in profiles:
        for i in range(300):
            cases.append({'seed': '%d:deep:%s:%d' % (ctx.seed, p, i), 'nev': 80, 'profile': p,
                          'nalg': 6 if i % 3 else 8, 'shape': 'fan' if i % 2 else 'random'})
    ctx.log('searching %d more histories at thorough depth' % len(cases))
    for k in range(0, len(cases), 150):
        run_corr(ctx, cases[k:k + 150], oracle)
        if ctx.nviol:
            break
    ctx.cov['failing_input_search']['deep_histories'] = len(cases)
    ctx.cov['failing_input_search']['found'] = ctx.nviol > 0


def sched_replay(ctx, obj, oracle):
    '''./check Cxx --replay F : re-execute the recorded case against /repo and
    against the model; report what the oracle and the correspondence say.'''
    case = obj.get('case')
    if not case:
        print('replay file carries no scheduler case (%s)' % obj.get('broken', obj.get('kind')))
        return
    c = {'seed': case.get('seed'), 'desc': case['desc'], 'events': case['events'],
         'targets': case.get('targets', ['T1', 'T2'])}
    results, nmis = run_corr(ctx, [c], oracle)
    for r in results:
        print('replayed %d events; correspondence mismatch: %s' % (len(r['events']), r['mismatch']))
    if nmis and ctx.nviol == 0:
        report_mismatches(ctx, results, 'scheduler/farm (replay)')
