'''Shared scheduler/farm model plumbing (C01-C05, C11, C15 build half, C20 defer).'''


def c15_build(ctx):
    ctx.note('build_half', 'not yet wired')
