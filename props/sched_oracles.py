'''Property oracles for C01-C05 and C11, evaluated on the IMPLEMENTATION's own
observations (tools/harness/drive_sched.py), independent of the Coq model.
Each oracle returns a list of (kind, fields, what, step).

Ghost bookkeeping kept here (not read from the code under test):
  queued   = task messages put in the cluster queue and not yet handed out
  inflight = task messages written to a worker and not yet answered
  marked   = units whose `doing` entry was removed by a purge while they were
             queued/in flight (the mechanism of the recorded C01/C03 finding)
'''
import collections


class Walk:
    def __init__(self, r):
        self.r = r
        self.g = r['graph']
        self.n = len(self.g['nodes'])
        self.kids = [nd['kids'] for nd in self.g['nodes']]
        # ancestors = closure of the edges (NOT the ancestry attribute of the
        # implementation, whose faithfulness is part of what is checked)
        par = [set() for _ in range(self.n)]
        for i, nd in enumerate(self.g['nodes']):
            for k in nd['kids']:
                if k != i:
                    par[k].add(i)
        self.anc = []
        for y in range(self.n):
            seen, todo = set(), list(par[y])
            while todo:
                a = todo.pop()
                if a not in seen and a != y:
                    seen.add(a)
                    todo.extend(par[a])
            self.anc.append(seen)
        self.desc = [set() for _ in range(self.n)]
        for y in range(self.n):
            for a in self.anc[y]:
                self.desc[a].add(y)
        self.fac = [nd['fac'] for nd in self.g['nodes']]
        self.ins = [set(nd['ins']) for nd in self.g['nodes']]
        self.fb = dict((a, c) for a, c in self.g['fb'])
        self.targets = list(range(1, len(self.g['tnames'])))

    def steps(self):
        '''yield dict per step with before/after observation and ghost sets'''
        inflight = []   # (w, x, t, rid)
        queued = []     # (x, t, rid)
        marked = set()  # (x, t)
        stale = {}      # node -> cause of an entry with nothing to do
        registered = {}  # wid -> 'ok' | 'stale' | 'dropped' | 'tasked'
        stored = 0
        prev = None
        left = {}       # node -> the event at which it last left the queue
        for i, (ev, ob) in enumerate(zip(self.r['events'], self.r['obs'])):
            before = prev
            if before is not None:
                for x in before['que']:
                    if x not in ob['que']:
                        left[x] = ('rep', ev[2]) if ev[0] == 'rep' else (ev[0],)
            for x in ob['que']:
                left.pop(x, None)
            ctx = dict(i=i, ev=ev, before=before, after=ob, left=dict(left),
                       inflight_before=list(inflight), queued_before=list(queued),
                       marked=marked, stale=stale, registered=dict(registered), stored=stored)
            k = ev[0]
            if k == 'rep':
                _, w, x, t, rid, oc, vals = ev
                if (w, x, t, rid) in inflight:
                    inflight.remove((w, x, t, rid))
                if oc != 3:
                    ex = {(u[1], u[2]) for u in inflight} | {(u[0], u[1]) for u in queued}
                    for y in self.desc[x]:
                        if (y, t) in ex:
                            marked.add((y, t))
            elif k == 'reg':
                registered[ev[1]] = 'ok' if ev[3] else 'stale'
            elif k == 'drop':
                if registered.get(ev[1]) == 'ok':
                    registered[ev[1]] = 'dropped'
            elif k == 'stored':
                stored = max(stored, ev[1])
            elif k == 'build':
                marked.clear()
                stale.clear()
            sent = [o for o in ob['outs'] if o[0] == 1]
            for o in sent:
                _, w, x, t, rid, fc = o
                inflight.append((w, x, t, rid))
                registered[w] = 'tasked'
            cb = collections.Counter(tuple(m[:3]) for m in (before['cluster'] if before else []))
            ca = collections.Counter(tuple(m[:3]) for m in ob['cluster'])
            cs = collections.Counter((o[2], o[3], o[4]) for o in sent)
            released = (ca + cs) - cb
            lost = cb - (ca + cs)
            queued[:] = [tuple(m[:3]) for m in ob['cluster']]
            # entries of the queue with nothing to do: remember what created them
            for x in list(stale):
                if ob['nodes'][x][0] or ob['nodes'][x][1] or x not in ob['que']:
                    del stale[x]
                elif k == 'rep' and ev[2] == x and not [o for o in ob['outs'] if o[0] == 6]:
                    # complete() ran for this very node and left its empty
                    # entry queued: not what the open findings describe (those
                    # entries are removed by the node's next completion)
                    stale[x] = 'survived-own-completion'
            for x in ob['que']:
                if not ob['nodes'][x][0] and not ob['nodes'][x][1] and x not in stale:
                    if k == 'rep' and ev[5] != 3:
                        stale[x] = 'purge'
                    elif k in ('org', 'build') and (k == 'build' or not ev[3] or (ev[3] == [0] and not self.targets)):
                        stale[x] = 'empty-target-list'
                    else:
                        stale[x] = 'unknown'
            ctx.update(released=list(released.elements()), lost=list(lost.elements()), sent=sent,
                       inflight_after=list(inflight), queued_after=list(queued), stored_after=stored)
            yield ctx
            prev = ob


def executing(ctx, when='after'):
    fl = ctx['inflight_' + when]
    qd = ctx['queued_' + when]
    return [(u[1], u[2]) for u in fl] + [(u[0], u[1]) for u in qd]


def c01(r):
    W = Walk(r)
    out = []
    for c in W.steps():
        for (x, t, rid) in c['released']:
            ex_before = collections.Counter(executing(c, 'before'))
            ob = c['after']
            # a job the farm kept after the database refused a run id: its
            # targets left todo at an EARLIER dispatch (safely, C01_release_faults);
            # this dispatch only turns the kept `do` set into messages
            bf = c['before']
            kept = bool(bf) and x in bf['jobs'] and t in bf['nodes'][x][2]
            for a in W.anc[x]:
                todo, doing = ob['nodes'][a][0], ob['nodes'][a][1]
                pend = set(todo) | set(doing)
                if t in pend or 0 in pend or (t == 0 and pend):
                    if kept:
                        out.append(('kept-job-sent-while-ancestor-pending', {'cause': 'refused-runid'},
                                    'unit (%s,%s), kept by the farm after a refused run id, is sent while upstream %s has %s pending/doing'
                                    % (W.g['tags'][x], W.g['tnames'][t], W.g['tags'][a], sorted(pend)), c['i']))
                        continue
                    out.append(('release-while-ancestor-pending', {'cause': 'doing-level'},
                                'unit (%s,%s) released while upstream %s has %s pending/doing'
                                % (W.g['tags'][x], W.g['tnames'][t], W.g['tags'][a], sorted(pend)), c['i']))
                    continue
                exa = {u for (y, u) in ex_before if y == a}
                # units released in this very tick for the ancestor count as executing too
                exa |= {u for (y, u, _r) in c['released'] if y == a}
                if t in exa or 0 in exa or (t == 0 and exa):
                    known = all((a, u) in c['marked'] for u in exa if (u == t or u == 0 or t == 0))
                    out.append(('release-while-ancestor-inflight',
                                {'cause': 'purge-cleared-doing' if known else 'unknown'},
                                'unit (%s,%s) released while upstream %s executes %s'
                                % (W.g['tags'][x], W.g['tnames'][t], W.g['tags'][a], sorted(exa)), c['i']))
    return out


def c03(r):
    W = Walk(r)
    out = []
    for c in W.steps():
        ex = collections.Counter(executing(c, 'after'))
        for u, k in ex.items():
            if k > 1 and u in [(x, t) for (x, t, _r) in c['released']]:
                known = u in c['marked']
                out.append(('duplicate-flight', {'cause': 'purge-cleared-doing' if known else 'unknown'},
                            'unit (%s,%s) is in flight %d times' % (W.g['tags'][u[0]], W.g['tnames'][u[1]], k), c['i']))
        # "otherwise stays queued": a released unit (in `doing`) is in flight,
        # queued for a worker, or still held by the farm for the next dispatch
        exa_now = set(ex)
        held_now = set(c['after']['jobs'])
        for x in range(W.n):
            for t in c['after']['nodes'][x][1]:
                if (x, t) not in exa_now and x not in held_now:
                    out.append(('released-unit-lost', {'cause': 'unknown'},
                                'unit (%s,%s) was released (it counts as executing) but no worker has it, it is '
                                'not queued and the farm does not hold its job'
                                % (W.g['tags'][x], W.g['tnames'][t]), c['i']))
        if c['lost']:
            out.append(('message-lost', {'cause': 'unknown'},
                        'queued task messages vanished without being handed to a worker: %s' % c['lost'], c['i']))
        ws = [o[1] for o in c['sent']]
        if len(ws) != len(set(ws)):
            out.append(('two-tasks-one-worker', {'cause': 'unknown'}, 'a worker was handed two tasks in one dispatch', c['i']))
        if c['ev'][0] == 'rep':
            _, w, x, t, rid, oc, vals = c['ev']
            was_inflight = (w, x, t, rid) in c['inflight_before']
            chron = [o for o in c['after']['outs'] if o[0] == 5]
            dropped = [o for o in c['after']['outs'] if o[0] == 6]
            if was_inflight:
                unit_marked = any((x, u) in c['marked'] for u in range(len(W.g['tnames'])))
                dup_before = collections.Counter(executing(c, 'before'))[(x, t)] > 1
                if dropped or len(chron) != 1:
                    # the recorded finding: the job left the queue when ANOTHER
                    # reply of the same job completed it (not at a purge, not
                    # at a request or a dispatch)
                    by_own = c['left'].get(x) in (None, ('rep', x))
                    out.append(('reply-dropped', {'cause': 'purge-cleared-doing' if ((unit_marked or dup_before) and by_own) else 'unknown'},
                                'reply for in-flight unit (%s,%s) was not applied exactly once (chronicle entries %d, dropped %d)'
                                % (W.g['tags'][x], W.g['tnames'][t], len(chron), len(dropped)), c['i']))
                elif chron[0][1:] != [x, t, rid, oc]:
                    out.append(('chronicle-wrong', {'cause': 'unknown'}, 'chronicle entry %s does not match reply' % chron[0], c['i']))
        # crew view = units actually in flight
        fl = sorted([u[1], u[2]] for u in c['inflight_after'])
        if fl != c['after']['busy'] or c['after']['crew_busy'] != len(c['after']['busy']):
            known = any((u[1], u[2]) in c['marked'] for u in c['inflight_after']) or \
                any(k > 1 for k in collections.Counter((u[1], u[2]) for u in c['inflight_before']).values()) or \
                (c['ev'][0] == 'rep' and any((c['ev'][2], u) in c['marked'] for u in range(len(W.g['tnames']))))
            out.append(('crew-view-wrong', {'cause': 'purge-cleared-doing' if known else 'unknown'},
                        'crew busy view %s differs from units in flight %s' % (c['after']['busy'], fl), c['i']))
    return out


def c04(r):
    W = Walk(r)
    out = []
    for c in W.steps():
        ob = c['after']
        ex = executing(c, 'after')
        idle = not ex and all(not n[0] and not n[1] for n in ob['nodes'])
        if idle and (ob['que'] or ob['view_todo'] or ob['view_doing'] or ob['busy']):
            causes = {c['stale'].get(x, 'unknown') for x in ob['que']} or {'unknown'}
            for cause in sorted(causes):
                out.append(('stale-queue-entry', {'cause': cause},
                            'nothing pending or executing but que=%s view_todo=%s view_doing=%s busy=%s'
                            % (ob['que'], ob['view_todo'], ob['view_doing'], ob['busy']), c['i']))
        # a released unit (in `doing`) is in flight, queued for a worker, or
        # still held by the farm for the next dispatch -- never just gone
        held = set(ob['jobs'])
        exa = set(ex)
        for x in range(W.n):
            for t in ob['nodes'][x][1]:
                if (x, t) not in exa and x not in held:
                    out.append(('released-unit-lost', {},
                                'unit (%s,%s) counts as executing but no worker has it, it is not queued '
                                'and the farm does not hold its job' % (W.g['tags'][x], W.g['tnames'][t]), c['i']))
        if c['ev'][0] == 'tick' and c['before'] is not None:
            bf = c['before']
            if bf['flags'][1] and not bf['flags'][2]:   # active, not paused
                exb = collections.Counter(executing(c, 'before'))
                rel = {(x, t) for (x, t, _r) in c['released']}
                for x in range(W.n):
                    for t in bf['nodes'][x][0]:
                        if (x, t) in exb or t in bf['nodes'][x][1]:
                            continue
                        blocked = False
                        for a in W.anc[x]:
                            pend = set(bf['nodes'][a][0]) | set(bf['nodes'][a][1]) | {u for (y, u) in exb if y == a}
                            if t in pend or 0 in pend or (t == 0 and pend):
                                blocked = True
                        if not blocked and (x, t) not in rel:
                            stale_anc = [a for a in W.anc[x] if a in bf['que'] and not bf['nodes'][a][0] and not bf['nodes'][a][1]]
                            causes = {c['stale'].get(a, 'unknown') for a in stale_anc} if (t == 0 and stale_anc) else {'unknown'}
                            for cause in sorted(causes):
                                out.append(('stale-queue-entry' if cause != 'unknown' else 'runnable-not-released',
                                            {'cause': cause},
                                            'unit (%s,%s) pending with all upstream idle was not released by dispatch'
                                            % (W.g['tags'][x], W.g['tnames'][t]), c['i']))
    return out


def c05(r):
    W = Walk(r)
    out = []
    for c in W.steps():
        if c['ev'][0] != 'rep' or c['ev'][5] == 3 or c['before'] is None:
            continue
        _, w, x, t, rid, oc, vals = c['ev']
        if [o for o in c['after']['outs'] if o[0] == 6]:
            continue   # dropped reply: C03's concern
        bf, af = c['before'], c['after']
        chron = [o for o in af['outs'] if o[0] == 5]
        if len(chron) != 1 or chron[0][1:] != [x, t, rid, oc]:
            out.append(('not-recorded', {}, 'failed run (%s,%s) not recorded exactly once: %s' % (W.g['tags'][x], W.g['tnames'][t], chron), c['i']))
        for y in range(W.n):
            b, a = bf['nodes'][y], af['nodes'][y]
            if set(a[0]) - set(b[0]):
                out.append(('dependent-triggered', {}, 'node %s gained pending targets %s after a failed run' % (W.g['tags'][y], sorted(set(a[0]) - set(b[0]))), c['i']))
            if y in W.desc[x]:
                if t in a[0]:
                    out.append(('not-withdrawn', {}, 'target %s still pending in dependent %s of failed %s' % (W.g['tnames'][t], W.g['tags'][y], W.g['tags'][x]), c['i']))
                for k in range(3):
                    if (set(b[k]) ^ set(a[k])) - {t}:
                        out.append(('frame', {}, 'other targets of dependent %s changed: %s -> %s' % (W.g['tags'][y], b[k], a[k]), c['i']))
            elif y == x:
                if t != 0:
                    for k in range(3):
                        if (set(b[k]) ^ set(a[k])) - {t}:
                            out.append(('frame', {}, 'other targets of failed node %s changed: %s -> %s' % (W.g['tags'][y], b[k], a[k]), c['i']))
            else:
                if b[:3] != a[:3] or b[3] != a[3] or b[4] != a[4]:
                    out.append(('frame', {}, 'unrelated node %s changed: %s -> %s' % (W.g['tags'][y], b, a), c['i']))
        if set(af['que']) - set(bf['que']) or (set(bf['que']) - set(af['que'])) - {x}:
            out.append(('frame', {}, 'queue changed beyond removing the failed node: %s -> %s' % (bf['que'], af['que']), c['i']))
        if bf['cluster'] != af['cluster'] or bf['workers'] != af['workers']:
            out.append(('frame', {}, 'cluster/workers changed by a failed reply', c['i']))
    return out


def c02(r):
    W = Walk(r)
    out = []
    for c in W.steps():
        if c['ev'][0] != 'rep' or c['ev'][5] != 3 or c['before'] is None:
            continue
        _, w, x, t, rid, oc, vals = c['ev']
        if [o for o in c['after']['outs'] if o[0] == 6]:
            # the report found no job and was dropped.  The recorded C03 finding
            # (purge cleared `doing` of an executing unit, the job was retired
            # by another reply of its own) is not repeated here; a report with
            # new values lost in any other way is
            marked = any((x, u) in c['marked'] for u in range(len(W.g['tnames'])))
            dup = collections.Counter(executing(c, 'before'))[(x, t)] > 1
            by_own = c['left'].get(x) in (None, ('rep', x))
            if (w, x, t, rid) in c['inflight_before'] and any(isn for _vt, _vn, isn in vals) \
                    and not ((marked or dup) and by_own):
                out.append(('report-lost', {'cause': 'unknown'},
                            'the success report of in-flight unit (%s,%s) with new values was dropped (its job left '
                            'the queue at %s): its consumers are never re-run'
                            % (W.g['tags'][x], W.g['tnames'][t], c['left'].get(x)), c['i']))
            continue
        bf, af = c['before'], c['after']
        new = {vn for vt, vn, isn in vals if isn}
        tg = {vt for vt, vn, isn in vals if isn}
        exp_t = set(W.targets) if 0 in tg else tg
        fbc = {W.fb[v] for v in new if v in W.fb}
        for y in range(W.n):
            consumes = (y in W.kids[x] and y != x and bool(W.ins[y] & new)) or y in fbc
            gained = set(af['nodes'][y][0]) - set(bf['nodes'][y][0])
            want = ({0} if W.fac[y] == 1 else exp_t) if consumes else set()
            if consumes:
                have = set(af['nodes'][y][0])
                if not want <= have:
                    out.append(('consumer-not-queued', {}, 'consumer %s of new values of %s lacks targets %s in todo' % (W.g['tags'][y], W.g['tags'][x], sorted(want - have)), c['i']))
                if y not in af['que']:
                    out.append(('consumer-not-in-que', {}, 'consumer %s not in the queue' % W.g['tags'][y], c['i']))
            if not gained <= want:
                out.append(('not-minimal', {}, 'node %s gained %s without a new input' % (W.g['tags'][y], sorted(gained - want)), c['i']))
    return out


def c11(r):
    W = Walk(r)
    out = []
    for c in W.steps():
        ev, ob, bf = c['ev'], c['after'], c['before']
        active_before = True if bf is None else bf['flags'][1]
        for o in c['sent']:
            _, w, x, t, rid, fc = o
            if ev[0] not in ('tick', 'tickf'):
                out.append(('task-outside-dispatch', {}, 'task sent by event %s' % ev[0], c['i']))
            if not active_before:
                out.append(('task-while-inactive', {}, 'task message sent while the pipeline is not active', c['i']))
            st = c['registered'].get(w)
            if st != 'ok':
                out.append(('ineligible-worker', {'state': str(st)}, 'task sent to worker %d whose state is %s' % (w, st), c['i']))
            if bf is not None and w not in bf['workers']:
                out.append(('ineligible-worker', {'state': 'not-idle'}, 'task sent to worker %d not in the idle list' % w, c['i']))
            if fc != W.fac[x]:
                out.append(('fields', {'field': 'factory'}, 'factory field %d for node %s of kind %d' % (fc, W.g['tags'][x], W.fac[x]), c['i']))
            if W.fac[x] == 2 and rid != 0:
                out.append(('fields', {'field': 'runid'}, 'regression sent with run id %d' % rid, c['i']))
            if W.fac[x] == 1 and t != 0:
                out.append(('fields', {'field': 'target'}, 'analysis sent with a target', c['i']))
        if ev[0] == 'tick' and bf is not None:
            nexts = [o[1] for o in ob['outs'] if o[0] == 8]
            for (x, t, rid) in c['released']:
                want = bf['nodes'][x][4]
                if W.fac[x] == 2:
                    continue
                if want is not None and rid != want:
                    out.append(('fields', {'field': 'runid'}, 'unit of %s sent with run id %s, its event carried %s' % (W.g['tags'][x], rid, want), c['i']))
                if want is None and (rid <= c['stored'] or rid not in nexts):
                    out.append(('fields', {'field': 'runid'}, 'fresh run id %s not drawn / not larger than stored %s' % (rid, c['stored']), c['i']))
            need_fresh = {x for (x, t, rid) in c['released'] if bf['nodes'][x][4] is None}
            # jobs the farm kept because the database refused a run id at an
            # earlier dispatch (they are not `released` again, they still need one)
            need_fresh |= {x for x in bf['jobs'] if bf['nodes'][x][4] is None and bf['nodes'][x][2]} \
                | {x for x in bf['jobs'] if bf['nodes'][x][4] is None and W.fac[x] == 1}
            # a kept job that was released again before the retry sits on the
            # farm's list twice (list.remove takes out one copy; SchedFault.rem1)
            # and a job that does not keep its run id (regression) asks once per
            # copy: between one request per job and one per list entry
            entries = [x for x in bf['jobs'] if bf['nodes'][x][4] is None] + \
                sorted({x for (x, t, rid) in c['released'] if bf['nodes'][x][4] is None})
            # (after a refused request the bookkeeping of which kept entry still
            # needs an id depends on the order of the farm's list: the count is
            # compared in histories without refused requests only; the values of
            # the ids handed out are checked above in every history)
            faulted = any(e[0] == 'tickf' for e in W.r['events'][:c['i']])
            if not faulted and (bool(nexts) != bool(need_fresh) or
                                not len(need_fresh) <= len(nexts) <= max(len(entries), len(need_fresh))):
                out.append(('fields', {'field': 'runid'}, 'db.next() consulted %d times for %d jobs without run id' % (len(nexts), len(need_fresh)), c['i']))
            if not active_before and (ob['outs'] or ob != dict(bf, outs=ob['outs'])):
                pass
        if ev[0] == 'tick' and [7] in ob['outs'] and bf is not None:
            # the tick that starts the archive: the pipeline is no longer active,
            # every worker that was waiting is told to leave and leaves the idle list
            told = {o[1] for o in ob['outs'] if o[0] == 3}
            tasked = {o[1] for o in ob['outs'] if o[0] == 1}
            for w in bf['workers']:
                if w not in told and w not in tasked:
                    out.append(('not-told-to-leave', {}, 'worker %d was idle when the archive started and was not told to leave' % w, c['i']))
            if ob['workers']:
                out.append(('not-told-to-leave', {'listed': True}, 'idle list %s after the tick that started the archive' % ob['workers'], c['i']))
            if tasked:
                out.append(('task-while-inactive', {}, 'task message sent by the tick that started the archive', c['i']))
        if not active_before:
            for o in ob['outs']:
                if o[0] in (1, 2, 4):
                    out.append(('message-while-inactive', {}, 'message kind %d written while inactive' % o[0], c['i']))
        if ev[0] == 'poll':
            want = 4 if (ev[2] and active_before) else 3
            if [o[0] for o in ob['outs']] != [want]:
                out.append(('poll-answer', {}, 'status poll answered %s, expected %d' % (ob['outs'], want), c['i']))
        if ev[0] == 'reg' and not ev[3]:
            if ev[1] in ob['workers'] or [o[0] for o in ob['outs']] != [3]:
                out.append(('stale-admitted', {}, 'worker with stale revision was admitted', c['i']))
        if c['lost']:
            out.append(('message-lost', {}, 'queued task vanished: %s' % c['lost'], c['i']))
        for w in ob['workers']:
            if c['registered'].get(w) not in ('ok',) and not (ev[0] == 'reg' and ev[1] == w and ev[3]):
                out.append(('idle-list-holds-ineligible', {'state': str(c['registered'].get(w))}, 'idle list holds worker %d' % w, c['i']))
    return out
