'''state_tie.py -- the "translation + proof" tie of the hand-written FSM methods
of coq/Model/Fsm.v to dawgie/pl/state.py (pattern of props/gen_tie.py):

  tools/translate/state2coq.py  class FSM method bodies -> coq/Gen/StateGen.v
  coq/Proofs/StateGenEq.v       generated definition = function of Model/Fsm.v
  coq/Props/C10.v, C12.v        C10_*_is_source / C12_*_is_source

  g = state_generate(ctx)                BEFORE ctx.coq_props()
  state_validate(ctx, g, proofs, found)  AFTER: the translator is validated by a
      finite sweep, generated definition (vm_compute) vs the real method called
      on a real FSM object whose attributes were set one by one; when the
      translator refuses the source or an equality proof broke and the event
      oracle of the property found nothing (`found` false), the unit oracle is
      evaluated on the python observations of the sweep, then the first unit
      separating python from the hand-written model goes into the replay of
      the `broken` verdict.
'''
import itertools
import random

from vlib import core

KINDS = ['crew', 'doing', 'todo']
KCOQ = {'crew': 'KCrew', 'doing': 'KDoing', 'todo': 'KTodo'}
STATES = ['archiving', 'contemplation', 'gitting', 'loading', 'running', 'starting', 'updating']
TRS = ['active', 'entering', 'exiting']
PRIO_OF = {'now': 'NOW', 'crew_idle': 'CREW', 'doing_empty': 'DOING', 'todo_empty': 'TODO'}
NAMES = ['NOW', 'CREW', 'DOING', 'TODO']

PRE = '''
Definition robs (r : fstate * outcome) := (obs r, rev (hops (gh (fst r)))).
Definition sobs (s : fstate) := robs (s, Ok).
Definition mk st tr prior arch prio w h : fstate :=
  mkF st tr prior [] arch (mkW prio w h) (mkG 0 0 [] [0; 0] []).
'''

TRANSLATED = ['FSM.transitioning', 'FSM.is_pipeline_active', 'FSM.waiting_on_crew', 'FSM.waiting_on_doing',
              'FSM.waiting_on_todo', 'FSM.reset', 'FSM.save_prior_state', 'FSM.set_submit_info',
              'FSM.wait_for_crew', 'FSM.wait_for_doing', 'FSM.wait_for_todo', 'FSM.wait_for_nothing',
              'FSM.submit_crossroads', 'FSM.is_crew_done', 'FSM.is_doing_done', 'FSM.is_todo_done',
              'FSM.load', 'FSM.reload', 'FSM._navel_gaze', 'FSM._archive_done', 'FSM.archive',
              'FSM.navel_gaze', 'FSM.start']


def state_generate(ctx):
    ok, msg = ctx.generate('state2coq.py', 'Gen/StateGen.v')
    ctx.trust('translator tools/translate/state2coq.py (+ pyfrag.py: method bodies of class FSM -> Gallina over '
              'the state record of Model/Fsm.v, fail closed; state abstraction in its header; validated on every '
              'run by a sweep of single method calls on a real FSM object; the generated definitions are PROVED '
              'equal to the hand-written functions, coq/Proofs/StateGenEq.v)')
    fps = ctx.cov.setdefault('translated_fingerprints', {})
    fps['Python/dawgie/pl/state.py'] = core.fingerprint('Python/dawgie/pl/state.py', TRANSLATED)
    return {'ok': ok, 'msg': msg}


def _u(f, st='running', tr='active', prior=None, prio=None, waits=(False, False, False),
       handles=(None, None, None), archive=False, **kw):
    u = {'f': f, 'st': st, 'tr': tr, 'prior': prior, 'prio': prio, 'waits': list(waits),
         'handles': list(handles), 'archive': archive}
    u.update(kw)
    return u


def state_units(ctx):
    rng = random.Random('%s:state-tie' % ctx.seed)
    B = (False, True)
    units = []
    for st, tr in itertools.product(STATES, TRS):
        units.append(_u('active', st, tr))
        units.append(_u('save_prior_state', st, tr, prior=rng.choice([None, 'running'])))
        for f in ('load_done', 'reload_done', '_navel_gaze'):
            units.append(_u(f, st, tr))
    for tr, v in itertools.product(TRS, TRS):
        units.append(_u('setter', rng.choice(STATES), tr, arg=v))
    for k, fl in itertools.product(KINDS, B):
        w = [rng.random() < 0.5 for _ in KINDS]
        w[KINDS.index(k)] = fl
        units.append(_u('waiting', waits=w, k=k))
    for tr in TRS:
        for _ in range(4):
            units.append(_u('reset', rng.choice(['updating', 'running']), tr, prio=rng.choice([None] + NAMES),
                            waits=[rng.random() < 0.5 for _ in KINDS]))
    for p0, a in itertools.product([None] + NAMES, list(PRIO_OF) + ['whenever', '']):
        units.append(_u('set_submit_info', prio=p0, arg=a))
    for k, w, h in itertools.product(KINDS, itertools.product(B, repeat=3), (None, 'Polling', 'Finished')):
        hs = [rng.choice([None, 'Polling']) for _ in KINDS]
        hs[KINDS.index(k)] = h
        units.append(_u('wait_for', waits=w, handles=hs, k=k))
    for (st, tr), w in itertools.product((('running', 'active'), ('gitting', 'active'), ('running', 'entering')),
                                         ((True, False, True), (False, True, False))):
        units.append(_u('wait_for_nothing', st, tr, waits=w))
    for (st, tr), p, hs in itertools.product((('running', 'active'), ('running', 'entering'), ('gitting', 'active')),
                                             [None] + NAMES, itertools.product((None, 'Polling'), repeat=3)):
        units.append(_u('submit_crossroads', st, tr, prio=p, handles=hs,
                        waits=[rng.random() < 0.5 for _ in KINDS]))
    for k, fl, (st, tr) in itertools.product(KINDS, B, (('running', 'active'), ('gitting', 'active'),
                                                      ('archiving', 'entering'), ('running', 'exiting'))):
        w = [rng.random() < 0.5 for _ in KINDS]
        w[KINDS.index(k)] = fl
        hs = [rng.choice([None, 'Polling']) for _ in KINDS]
        hs[KINDS.index(k)] = 'Finished'
        units.append(_u('done', st, tr, waits=w, handles=hs, k=k, prio=rng.choice(NAMES)))
    for k, env, fl in itertools.product(KINDS, itertools.product(B, repeat=3), B):
        if env[1] and not env[2]:
            continue                       # a job executing is in the queue (fsm_world.set_env)
        w = [rng.random() < 0.5 for _ in KINDS]
        w[KINDS.index(k)] = fl
        hs = [None, None, None]
        hs[KINDS.index(k)] = 'Polling'
        units.append(_u('poll', waits=w, handles=hs, k=k, env=list(env)))
    for f in ('start', 'load', 'navel_gaze', 'reload'):
        for tr in TRS:
            units.append(_u(f, rng.choice(STATES), tr))
    for st, tr, ar, pr in itertools.product(('archiving', 'running'), TRS, B, (None, 'running', 'updating', 'gitting')):
        units.append(_u('archive', st, tr, prior=pr, archive=ar))
        if not ar:
            units.append(_u('_archive_done', st, tr, prior=pr, archive=rng.random() < 0.5))
    return units


# ---- model side ---------------------------------------------------------------
def _b(x):
    return 'true' if x else 'false'


def _state(u):
    h = {None: 'None', 'Polling': '(Some false)', 'Finished': '(Some true)'}
    return '(mk S_%s %s %s %s %s (%s) (%s))' % (
        u['st'], u['tr'].capitalize(), 'None' if u['prior'] is None else '(Some S_%s)' % u['prior'],
        _b(u['archive']), 'None' if u['prio'] is None else '(Some P_%s)' % u['prio'],
        ', '.join(_b(x) for x in u['waits']), ', '.join(h[x] for x in u['handles']))


def _arg(a):
    return '(Some P_%s)' % PRIO_OF[a] if a in PRIO_OF else 'None'


def unit_expr(u, gen=True):
    '''the Gallina term of a unit: generated definition (gen; nested triggers run
    the generated machine StateGen.gen_trigger) or hand-written model'''
    f, S = u['f'], _state(u)
    k = KCOQ.get(u.get('k'))
    G = 'StateGen.'
    if gen:
        table = {
            'active': G + 'is_pipeline_active %s' % S,
            'setter': 'robs (%sset_transitioning %s %s)' % (G, S, (u.get('arg') or 'x').capitalize()),
            'waiting': G + 'waiting_on_%s %s' % (u.get('k'), S),
            'reset': 'robs (%sreset %s)' % (G, S),
            'save_prior_state': 'robs (%ssave_prior_state %s)' % (G, S),
            'set_submit_info': 'sobs (%sset_submit_info %s %s)' % (G, S, _arg(u.get('arg'))),
            'wait_for': 'sobs (%swait_for_%s %s)' % (G, u.get('k'), S),
            'wait_for_nothing': 'robs (%swait_for_nothing StateGen.gen_trigger %s)' % (G, S),
            'submit_crossroads': 'robs (%ssubmit_crossroads StateGen.gen_trigger %s)' % (G, S),
            'done': 'robs (%sdone_%s StateGen.gen_trigger %s)' % (G, u.get('k'), S),
            'poll': G + 'is_%s_done_continues %s (%s)' % (u.get('k'), S, ', '.join(_b(x) for x in u.get('env', []))),
            'load_done': 'robs (%sload_done StateGen.gen_trigger %s)' % (G, S),
            'reload_done': 'robs (%sreload_done StateGen.gen_trigger %s)' % (G, S),
            '_navel_gaze': 'robs (%snavel_gaze_body StateGen.gen_trigger %s)' % (G, S),
            '_archive_done': 'robs (%sarchive_done StateGen.gen_trigger %s)' % (G, S),
            'archive': 'robs (%sarchive StateGen.gen_trigger %s)' % (G, S),
            'start': 'robs (%sstart %s)' % (G, S),
            'load': 'robs (%sload %s)' % (G, S),
            'navel_gaze': 'robs (%snavel_gaze %s)' % (G, S),
            'reload': 'robs (%sreload %s)' % (G, S),
        }
    else:
        env = ', '.join(_b(x) for x in u.get('env', [False] * 3))
        table = {
            'active': 'Fsm.is_pipeline_active %s' % S,
            'setter': 'robs (set_tr %s %s)' % (S, (u.get('arg') or 'x').capitalize()),
            'waiting': 'get3 %s (waits (ws %s))' % (k, S),
            'reset': 'robs (cb_reset %s)' % S,
            'save_prior_state': 'robs (cb_save_prior_state %s)' % S,
            'set_submit_info': 'sobs (Fsm.set_submit_info %s %s)' % (S, _arg(u.get('arg'))),
            'wait_for': 'sobs (Fsm.wait_for_%s %s)' % (u.get('k'), S),
            'wait_for_nothing': 'robs (Fsm.wait_for_nothing %s)' % S,
            'submit_crossroads': 'robs (Fsm.submit_crossroads %s)' % S,
            'done': 'robs (done_cb %s %s (false, false, false))' % (S, k),
            'poll': 'match get3 %s (handles (ws (fst (poll %s %s (%s))))) with Some false => true | _ => false end'
                    % (k, S, k, env),
            'load_done': 'robs (complete %s BgPipeline)' % S,
            'reload_done': 'robs (complete %s BgReload)' % S,
            '_navel_gaze': 'robs (complete %s BgNavel)' % S,
            '_archive_done': 'robs (Fsm.archive_done %s)' % S,
            'archive': 'robs (run_cb trigger_ %s Cb_archive)' % S,
            'start': 'robs (cb_start %s)' % S,
            'load': 'robs (cb_load %s)' % S,
            'navel_gaze': 'robs (cb_navel_gaze %s)' % S,
            'reload': 'robs (cb_reload %s)' % S,
        }
    return table[f]


def _c(x):
    return x[0] if isinstance(x, tuple) and len(x) == 1 else x


def _flat(v):
    '''left-nested pairs -> flat list'''
    out = []
    while isinstance(v, tuple) and len(v) == 2 and isinstance(v[0], tuple) and not (
            isinstance(v[0][0], str) and v[0][0] in ('Some',)):
        out.insert(0, v[1])
        v = v[0]
    return list(v) + out if isinstance(v, tuple) else [v] + out


def canon_model(u, v):
    if u['f'] in ('active', 'waiting', 'poll'):
        return ('ret', v)
    flat = list(v)
    st, tr, prior, pending, archive, out, w, _insub, hops = flat
    prio, waits, handles = w
    return ('obs', _c(st)[2:], _c(tr).lower(), None if prior is None else _c(prior[1])[2:],
            [_c(x) for x in pending], archive, _c(out),
            None if prio is None else _c(prio[1])[2:], list(waits),
            [('None' if h is None else ('Finished' if h[1] else 'Polling')) for h in handles],
            [[_c(a)[2:], _c(b)[2:]] for a, b in hops])


def canon_impl(u, o):
    if u['f'] in ('active', 'waiting', 'poll'):
        return ('ret', o['ret'])
    return ('obs', o['st'], o['tr'], o['prior'], o['pending'], o['archive'], o['out'], o['priority'],
            o['waits'], o['handles'], o['hops'])


def _eval(ctx, units, gen):
    req = ['DV.Gen.FsmTable', 'DV.Gen.PriorityGen', 'DV.Model.Fsm']
    if gen:
        req.append('DV.Gen.StateGen')      # every generated name is written qualified
    vals = ctx.coq_eval(req, [unit_expr(u, gen) for u in units], preamble=PRE, chunk=250, z_scope=False)
    return [canon_model(u, v) for u, v in zip(units, vals)]


# ---- the property on the python observations of the sweep ------------------------
def unit_oracle(units, impl):
    '''(pid, kind, fields, text, unit).  States the properties, never more:
    C12 "the strongest priority requested so far": set_submit_info never
    records a weaker priority than the one recorded, nor than the one asked;
    C12 "every later submission as well": a done() callback leaves no handle
    to its finished poller; C10 "a refused trigger has no side effect": a
    refused save_prior_state (the guard of archiving_trigger) changes nothing.'''
    rank = {n: i for i, n in enumerate(NAMES)}
    hits = []
    for u, o in zip(units, impl):
        if u['f'] == 'set_submit_info' and o['out'] == 'Ok':
            got = o['priority']
            asked = PRIO_OF.get(u['arg'])
            for want in (u['prio'], asked):
                if want is not None and (got is None or rank[got] > rank[want]):
                    hits.append(('C12', 'priority-weakened', {},
                                 'set_submit_info(%r) with priority %s recorded leaves priority %s'
                                 % (u['arg'], u['prio'], got), u))
                    break
        if u['f'] == 'done' and o['handles'][KINDS.index(u['k'])] != 'None':
            hits.append(('C12', 'stale-poller-handle', {'symptom': 'dead-handle'},
                         'the done() callback of the %s poller (wait flag %s) leaves the handle %s'
                         % (u['k'], u['waits'][KINDS.index(u['k'])], o['handles'][KINDS.index(u['k'])]), u))
        if u['f'] == 'save_prior_state' and o['out'] != 'Ok':
            if (o['st'], o['tr'], o['prior']) != (u['st'], u['tr'], u['prior']):
                hits.append(('C10', 'reject-not-pure', {'trigger': 'archiving_trigger', 'state': u['st'], 'outcome': o['out']},
                             'save_prior_state refused (%s) in %s/%s but left %s/%s prior=%s'
                             % (o['out'], u['st'], u['tr'], o['st'], o['tr'], o['prior']), u))
    return hits


def state_validate(ctx, g, proofs, found, pid):
    '''found: the event oracle / correspondence of the property already
    reported a failing input.  Returns (tie holds, a verdict was reported here).'''
    reported = False
    units = state_units(ctx)
    impl = ctx.harness('drive_state.py', {'units': units})['units']
    ci = [canon_impl(u, o) for u, o in zip(units, impl)]
    failed = (not g['ok']) or not proofs['ok']
    if failed and not found:
        for p, kind, fields, what, u in unit_oracle(units, impl):
            if p != pid:
                continue
            found = reported = True
            ctx.violation(kind, fields, '%s: %s' % (pid, what),
                          {'source': 'oracle (python method on a set state)', 'unit': u,
                           'theorem': '%s_*_is_source' % pid})
            break
    bad = None
    if g['ok']:
        try:
            cm = _eval(ctx, units, True)
            for u, a, b in zip(units, ci, cm):
                if a != b:
                    bad = {'unit': u, 'python': repr(a), 'generated': repr(b)}
                    break
        except core.CoqEvalError as e:
            bad = {'unit': None, 'python': '', 'generated': 'Gen/StateGen.v does not evaluate: %s' % (e.args[1][-600:],)}
        if bad and not found:
            reported = True
            ctx.broken('translator validation: generated FSM method disagrees with python',
                       repr(bad), {'source': 'translator-validation', 'unit': bad['unit'],
                                   'expected': bad['generated'], 'observed': bad['python']})
    elif not found:
        sep = _separate(ctx, units, ci)
        reported = True
        ctx.broken('translator state2coq.py refuses dawgie/pl/state.py',
                   '%s; first unit separating python from Model/Fsm.v: %r' % (g['msg'].strip()[-400:], sep),
                   {'source': 'translator', 'unit': sep and sep['unit'],
                    'expected': sep and sep['model'], 'observed': sep and sep['python']})
    if failed and g['ok'] and not bad and not found and 'StateGenEq' in str(proofs.get('failing', '')):
        sep = _separate(ctx, units, ci)
        reported = True
        ctx.broken('source tie: Gen/StateGen.v (state.py of today) is no longer proved equal to Model/Fsm.v',
                   'first separating unit: %r' % (sep,),
                   {'source': 'proof', 'theorem': 'Proofs/StateGenEq.v', 'unit': sep and sep['unit'],
                    'expected': sep and sep['model'], 'observed': sep and sep['python']})
    nt = [('state', repr(u)) for u in units
          if u['f'] in ('submit_crossroads', 'done', 'wait_for', 'archive', 'set_submit_info', 'save_prior_state')]
    ctx.count(evaluations=len(units), nontrivial_keys=nt)
    ctx.note('source_tie_state', {'units': len(units), 'translator_ok': g['ok'],
                                  'generated_vs_python_mismatch': bad,
                                  'by_method': {f: sum(1 for u in units if u['f'] == f)
                                                for f in sorted({u['f'] for u in units})}})
    return not (failed or bad), reported


def _separate(ctx, units, ci):
    try:
        cm = _eval(ctx, units, False)
    except core.CoqEvalError:
        return None
    return next(({'unit': u, 'python': repr(a), 'model': repr(b)}
                 for u, a, b in zip(units, ci, cm) if a != b), None)
