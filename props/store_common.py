'''Shared machinery of C06 / C07 / C08 (shelve catalogue + value store).

One model (coq/Model/Catalogue.v, Store.v), one driver
(tools/harness/drive_store.py), three oracles.  `study(ctx)` generates the
operation histories, runs them on the real code and on the model, diffs the
canonical observations and evaluates the three property oracles on the
implementation's own observations; props/C06.py, C07.py, C08.py pick their
part of the result.
'''
import json
import random

from vlib import core

MSV = ('__metric__', (1, 1, 1),
       [(n, (1, 1, 0)) for n in
        ('db_input', 'db_memory', 'db_output', 'db_pages', 'db_system',
         'db_user', 'db_wall', 'task_input', 'task_memory', 'task_output',
         'task_pages', 'task_system', 'task_user', 'task_wall')])

SEP_P, SEP_V = ':parent___', '___version:'

FINGERPRINTS = [
    ('Python/dawgie/db/shelve/util.py',
     ['append', 'construct', 'dissect', 'indexed', 'prime_keys', 'subset']),
    ('Python/dawgie/db/shelve/state.py', ['DBI.open', 'DBI.close']),
    ('Python/dawgie/db/shelve/__init__.py',
     ['next', 'remove', 'reset', 'trace', '_prime_keys', 'update', 'add']),
    ('Python/dawgie/db/shelve/model.py',
     ['Interface.__to_key', 'Interface._update', 'Interface._load']),
    ('Python/dawgie/db/shelve/comms.py',
     ['Worker.do', 'Connector._set_prime', 'Connector._get_prime',
      'Connector._update_cmd']),
    ('Python/dawgie/db/util/__init__.py', ['encode', 'decode', 'move', '_extract']),
]

# ---------------------------------------------------------------------------
# Gallina rendering
# ---------------------------------------------------------------------------


def g_name(s):
    assert all(32 <= ord(c) < 127 and c != '"' for c in s), s
    return '(NM "%s")' % s


def g_z(n):
    return '(%d)%%Z' % n


def g_ver(v):
    return '(%s,%s,%s)' % tuple(g_z(x) for x in v)


def g_ident(task, alg, aver, sv, sver, vn, vver):
    return '(mkid %s %s %s %s %s %s %s)' % (
        g_name(task), g_name(alg), g_ver(aver), g_name(sv), g_ver(sver),
        g_name(vn), g_ver(vver))


def s_name(x):
    return x if isinstance(x, str) else ''.join(chr(c) for c in x)


class Codes:
    '''content code: (content, value version) <-> Z (harness-side table)'''

    def __init__(self):
        self.t = {}

    def of(self, c, vver):
        k = (c, tuple(vver))
        if k not in self.t:
            self.t[k] = len(self.t) + 1
        return self.t[k]

    def of_obs(self, o):
        '''driver observation [content, seal] -> code (or a string marker)'''
        if o is None:
            return None
        if isinstance(o, str):
            return o
        c, seal = o
        k = (c, tuple(seal) if seal else None)
        try:
            return self.t.get(k, 'UNKNOWN%r' % (k,))
        except TypeError:      # content that was never stored (e.g. edited in place)
            return 'UNKNOWN%r' % (k,)


class Names:
    '''names of one evaluation file as Coq definitions (parsed once)'''

    def __init__(self):
        self.t = {}

    def __call__(self, s):
        assert all(32 <= ord(c) < 127 and c != '"' for c in s), s
        if s not in self.t:
            self.t[s] = 'n%d' % len(self.t)
        return self.t[s]

    def preamble(self):
        return ''.join('Definition %s := NM "%s".\n' % (v, k)
                       for k, v in self.t.items())


def expand(hop, codes, N=g_name):
    '''high-level op -> Gallina expression of type list op (one group)'''
    k = hop['op']

    def ident(vn, vver):
        return '(mkid %s %s %s %s %s %s %s)' % (
            N(hop['task']), N(hop['alg']), g_ver(hop['aver']), N(hop['sv']),
            g_ver(hop['sver']), N(vn), g_ver(vver))

    def head():
        return '%s %s %s %s %s %s %s' % (
            g_z(hop['run']), N(hop['tn']), N(hop['task']), N(hop['alg']),
            g_ver(hop['aver']), N(hop['sv']), g_ver(hop['sver']))

    if k == 'add':
        return '[OAdd %s]' % N(hop['tn'])
    if k == 'reg':
        return '[OReg %s]' % ident(hop['vn'], hop['vver'])
    if k == 'upd':
        out = []
        for i, (vn, vver, c) in enumerate(hop['vals']):
            steps = 'None'
            if hop.get('crash') is not None:
                n = hop['crash'] - 1 - 6 * i
                if n < 0:
                    break
                if n < 6:
                    steps = 'Some %d' % n
            out.append('(%s,%s,%s,%s)' % (N(vn), g_ver(vver),
                                          g_z(codes.of(c, vver)), steps))
            if steps != 'None':
                break
        return 'hl_upd %s [%s]' % (head(), ';'.join(out))
    if k == 'load':
        return 'hl_load %s [%s]' % (head(), ';'.join(
            '(%s,%s)' % (N(vn), g_ver(vver)) for vn, vver in hop['vals']))
    if k == 'remove':
        return '[ORemove %s %s %s %s %s %s]' % (
            g_z(hop['run']), N(hop['tn']), N(hop['task']),
            N(hop['alg']), N(hop['sv']), N(hop['vn']))
    if k == 'reopen':
        return '[OReopen]'
    if k == 'next':
        return '[ONext]'
    if k == 'trace':
        return '[OTrace [%s]]' % ';'.join(
            '(%s,%s)' % (N(a), N(b)) for a, b in hop['tans'])
    if k == 'reset':
        return '[OReset %s %s %s %s]' % (g_z(hop['run']), N(hop['tn']),
                                         N(hop['task']), N(hop['alg']))
    if k == 'names':
        return '[ONames]'
    raise ValueError(k)


# ---------------------------------------------------------------------------
# canonical observations
# ---------------------------------------------------------------------------


def canon_impl(hop, ob, codes):
    '''implementation observation of one high-level op -> canonical tuple'''
    rep = ob['reply']
    k = hop['op']
    if 'exc' in rep:
        r = ('exc',)
    elif k == 'upd':
        r = ('upd', tuple(bool(f) for _, f in rep['r']), bool(rep['crashed']))
    elif k == 'load':
        r = ('load', tuple(codes.of_obs(c) for _, c in rep['r'])
             + tuple(c for _, c in rep['msv']))
    elif k == 'next':
        r = ('next', rep['r'])
    elif k == 'trace':
        r = ('trace', tuple((tn, tuple((a, b) for a, b in row)) for tn, row in rep['r']))
    elif k == 'reset':
        r = ('reset', tuple(sorted(
            (tuple(a), (s[0], tuple(s[1])) if s else None) for a, s in rep['r'])))
    elif k == 'names':
        r = ('names', tuple(sorted(rep['r'])))
    else:
        r = ('unit',)
    prime = tuple(sorted((tuple(key), codes.of_obs(c)) for key, c, _ in ob['prime']))
    store = tuple(sorted(codes.of_obs(c) for c in ob['store']))
    stage = tuple(sorted(-1 if c is None else codes.of_obs(c) for c in ob['stage']))
    return (r, tuple(ob['lens']), prime, store, stage)


def _flat_key(k):
    # Coq prints nested pairs (((((r,t),k),a),s),v) as (r, t, k, a, s, v)
    return tuple(k)


def canon_model(hop, gob):
    '''model observation of the group of one high-level op'''
    k = hop['op']
    reps, lens, prime, store, stage = gob

    def tag(x):
        return x[0] if isinstance(x, tuple) else x

    if any(tag(x) == 'PExc' for x in reps):
        r = ('exc',)
    elif k == 'upd':
        flags = tuple(x[1] for x in reps if tag(x) == 'PNew')
        r = ('upd', flags, any(tag(x) == 'PCrash' for x in reps))
    elif k == 'load':
        vals = []
        for x in reps:
            c = x[1]
            vals.append(None if c is None else c[1])
        nv = len(hop['vals'])
        r = ('load', tuple(vals[:nv]) + tuple(
            None if v is None else 'LOADED' for v in vals[nv:]))
    elif k == 'next':
        r = ('next', reps[0][1])
    elif k == 'trace':
        rows = []
        for tn, row in reps[0][1]:
            rows.append((s_name(tn), tuple(sorted(set(
                (s_name(t) + '.' + s_name(a), run) for t, a, run in row)))))
        r = ('trace', tuple(sorted(rows)))
    elif k == 'reset':
        out = []
        for av, sv in reps[0][1]:
            a = tuple(av[1]) if av is not None else 'NOVER'
            if sv is None:
                s = 'NOSV'
            else:
                n, v = sv[1]
                s = (s_name(n), tuple(v[1]) if v is not None else 'NOVER')
            out.append((a, s))
        r = ('reset', tuple(sorted(out)))
    elif k == 'names':
        out = []
        for e in reps[0][1]:
            if e is None:
                out.append('EXC')
            else:
                run, a, b, c, d, f = e[1]
                out.append('.'.join([str(run)] + [s_name(x) for x in (a, b, c, d, f)]))
        r = ('names', tuple(sorted(out)))
    else:
        r = ('unit',)
    prime = tuple(sorted((tuple(e[:6]), e[6]) for e in prime))
    store = tuple(sorted(c for _, c in store))
    stage = tuple(sorted(-1 if c is None else c[1] for c in stage))
    return (r, tuple(lens), prime, store, stage)


# ---------------------------------------------------------------------------
# history generator
# ---------------------------------------------------------------------------
ALGS = ['a', 'ab', 'abc', 'a_b', 'alg', 'alg2', 'b']
SVS = ['s', 'sv', 'sv2', 's_']
VALS = ['v', 'v1', 'v12', 'w', 'v_']
TASKS = ['t', 'tsk', 'tsk2', 't1']
TARGETS = ['T', 'TT', 'T1', 'U', '__all__']
VERS = [(1, 0, 0), (1, 1, 0), (1, 10, 0), (1, 1, 10), (11, 0, 0), (1, 0, 1), (2, 0, 0)]


WEIGHTS = {
    #        upd   load  remove reopen bump  add   reg   next  names trace reset  crash
    'C06': (0.32, 0.30, 0.10, 0.06, 0.14, 0.02, 0.02, 0.01, 0.02, 0.005, 0.005, 0.10),
    'C07': (0.50, 0.12, 0.06, 0.10, 0.08, 0.02, 0.02, 0.02, 0.04, 0.02, 0.02, 0.35),
    'C08': (0.28, 0.08, 0.16, 0.10, 0.10, 0.04, 0.05, 0.05, 0.05, 0.05, 0.04, 0.10),
}
SIZES = {   # focus -> (random quick, sweeps quick, random thorough, sweeps thorough)
    'C06': (60, 4, 700, 40),
    'C07': (36, 24, 400, 400),
    'C08': (64, 4, 700, 40),
}


class Gen:
    def __init__(self, rng, small=False, focus='C08'):
        self.rng = rng
        self.w = WEIGHTS[focus]
        self.updated = []
        self.ver = {}
        k = 3 if small else None
        self.algs = rng.sample(ALGS, k or rng.randint(2, 5))
        # make sure a proper-prefix pair is present most of the time
        if rng.random() < 0.8 and not any(
                a != b and b.startswith(a) for a in self.algs for b in self.algs):
            self.algs[:2] = rng.choice([['a', 'ab'], ['alg', 'alg2'], ['ab', 'abc']])
        tight = focus == 'C06' or small
        self.svs = rng.sample(SVS, 2 if tight else rng.randint(2, 3))
        self.vals = rng.sample(VALS, 2 if tight else rng.randint(2, 4))
        self.tasks = rng.sample(TASKS, rng.randint(1, 2) if tight else rng.randint(1, 3))
        self.targets = rng.sample(TARGETS, 2 if tight else rng.randint(2, 3))
        if tight:
            self.algs = self.algs[:3]
        # wide catalogues: more than ten rows in the algorithm / target tables,
        # so that ids 1 and 10..19 (decimal prefixes of one another inside the
        # prime keys "(run, target, task, alg, sv, value)") coexist in one task
        self.wide = focus == 'C08' and not small and rng.random() < 0.35
        if self.wide:
            self.algs = list(ALGS)
            self.tasks = self.tasks[:1]
            self.targets = self.targets[:2]
            w = list(self.w)
            w[2], w[9], w[10] = 0.14, 0.08, 0.14     # remove, trace, reset
            self.w = tuple(w)

    def v(self, *key):
        return self.ver.setdefault(key, (1, 0, 0))

    def ident(self):
        r = self.rng
        task, alg, sv = r.choice(self.tasks), r.choice(self.algs), r.choice(self.svs)
        return task, alg, self.v('a', task, alg), sv, self.v('s', task, alg, sv)

    def op(self, allow_crash=True):
        r = self.rng
        w = self.w
        cum, acc = [], 0.0
        for x in w[:11]:
            acc += x
            cum.append(acc)
        x = r.random() * acc
        kind = ['upd', 'load', 'remove', 'reopen', 'bump', 'add', 'reg', 'next',
                'names', 'trace', 'reset'][[i for i, c in enumerate(cum) if x <= c][0]]
        run = r.randint(1, 4) if r.random() < 0.9 else r.choice([0, 10, 11, 31, -1])
        tn = r.choice(self.targets)
        task, alg, aver, sv, sver = self.ident()
        if kind == 'upd':
            vns = r.sample(self.vals, r.randint(1, 2))
            vals = [[vn, list(self.v('v', task, alg, sv, vn)), r.randint(0, 3)]
                    for vn in vns]
            crash = None
            if allow_crash and r.random() < w[11]:
                crash = r.randint(1, 6 * len(vals))
            self.updated.append((tn, task, alg, sv, vns))
            return {'op': 'upd', 'run': run, 'tn': tn, 'task': task, 'alg': alg,
                    'aver': list(aver), 'sv': sv, 'sver': list(sver),
                    'vals': vals, 'crash': crash}
        if kind == 'load':
            vns = r.sample(self.vals, r.randint(1, 2))
            if self.updated and r.random() < 0.7:
                tn, task, alg, sv, vns = r.choice(self.updated)
                aver, sver = self.v('a', task, alg), self.v('s', task, alg, sv)
                if r.random() < 0.2:
                    tn = r.choice(self.targets)
            return {'op': 'load', 'run': run, 'tn': tn, 'task': task, 'alg': alg,
                    'aver': list(aver), 'sv': sv, 'sver': list(sver),
                    'vals': [[vn, list(self.v('v', task, alg, sv, vn))] for vn in vns]}
        if kind == 'remove':
            if r.random() < 0.15:
                tn = r.choice(TARGETS)
            if r.random() < 0.1:
                task = r.choice(TASKS)
            return {'op': 'remove', 'run': run, 'tn': tn, 'task': task,
                    'alg': alg, 'sv': sv, 'vn': r.choice(self.vals)}
        if kind == 'reopen':
            return {'op': 'reopen'}
        if kind == 'bump':   # version bump (no operation on the database)
            which = r.choice('asv')
            nv = r.choice(VERS)
            if which == 'a':
                self.ver[('a', task, alg)] = nv
            elif which == 's':
                self.ver[('s', task, alg, sv)] = nv
            else:
                self.ver[('v', task, alg, sv, r.choice(self.vals))] = nv
            return None
        if kind == 'add':
            return {'op': 'add', 'tn': r.choice(TARGETS)}
        if kind == 'reg':
            vn = r.choice(self.vals)
            return {'op': 'reg', 'task': task, 'alg': alg, 'aver': list(aver),
                    'sv': sv, 'sver': list(sver), 'vn': vn,
                    'vver': list(self.v('v', task, alg, sv, vn))}
        if kind == 'next':
            return {'op': 'next'}
        if kind == 'names':
            return {'op': 'names'}
        if kind == 'trace':
            tans = [[r.choice(self.tasks), r.choice(self.algs)]
                    for _ in range(r.randint(1, 2))]
            bumped = [k for k in self.ver if k[0] == 'a']
            if bumped and r.random() < 0.7:   # an algorithm with several versions
                _, t_, a_ = r.choice(bumped)
                tans[0] = [t_, a_]
            return {'op': 'trace', 'tans': tans}
        return {'op': 'reset', 'run': run, 'tn': tn, 'task': task, 'alg': alg}

    def same_connection(self, o):
        '''what one worker does on ONE connection: after the load / update `o`,
        one or two more loads / updates of the same run, target, algorithm and
        state vector through the same dawgie.db.connect() object; the objects
        of the state vector are replaced in between (base values before run(),
        current values after), possibly with another VALUE version while the
        algorithm and state-vector versions stay.  The model has no
        per-connection state: the flag is invisible to it.'''
        r = self.rng
        out = []
        task, alg, sv = o['task'], o['alg'], o['sv']
        for _ in range(r.randint(1, 2)):
            vns = [v[0] for v in o['vals']]
            if r.random() < 0.3:
                vns = sorted(set(vns + [r.choice(self.vals)]))
            if r.random() < 0.6:    # the value produced by run() has its own version
                self.ver[('v', task, alg, sv, r.choice(vns))] = r.choice(VERS)
            head = {'run': o['run'], 'tn': o['tn'], 'task': task, 'alg': alg,
                    'aver': list(o['aver']), 'sv': sv, 'sver': list(o['sver']),
                    'same_conn': True}
            if r.random() < 0.7:
                vals = [[vn, list(self.v('v', task, alg, sv, vn)), r.randint(0, 3)]
                        for vn in vns]
                self.updated.append((o['tn'], task, alg, sv, vns))
                out.append(dict(head, op='upd', vals=vals, crash=None))
            else:
                out.append(dict(head, op='load', vals=[
                    [vn, list(self.v('v', task, alg, sv, vn))] for vn in vns]))
        # and a fresh connection looks at what is stored for it now
        out.append({'op': 'load', 'run': o['run'], 'tn': o['tn'], 'task': task,
                    'alg': alg, 'aver': list(o['aver']), 'sv': sv,
                    'sver': list(o['sver']),
                    'vals': [[vn, list(self.v('v', task, alg, sv, vn))]
                             for vn in sorted({v[0] for x in out for v in x['vals']})]})
        return out

    def history(self, n):
        out = []
        if self.wide:
            r = self.rng
            task = self.tasks[0]
            combos = [(a, v) for a in self.algs for v in VERS]
            r.shuffle(combos)
            for alg, ver in combos[:r.randint(12, 16)]:
                self.ver[('a', task, alg)] = ver
                sv, vn = r.choice(self.svs), r.choice(self.vals)
                out.append({'op': 'reg', 'task': task, 'alg': alg, 'aver': list(ver),
                            'sv': sv, 'sver': list(self.v('s', task, alg, sv)), 'vn': vn,
                            'vver': list(self.v('v', task, alg, sv, vn))})
            for i in range(r.randint(0, 12)):
                out.append({'op': 'add', 'tn': 'X%d' % i})
            n += len(out)
        while len(out) < n:
            o = self.op()
            if o is not None:
                out.append(o)
                if o['op'] == 'upd' and o['crash'] is not None and self.rng.random() < 0.6:
                    out.append({'op': 'reopen'})
                elif (o['op'] in ('upd', 'load') and o.get('crash') is None
                      and self.rng.random() < 0.3):
                    out.extend(self.same_connection(o))
        out.append({'op': 'names'})
        out.append({'op': 'reopen'})
        return out


def crash_sweep(rng, fresh):
    '''one update re-tried with a crash at every step k, reopen after each'''
    g = Gen(rng, small=True)
    h = []
    for _ in range(rng.randint(0, 4)):
        o = g.op(allow_crash=False)
        if o is not None and o['op'] in ('upd', 'load', 'remove', 'add'):
            h.append(o)
    task, alg, aver, sv, sver = g.ident()
    nv = rng.randint(1, 2)
    vns = rng.sample(g.vals, nv)
    tn = rng.choice(g.targets)
    for k in range(1, 6 * nv + 2):
        vals = [[vn, list(g.v('v', task, alg, sv, vn)),
                 (100 + 10 * k + i) if fresh else rng.randint(0, 2)]
                for i, vn in enumerate(vns)]
        h.append({'op': 'upd', 'run': rng.randint(1, 3), 'tn': tn, 'task': task,
                  'alg': alg, 'aver': list(aver), 'sv': sv, 'sver': list(sver),
                  'vals': vals, 'crash': k if k <= 6 * nv else None})
        h.append({'op': 'reopen'})
        if rng.random() < 0.3:
            h.append({'op': 'load', 'run': rng.randint(1, 3), 'tn': tn,
                      'task': task, 'alg': alg, 'aver': list(aver), 'sv': sv,
                      'sver': list(sver),
                      'vals': [[vn, list(g.v('v', task, alg, sv, vn))] for vn in vns]})
    h.append({'op': 'names'})
    return h


def directed():
    '''the recorded witnesses and branch-covering scenarios, run first'''
    def upd(run, tn, task, alg, sv, vn, c, aver=(1, 0, 0), sver=(1, 0, 0),
            vver=(1, 0, 0), crash=None):
        return {'op': 'upd', 'run': run, 'tn': tn, 'task': task, 'alg': alg,
                'aver': list(aver), 'sv': sv, 'sver': list(sver),
                'vals': [[vn, list(vver), c]], 'crash': crash}

    def load(run, tn, task, alg, sv, vn, aver=(1, 0, 0), sver=(1, 0, 0),
             vver=(1, 0, 0)):
        return {'op': 'load', 'run': run, 'tn': tn, 'task': task, 'alg': alg,
                'aver': list(aver), 'sv': sv, 'sver': list(sver),
                'vals': [[vn, list(vver)]]}

    h1 = []   # the fixed C08/C06 finding: alg vs alg2
    for run in (1, 2, 3):
        h1 += [upd(run, 'T', 'tsk', 'alg', 'sv', 'v', run),
               upd(run, 'T', 'tsk', 'alg2', 'sv', 'v', 10 + run)]
    h1 += [{'op': 'remove', 'run': 3, 'tn': 'T', 'task': 'tsk', 'alg': 'alg',
            'sv': 'sv', 'vn': 'v'}, {'op': 'names'},
           load(3, 'T', 'tsk', 'alg2', 'sv', 'v'), load(3, 'T', 'tsk', 'alg', 'sv', 'v'),
           {'op': 'trace', 'tans': [['tsk', 'alg'], ['tsk', 'alg2']]},
           {'op': 'reset', 'run': 2, 'tn': 'T', 'task': 'tsk', 'alg': 'alg'},
           {'op': 'next'}, {'op': 'reopen'}]
    h2 = [  # sv / value prefix pairs, version digits 1.1.0 vs 1.10.0 vs 11.0.0
        upd(1, 'T', 't', 'a', 's', 'v', 1, aver=(1, 1, 0)),
        upd(1, 'T', 't', 'a', 's', 'v', 2, aver=(1, 10, 0)),
        upd(1, 'T', 't', 'a', 's', 'v', 3, aver=(11, 0, 0)),
        upd(1, 'T', 't', 'a', 's2', 'v', 4, aver=(1, 1, 0)),
        upd(1, 'T', 't', 'a', 's', 'v1', 5, aver=(1, 1, 0)),
        upd(1, 'TT', 't', 'a', 's', 'v', 6, aver=(1, 1, 0)),
        upd(2, 'T', 't1', 'a', 's', 'v', 7, aver=(1, 1, 0)),
        upd(5, 'T', 't', 'a', 's', 'v', 8, aver=(11, 0, 0)),
        upd(3, 'T', 't', 'a', 's', 'v', 9, aver=(1, 10, 0)),
        {'op': 'trace', 'tans': [['t', 'a']]},
        load(1, 'T', 't', 'a', 's', 'v', aver=(1, 1, 0)),
        load(1, 'T', 't', 'a', 's', 'v', aver=(1, 10, 0)),
        load(9, 'T', 't', 'a', 's', 'v', aver=(11, 0, 0)),
        load(1, 'T', 't', 'a', 's', 'v', aver=(1, 0, 0)),
        {'op': 'remove', 'run': 1, 'tn': 'T', 'task': 't', 'alg': 'a', 'sv': 's',
         'vn': 'v'},
        {'op': 'names'}, {'op': 'reopen'},
        load(1, 'T', 't', 'a', 's', 'v1', aver=(1, 1, 0)),
        {'op': 'trace', 'tans': [['t', 'a'], ['t1', 'a']]},
        {'op': 'remove', 'run': 1, 'tn': 'T', 'task': 't', 'alg': 'zz', 'sv': 's',
         'vn': 'v'},
        {'op': 'remove', 'run': 1, 'tn': 'nope', 'task': 't', 'alg': 'a', 'sv': 's',
         'vn': 'v'}]
    h3 = [  # same content twice, crash between rename and record, then retry
        upd(1, 'T', 't', 'a', 's', 'v', 5), upd(2, 'T', 't', 'a', 's', 'v', 5),
        upd(3, 'T', 't', 'a', 's', 'v', 6, crash=6), {'op': 'reopen'},
        {'op': 'names'}, upd(3, 'T', 't', 'a', 's', 'v', 6), {'op': 'reopen'},
        upd(1, '__all__', 't', 'a', 's', 'v', 5),
        {'op': 'trace', 'tans': [['t', 'a']]}, {'op': 'next'}]
    return [h1, h2, h3]


# ---------------------------------------------------------------------------
# oracles on the implementation's own observations
# ---------------------------------------------------------------------------


def parse_full(full):
    '''"<p>:parent___<n>___version:<d.i.b>" -> (parent|None, name, ver|None)
    (oracle-side parser; only used on names the generator produced)'''
    parent = None
    if SEP_P in full:
        p, full = full.split(SEP_P, 1)
        parent = int(p)
    ver = None
    if SEP_V in full:
        full, v = full.rsplit(SEP_V, 1)
        ver = tuple(int(x) for x in v.split('.'))
    return parent, full, ver


def key_identity(key, idx):
    '''prime key -> (run, target, task, (alg, aver), (sv, sver), (vn, vver)) or
    a string describing the broken chain'''
    run, t, k, a, s, v = key
    I = idx
    try:
        tn, task = I[0][t], I[1][k]
        pa, an, av = parse_full(I[2][a])
        ps, sn, sv_ = parse_full(I[3][s])
        pv, vn, vv = parse_full(I[4][v])
    except IndexError:
        return 'id out of range'
    if pa != k or ps != a or pv != s:
        return 'parent chain broken'
    return (run, tn, task, (an, av), (sn, sv_), (vn, vv))


class Oracle:
    '''reference dictionary + the three property oracles for one history'''

    def __init__(self):
        self.ref = {}        # (task,alg,aver,sv,sver,vn,vver,tn,run) -> (c, vver)
        self.hits = []       # (property, kind, fields, what)
        self.prev_idx = None
        self.nontrivial = {'C06': False, 'C07': False, 'C08': False}
        self.c06_updates = set()    # identities (+target) updated so far

    def hit(self, prop, kind, what, **fields):
        self.hits.append((prop, kind, fields, what))

    def step(self, hop, ob, before, idx_after):
        k = hop['op']
        rep = ob['reply']
        # ---------------- C07: store invariants at every point --------------
        if not ob['digest_ok']:
            self.hit('C07', 'digest-name', 'a stored file does not hash to its name')
        codes = [json.dumps(c) for c in ob['store']]
        if len(set(codes)) != len(codes):
            self.hit('C07', 'two-copies', 'identical content stored twice')
        for key, c, blob in ob['prime']:
            if c == 'DANGLING':
                self.hit('C07', 'dangling', 'prime entry %s names the missing file %s'
                         % (key, blob), crashed=bool(rep.get('crashed')))
        # ---------------- C08: bijection, stability, next, chain ------------
        if not ob['bijection']:
            self.hit('C08', 'bijection', 'table/index not a gap-free bijection after %s' % k)
        if any(a > b for a, b in zip(before['lens'], ob['lens'])) if before else False:
            self.hit('C08', 'index-shrunk', 'an index lost entries')
        if idx_after is not None:
            if self.prev_idx is not None:
                for old, new in zip(self.prev_idx, idx_after):
                    if new[:len(old)] != old:
                        self.hit('C08', 'id-reassigned',
                                 'ids were reassigned across close/reopen')
            self.prev_idx = idx_after
        if 'exc' in rep:
            return
        if k == 'upd':
            flags = [f for _, f in rep['r']]
            had = [json.dumps(c) for c in before['store']] if before else []
            for (vn, vver, c), f in zip(hop['vals'], flags):
                code = json.dumps([c, list(vver)])
                if f != (code not in had):
                    self.hit('C07', 'novelty-flag',
                             'isnew=%s but content %s present before=%s'
                             % (f, code, code in had))
                if code in had:
                    self.nontrivial['C07'] = True
                had.append(code)
                ident = (hop['task'], hop['alg'], tuple(hop['aver']), hop['sv'],
                         tuple(hop['sver']), vn, tuple(vver))
                self.ref[ident + (hop['tn'], hop['run'])] = (c, tuple(vver))
                self.c06_updates.add(ident + (hop['tn'],))
            if rep['crashed']:
                recorded = sum(1 for s in rep['steps'] if s == 'record')
                started = sum(1 for s in rep['steps'] if s in ('mkstemp', 'CRASH@mkstemp'))
                if recorded < started:
                    self.nontrivial['C07'] = True
                if recorded < len(flags):
                    self.hit('C07', 'reply-before-record',
                             'new_values reported before the table write')
            if not rep['crashed'] and ob['stage'] != (before['stage'] if before else []):
                self.hit('C07', 'staging-leak', 'a completed update left a staged file')
        elif k == 'load':
            for (vn, vver), (_, got) in zip(hop['vals'], rep['r']):
                ident = (hop['task'], hop['alg'], tuple(hop['aver']), hop['sv'],
                         tuple(hop['sver']), vn, tuple(vver))
                cands = {key[-1]: val for key, val in self.ref.items()
                         if key[:-1] == ident + (hop['tn'],)}
                if hop['run'] in cands:
                    want = cands[hop['run']]
                elif cands:
                    want = cands[max(cands)]
                else:
                    want = None
                g = None if got is None else (got[0], tuple(got[1]) if got[1] else None)
                if g != want:
                    kind = ('untouched' if want is None else
                            'lost' if g is None else 'wrong-content')
                    self.hit('C06', kind,
                             'load %s %s run %s returned %r, the reference says %r'
                             % (hop['tn'], ident, hop['run'], g, want))
                if want is not None:
                    confus = [x for x in self.c06_updates
                              if x != ident + (hop['tn'],)
                              and (x[3], x[5]) == (ident[3], ident[5])
                              and (x[1].startswith(ident[1])
                                   or ident[1].startswith(x[1]))]
                    if confus:
                        self.nontrivial['C06'] = True
            if any(c is not None for _, c in rep['msv']):
                self.hit('C06', 'wrong-content', 'a metric value was loaded that nobody stored')
        elif k == 'next':
            runs = [key[0] for key, _, _ in ob['prime']]
            if runs and rep['r'] <= max(runs):
                self.hit('C08', 'next-not-greater', 'next()=%s, stored run %s'
                         % (rep['r'], max(runs)))
            if not runs and rep['r'] != 1:
                self.hit('C08', 'next-not-greater', 'next() on an empty table is %s' % rep['r'])


def remove_oracle(orc, hop, before, after, idx):
    '''exactly the prime keys whose six names equal the arguments go'''
    want = (hop['run'], hop['tn'], hop['task'], hop['alg'], hop['sv'], hop['vn'])
    kb = [tuple(k) for k, _, _ in before['prime']]
    ka = set(tuple(k) for k, _, _ in after['prime'])
    addressed_shorter = False
    for key in kb:
        ident = key_identity(key, idx)
        if isinstance(ident, str):
            orc.hit('C08', 'chain', 'prime key %s: %s' % (key, ident))
            continue
        names = (ident[0], ident[1], ident[2], ident[3][0], ident[4][0], ident[5][0])
        gone = key not in ka
        if gone != (names == want):
            kind = 'remove-too-much' if gone else 'remove-too-little'
            which = [i for i in range(6) if names[i] != want[i]]
            orc.hit('C08', kind,
                    'remove%r %s %s' % (want, 'also removed' if gone else 'kept',
                                        '.'.join(str(x) for x in names)),
                    prefix=bool(which) and all(
                        isinstance(names[i], str) and names[i].startswith(str(want[i]))
                        for i in which))
        for i in (3, 4, 5):
            if names[i] != want[i] and names[i].startswith(want[i]) \
                    and names[:i] == want[:i]:
                addressed_shorter = True
    for key in ka:
        if key not in set(kb):
            orc.hit('C08', 'remove-added', 'remove created the prime key %s' % (key,))
    # reference dictionary of C06
    for rk in [rk for rk in orc.ref
               if (rk[8], rk[7], rk[0], rk[1], rk[3], rk[5]) == want]:
        del orc.ref[rk]
    if addressed_shorter:
        orc.nontrivial['C08'] = True


def names_oracle(orc, hop, ob, idx):
    got = sorted(ob['reply']['r'])
    want = []
    for key, _, _ in ob['prime']:
        ident = key_identity(tuple(key), idx)
        if isinstance(ident, str):
            orc.hit('C08', 'chain', 'prime key %s: %s' % (key, ident))
            return
        want.append('.'.join([str(ident[0]), ident[1], ident[2], ident[3][0],
                              ident[4][0], ident[5][0]]))
    if got != sorted(want):
        orc.hit('C08', 'prime-names', '_prime_keys() = %s, the chain says %s'
                % (got, sorted(want)))


def trace_oracle(orc, hop, ob, idx):
    '''newest registered version of (task, alg) exactly; max run of its keys'''
    res = {tn: dict(row) for tn, row in ob['reply']['r']}
    algs = [parse_full(x) + (i,) for i, x in enumerate(idx[2])]
    keys = [key_identity(tuple(k), idx) for k, _, _ in ob['prime']]
    for tn in idx[0]:
        if tn.startswith('__') and tn.endswith('__'):
            continue
        for task, alg in hop['tans']:
            if task not in idx[1]:
                continue
            tid = idx[1].index(task)
            vers = [v for p, n, v, _ in algs if p == tid and n == alg]
            if not vers:
                continue
            newest = max(vers)
            want = None
            for tgt in (tn, '__all__'):
                runs = [kid[0] for kid in keys if not isinstance(kid, str)
                        and kid[1] == tgt and kid[2] == task and kid[3] == (alg, newest)]
                if runs:
                    want = max(runs)
                    break
            got = res.get(tn, {}).get(task + '.' + alg)
            if got != want:
                orc.hit('C08', 'trace-wrong',
                        'trace(%s.%s) for %s = %r, exact-name answer %r'
                        % (task, alg, tn, got, want))
            if any(n != alg and n.startswith(alg) and p == tid for p, n, v, _ in algs):
                orc.nontrivial['C08'] = True


def reset_oracle(orc, hop, ob, idx):
    '''every version reset() copies comes from an entry named exactly alg'''
    keys = [key_identity(tuple(k), idx) for k, _, _ in ob['prime']]
    mine = [kid for kid in keys if not isinstance(kid, str)
            and kid[:3] == (hop['run'], hop['tn'], hop['task']) and kid[3][0] == hop['alg']]
    allowed = set(kid[3][1] for kid in mine)
    for av, sv in ob['reply']['r']:
        if tuple(av) not in allowed:
            others = [kid for kid in keys if not isinstance(kid, str)
                      and kid[:3] == (hop['run'], hop['tn'], hop['task'])
                      and kid[3][1] == tuple(av)]
            orc.hit('C08', 'reset-foreign',
                    'reset(%s,%s,%s,%s) copied version %s of %s'
                    % (hop['run'], hop['tn'], hop['task'], hop['alg'], av,
                       sorted(set(k[3][0] for k in others))),
                    fallback=not mine)
    if mine and any(kid[3][0] != hop['alg'] and kid[3][0].startswith(hop['alg'])
                    for kid in keys if not isinstance(kid, str)
                    and kid[:3] == (hop['run'], hop['tn'], hop['task'])):
        orc.nontrivial['C08'] = True


def run_oracles(hist, res):
    '''evaluate all oracles on one history; returns the Oracle'''
    orc = Oracle()
    obs = res['obs']
    final_idx = res['final']['indices']
    before = None
    for si, (hop, ob) in enumerate(zip(hist, obs)):
        idx_after = ob['dump']['indices'] if 'dump' in ob else None
        orc.step(hop, ob, before, idx_after)
        # ids are never reassigned (checked above at every reopen): the
        # indices at this step are the prefixes of the final ones
        idx_now = [ix[:n] for ix, n in zip(final_idx, ob['lens'])]
        if 'exc' not in ob['reply']:
            if hop['op'] == 'remove' and before is not None:
                remove_oracle(orc, hop, before, ob, idx_now)
            elif hop['op'] == 'names':
                names_oracle(orc, hop, ob, idx_now)
            elif hop['op'] == 'trace':
                trace_oracle(orc, hop, ob, idx_now)
            elif hop['op'] == 'reset':
                reset_oracle(orc, hop, ob, idx_now)
            elif hop['op'] == 'reopen':
                if any(h['op'] in ('upd', 'load', 'reg', 'add') for h in hist[:si + 1]):
                    orc.nontrivial['C08'] = True
        else:
            if hop['op'] in ('upd', 'load', 'next', 'names', 'reopen', 'add', 'reg'):
                orc.hit('C06' if hop['op'] == 'load' else 'C08', 'exception',
                        '%s raised %s' % (hop['op'], ob['reply']['exc']))
        before = ob
    # chain + final index stability
    for key, _, _ in obs[-1]['prime'] if obs else []:
        ident = key_identity(tuple(key), final_idx)
        if isinstance(ident, str):
            orc.hit('C08', 'chain', 'prime key %s: %s' % (key, ident))
    if orc.prev_idx is not None:
        for old, new in zip(orc.prev_idx, final_idx):
            if new[:len(old)] != old:
                orc.hit('C08', 'id-reassigned', 'ids were reassigned')
    for t, ix in zip(res['final']['tables'], final_idx):
        if [n for n, _ in t] != ix or [i for _, i in t] != list(range(len(ix))):
            orc.hit('C08', 'bijection', 'final table is not the inverse of its index')
    return orc


# ---------------------------------------------------------------------------
# the study: generate, run both sides, diff, oracles
# ---------------------------------------------------------------------------
_CACHE = {}


def histories(ctx, n_random, n_sweep, length, focus='C08'):
    hs = [('directed', h) for h in directed()]
    for i in range(n_random):
        rng = random.Random('%s:%s:store:%d' % (ctx.seed, focus, i))
        hs.append(('random', Gen(rng, focus=focus).history(
            rng.randint(length // 2, length))))
    for i in range(n_sweep):
        rng = random.Random('%s:sweep:%d' % (ctx.seed, i))
        hs.append(('sweep', crash_sweep(rng, fresh=(i % 2 == 0))))
    return hs


def model_eval(ctx, hist_list, chunk=10):
    '''returns per history (content table, canonical model observations,
    final (indices, tables))'''
    out = []
    for lo in range(0, len(hist_list), chunk * 14):
        part = hist_list[lo:lo + chunk * 14]
        # names are Coq definitions of the preamble (parsed once per file)
        allnames = Names()
        exprs, plans = [], []
        for h in part:
            codes = Codes()
            groups = [expand(hop, codes, allnames) for hop in h]
            exprs.append('run_io [%s]' % '; '.join(groups))
            plans.append(codes)
        vals = ctx.coq_eval(
            ['DV.Model.Catalogue', 'DV.Model.Store', 'DV.Model.StoreIO'], exprs,
            z_scope=False, chunk=chunk,
            preamble='Open Scope string_scope.\n' + allnames.preamble())
        for h, codes, v in zip(part, plans, vals):
            gobs, fin = v
            canon = [canon_model(hop, g) for hop, g in zip(h, gobs)]
            out.append((codes, canon, fin))
    return out


def study(ctx, focus, escalate=False):
    '''runs once per process; returns dict with everything the check needs'''
    key = (ctx.tier, ctx.seed, escalate, focus)
    if key in _CACHE:
        return _CACHE[key]
    deep = not ctx.quick
    q_r, q_s, t_r, t_s = SIZES[focus]
    n_random = t_r if deep else q_r
    n_sweep = t_s if deep else q_s
    if escalate and not deep:
        # a fingerprint of a modelled function changed, or something broke
        # without a failing input: three times the quick depth
        n_random, n_sweep = 3 * q_r, 3 * q_s
    length = 26 if (deep or escalate) else 20
    hs = histories(ctx, n_random, n_sweep, length, focus)
    hist_list = [h for _, h in hs]
    import threading
    box = {}

    def run_impl():
        try:
            box['impl'] = ctx.harness('drive_store.py', {'histories': hist_list})
        except Exception as e:   # re-raised in the main thread
            box['err'] = e

    th = threading.Thread(target=run_impl)
    th.start()
    try:
        model = model_eval(ctx, hist_list)
    finally:
        th.join()
    if 'err' in box:
        raise box['err']
    impl = box['impl']['histories']
    sums = box['impl'].get('sums', {'agree': True})
    res = {'hs': hs, 'mismatch': None, 'hits': [], 'n_ops': 0, 'ops_hist': {},
           'nontrivial': {'C06': [], 'C07': [], 'C08': []}, 'evals': 0,
           'crash_points': 0, 'msv_ok': True, 'sums': sums}
    for hi, ((kind, h), im, (codes, canon, fin)) in enumerate(zip(hs, impl, model)):
        # replay the harness-side content table in the same order as expand()
        for si, (hop, ob, mo) in enumerate(zip(h, im['obs'], canon)):
            res['n_ops'] += 1
            res['ops_hist'][hop['op']] = res['ops_hist'].get(hop['op'], 0) + 1
            if hop['op'] == 'upd' and hop.get('crash') is not None:
                res['crash_points'] += 1
            if hop['op'] == 'load' and 'msv_ver' in ob['reply']:
                mv = ob['reply']['msv_ver']
                if (tuple(mv[0]) != MSV[1] or
                        [(n, tuple(v)) for n, v in mv[1]] != MSV[2]):
                    res['msv_ok'] = False
            ci = canon_impl(hop, ob, codes)
            if mo is not None and ci != mo and res['mismatch'] is None:
                res['mismatch'] = {'history': hi, 'kind': kind,
                                   'step': si, 'op': hop,
                                   'impl': repr(ci), 'model': repr(mo),
                                   'ops': h[:si + 1]}
        # final dump
        idx_m = [[s_name(n) for n in ix] for ix in fin[0]]
        if idx_m != im['final']['indices'] and res['mismatch'] is None:
            res['mismatch'] = {'history': hi, 'kind': kind, 'step': 'final',
                               'impl': repr(im['final']['indices']),
                               'model': repr(idx_m), 'ops': h}
        tab_m = [sorted(((s_name(n), i) for n, i in t), key=lambda e: (e[1], e[0]))
                 for t in fin[1]]
        tab_i = [[(n, i) for n, i in t] for t in im['final']['tables']]
        if tab_m != tab_i and res['mismatch'] is None:
            res['mismatch'] = {'history': hi, 'kind': kind, 'step': 'final-tables',
                               'impl': repr(tab_i), 'model': repr(tab_m), 'ops': h}
        # persisted versions (what schedule.build compares the software with)
        rows = fin[2]
        if any(r is None for r in rows):
            ver_m = {'exc': True}
        else:
            lv = [{}, {}, {}]
            for r in rows:
                t, a, sv, vn, av, svv, vv = r[1]
                for d, key, ver in ((lv[0], '.'.join([t, a]), av),
                                    (lv[1], '.'.join([t, a, sv]), svv),
                                    (lv[2], '.'.join([t, a, sv, vn]), vv)):
                    d.setdefault(key, set()).add('.'.join(str(x) for x in ver))
            ver_m = [sorted((k, sorted(x)) for k, x in d.items()) for d in lv]
        ver_i = im['final'].get('versions')
        if isinstance(ver_i, dict):
            ver_i = {'exc': True}
        else:
            ver_i = [[(k, list(x)) for k, x in lvl] for lvl in ver_i]
        if ver_m != ver_i and res['mismatch'] is None:
            res['mismatch'] = {'history': hi, 'kind': kind, 'step': 'final-versions',
                               'impl': repr(ver_i), 'model': repr(ver_m), 'ops': h}
            res['versions_mismatch'] = {'impl': ver_i, 'model': ver_m, 'ops': h}
        try:
            orc = run_oracles(h, im)
        except Exception as e:   # observations too inconsistent to evaluate
            import traceback
            if res.get('oracle_crash') is None:
                res['oracle_crash'] = {'history': hi, 'ops': h,
                                       'error': traceback.format_exc()[-1500:]}
            orc = Oracle()
        for prop, knd, fields, what in orc.hits:
            res['hits'].append({'property': prop, 'kind': knd, 'fields': fields,
                                'what': what, 'history': hi, 'ops': h})
        for p in ('C06', 'C07', 'C08'):
            if orc.nontrivial[p]:
                res['nontrivial'][p].append(
                    (p, json.dumps(h, sort_keys=True)))
    res['evals'] = res['n_ops']
    res['finals'] = [im['final'] for im in impl]
    _CACHE[key] = res
    return res


def versions_study(ctx):
    '''C15, persisted side: the REAL shelve.versions() at the end of every
    store history against (a) what the history registered (oracle, independent
    of the model) and (b) Catalogue.versions of the model (correspondence).'''
    res = study(ctx, 'C08', False)
    n, nontriv, found = 0, [], False
    for hi, ((kind, h), fin) in enumerate(zip(res['hs'], res['finals'])):
        want = [{}, {}, {}]      # must be listed
        may = [{}, {}, {}]       # may be listed (an update that died part way)
        for o in h:
            if o.get('op') not in ('upd', 'load', 'reg'):
                continue
            vals = o['vals'] if 'vals' in o else [[o['vn'], o['vver']]]
            crash = o.get('crash')
            for j, v in enumerate(vals):
                keys = ('.'.join([o['task'], o['alg']]), '.'.join([o['task'], o['alg'], o['sv']]),
                        '.'.join([o['task'], o['alg'], o['sv'], v[0]]))
                sure = crash is None or 6 * j < crash
                for lv, k, ver in zip(range(3), keys, (o['aver'], o['sver'], v[1])):
                    vs = '.'.join(str(x) for x in ver)
                    may[lv].setdefault(k, set()).add(vs)
                    if sure:
                        want[lv].setdefault(k, set()).add(vs)
        got = fin.get('versions')
        n += 1
        if isinstance(got, dict):
            continue      # versions() raised: the correspondence speaks about it
        if sum(len(x) > 1 for x in want[0].values()):
            nontriv.append(('versions', hi, json.dumps(sorted(want[0]))))
        for lvl, (w, g) in enumerate(zip(want, got)):
            g = {k: set(x) for k, x in g if '__metric__' not in k}
            missing = {k: sorted(w[k] - g.get(k, set())) for k in w if w[k] - g.get(k, set())}
            extra = {k: sorted(g[k] - may[lvl].get(k, set())) for k in g
                     if g[k] - may[lvl].get(k, set())}
            if lvl == 0:
                # the algorithm level also lists versions reached through metric rows only
                extra = {}
            if (missing or extra) and not found:
                found = True
                ctx.violation('persisted-versions-wrong', {'level': ['alg', 'sv', 'value'][lvl],
                                                          'missing': bool(missing)},
                              'shelve.versions() after a %s history: level %s misses %s, lists unregistered %s'
                              % (kind, ['algorithm', 'state vector', 'value'][lvl], missing, extra),
                              {'source': 'oracle', 'ops': h, 'theorem': 'C15_changed_iff (persisted side)',
                               'expected': {k: sorted(x) for k, x in w.items()},
                               'observed': {k: sorted(x) for k, x in g.items()}})
    ctx.count(evaluations=n, nontrivial_keys=nontriv)
    ctx.note('persisted_versions_histories', n)
    m = res.get('mismatch')
    if m and m.get('step') == 'final-versions' and not found:
        ctx.broken('correspondence: shelve.versions() and Catalogue.versions disagree',
                   'impl =%s\nmodel=%s' % (m['impl'], m['model']),
                   {'source': 'correspondence', 'ops': m['ops'], 'expected': m['model'], 'observed': m['impl']})


# ---------------------------------------------------------------------------
# pure-function units (util.construct/dissect/subset/indexed/append)
# ---------------------------------------------------------------------------


def unit_cases(ctx):
    rng = random.Random('%s:units' % ctx.seed)
    names = ['a', 'ab', 'alg', 'alg2', 'a_b', '', '1', '11', 'x:parent', '__metric__',
             'a___version', 'a_', '_', 'a___version:1.0.0', 'p:parent___q', 'a.b']
    vers = [None, (1, 0, 0), (1, 10, 0), (11, 0, 0), (0, 0, 0), (1, 1, 10)]
    units = []
    for _ in range(ctx.n(60, 400)):
        n, p, v = rng.choice(names), rng.choice([None, 0, 1, 11, 12]), rng.choice(vers)
        units.append({'f': 'construct', 'name': n, 'parent': p,
                      'ver': list(v) if v else None})
    strings = []
    for _ in range(ctx.n(80, 500)):
        n, p, v = rng.choice(names), rng.choice([None, 0, 1, 11]), rng.choice(vers)
        s = n
        if p is not None:
            s = str(p) + SEP_P + s
        if v:
            s = s + SEP_V + '.'.join(str(x) for x in v)
        if rng.random() < 0.15:
            s = s + rng.choice(['.1', SEP_V + '1.0', 'x', SEP_P + 'z'])
        strings.append(s)
    strings += ['', 'x', ':parent___x', 'a:parent___x', '3:parent___',
                '3:parent___x___version:1.0', '3:parent___x___version:1.0.0.0',
                '3:parent___x___version:1.a.0', '3:parent___x___version:-1.0.0',
                '03:parent___x', 'x___version:1.2.3']
    for s in strings:
        units.append({'f': 'dissect', 's': s})
    for _ in range(ctx.n(60, 400)):
        tab = {}
        for _ in range(rng.randint(0, 8)):
            n, p = rng.choice(names[:5] + ['1', '11']), rng.choice([0, 1, 11])
            v = rng.choice(vers[1:])
            full = str(p) + SEP_P + n + SEP_V + '.'.join(str(x) for x in v)
            if rng.random() < 0.1:
                full = str(p) + SEP_P + n
            if full not in tab:
                tab[full] = len(tab)
        items = list(tab.items())
        rng.shuffle(items)
        parents = rng.choice([[0], [1], [0, 1], [11], [], [1, 11], [0, 0]])
        units.append({'f': 'subset', 'table': items,
                      'name': rng.choice(names[:5] + ['1', '0:par']),
                      'parents': parents})
        units.append({'f': 'indexed', 'table': items})
    for _ in range(ctx.n(40, 200)):
        keys = set()
        for _ in range(rng.randint(0, 8)):
            keys.add((rng.choice([1, 3, 31, 11, -1]), rng.choice([0, 1, 10]),
                      rng.choice([0, 1, 11]), rng.choice([0, 1, 12]),
                      rng.randint(0, 2), rng.randint(0, 2)))
        r, t, k, a = (rng.choice([1, 3, 31]), rng.choice([0, 1, 10]),
                      rng.choice([0, 1, 11]), rng.choice([0, 1, 12]))
        pre = str((r, t, k)).replace(')', ',') if rng.random() < 0.5 else \
            str((r, t, k, a)).replace(')', ',')
        units.append({'f': 'psubset', 'keys': sorted(keys), 'prefix': pre,
                      'rtka': [r, t, k, a], 'four': not pre.count(',') == 3})
    return units


def g_opt(x, f):
    return 'None' if x is None else '(Some %s)' % f(x)


def g_tbl(items):
    return '[' + ';'.join('(%s,%d)' % (g_name(n), i) for n, i in items) + ']'


def unit_expr(u):
    f = u['f']
    if f == 'construct':
        return 'PS (construct %s %s %s)' % (g_name(u['name']), g_opt(u['parent'], str),
                                       g_opt(u['ver'], g_ver))
    if f == 'dissect':
        return 'option_map (fun x => let \'(p, n, v) := x in (p, PS n, v)) (dissect %s)' % g_name(u['s'])
    if f == 'subset':
        return 'map (fun e => (PS (fst e), snd e)) (subset %s %s [%s])' % (g_tbl(u['table']), g_name(u['name']),
                                      ';'.join(str(p) for p in u['parents']))
    if f == 'indexed':
        return 'map PS (indexed %s)' % g_tbl(u['table'])
    if f == 'psubset':
        return 'map fst (psubset [%s] %s)' % (
            ';'.join('((%s,%d,%d,%d,%d,%d),(0)%%Z)' % ((g_z(k[0]),) + tuple(k[1:]))
                     for k in u['keys']), g_name(u['prefix']))
    raise ValueError(f)


def unit_canon_model(u, v):
    f = u['f']
    if f == 'construct':
        return ('ok', s_name(v))
    if f == 'dissect':
        if v is None:
            return ('exc',)
        p, n, ver = v[1]
        return ('ok', (None if p is None else p[1], s_name(n),
                       None if ver is None else tuple(ver[1])))
    if f == 'subset':
        return ('ok', tuple(sorted(((s_name(n), i) for n, i in v),
                                   key=lambda e: (e[1], e[0]))))
    if f == 'indexed':
        return ('ok', tuple(s_name(n) for n in v))
    if f == 'psubset':
        return ('ok', tuple(sorted(tuple(k) for k in v)))


def unit_canon_impl(u, r):
    if 'exc' in r:
        return ('exc',)
    f = u['f']
    v = r['r']
    if f == 'construct':
        return ('ok', v)
    if f == 'dissect':
        return ('ok', (v[0], v[1], None if v[2] is None else tuple(v[2])))
    if f == 'subset':
        return ('ok', tuple((n, i) for n, i in v))
    if f == 'indexed':
        return ('ok', tuple(v))
    if f == 'psubset':
        return ('ok', tuple(sorted(tuple(k) for k in v)))


def units_study(ctx):
    '''pure util functions: real vs model on generated inputs (incl. names
    that are not plain); returns (n, first mismatch or None, oracle hits)'''
    units = unit_cases(ctx)
    impl = ctx.harness('drive_store.py', {'units': units})['units']
    vals = ctx.coq_eval(['DV.Model.Catalogue', 'DV.Model.Store',
                         'DV.Model.StoreIO'], [unit_expr(u) for u in units],
                        z_scope=False, preamble='Open Scope string_scope.')
    bad = None
    hits = []
    for u, r, v in zip(units, impl, vals):
        ci, cm = unit_canon_impl(u, r), unit_canon_model(u, v)
        if ci != cm and bad is None:
            bad = {'unit': u, 'impl': repr(ci), 'model': repr(cm)}
        # exactness oracle of subset on well-formed tables / plain names
        if u['f'] == 'subset' and u['parents'] and ci[0] == 'ok' \
                and ':' not in u['name']:
            want = []
            for n, i in u['table']:
                p, nm, _ = parse_full(n)
                if p in u['parents'] and nm == u['name']:
                    want.append((n, i))
            if sorted(ci[1]) != sorted(want):
                hits.append({'property': 'C08', 'kind': 'subset-inexact',
                             'fields': {}, 'unit': u,
                             'what': 'subset(%r, %r) = %r, exact answer %r'
                             % (u['name'], u['parents'], ci[1], sorted(want))})
        if u['f'] == 'psubset' and ci[0] == 'ok':
            r_, t_, k_, a_ = u['rtka']
            n = 4 if u['prefix'].count(',') == 4 else 3
            want = sorted(tuple(k) for k in u['keys']
                          if list(k[:n]) == [r_, t_, k_, a_][:n])
            if sorted(ci[1]) != want:
                hits.append({'property': 'C08', 'kind': 'prime-prefix-inexact',
                             'fields': {}, 'unit': u,
                             'what': 'subset(prime, %r) = %r, exact answer %r'
                             % (u['prefix'], ci[1], want)})
    return len(units), bad, hits


# ---------------------------------------------------------------------------
# the check shared by props/C06.py, C07.py, C08.py
# ---------------------------------------------------------------------------
RULES = {
    'C06': 'operation histories (update / load / remove / version bump / target '
           'add / close+reopen, crashes) on the real shelve backend vs the model; '
           'non-trivial = a load that follows an update of the same identity and '
           'an update of a confusable identity (other target, other version or '
           'prefix-related algorithm name with the same state vector and value '
           'names)',
    'C07': 'operation histories with repeated contents and a crash injected at '
           'every atomic step of an update (mkstemp, dump, md5sum, sha1sum, '
           'unlink|move, table write), reopen after each; non-trivial = identical '
           'content stored twice or a crash strictly between staging and the '
           'table write',
    'C08': 'operation histories over prefix families of names (a/ab/abc, '
           'alg/alg2, sv/sv2, v/v1/v12, t/t1, versions 1.1.0/1.10.0/11.0.0) with '
           'remove / reset / trace / _prime_keys / next / close+reopen, plus the '
           'pure util functions on generated tables; non-trivial = a remove / '
           'trace / reset addressed the shorter name of a proper prefix pair, or '
           'a close+reopen followed a registration',
}


def fingerprints(ctx):
    import os
    cur = {rel: core.fingerprint(rel, names) for rel, names in FINGERPRINTS}
    base = json.load(open(os.path.join(os.path.dirname(__file__),
                                       'store_fingerprints.json')))
    changed = sorted('%s:%s' % (rel, q) for rel in cur for q in cur[rel]
                     if base.get(rel, {}).get(q) != cur[rel][q])
    ctx.note('fingerprints', cur)
    ctx.note('fingerprints_changed', changed)
    return bool(changed)


def common_trust(ctx):
    ctx.trust(
        'hand-written model coq/Model/Catalogue.v + Store.v (one Gallina function '
        'per Python function of db/shelve/util.py, state.py, __init__.py '
        'next/remove/reset/trace, model.py __to_key/_update/_load, comms.py '
        'Worker.do set/get/upd, db/util encode/move) tied to the code by the '
        'correspondence run of this check, not by proof',
        'tools/harness/drive_store.py: sockets replaced by a direct call of '
        'comms.Worker.do (as Test/test_07.py), comms.acquire/release stubbed, '
        'crash points raised from wrappers around os.unlink, shutil.move, '
        'tempfile.mkstemp, pickle.dump, subprocess.check_output (inside '
        'dawgie.db.util) and shelve.Shelf.__setitem__ of the prime table',
        'md5sum/sha1sum: after the first 40 real calls per run a hashlib stand-in '
        'prints the same line (every real call is compared with it); the oracle '
        're-hashes every stored file with hashlib',
        'props/store_common.py: history generator, the string<->code-point and '
        'pickled-bytes<->Z tables, the canonicalisers (sets sorted, types kept) '
        'and coq/Model/StoreIO.v (names printed as strings)',
        'python: str(int)/int(str) on canonical decimals, str(tuple), eval(str(key)) '
        '== key, dict semantics of shelve/dbm.dumb within one process',
    )
    ctx.assume(
        'shutil.move between staging and store is an atomic rename (same device)',
        'pickle.loads(pickle.dumps(x)) == x for the stored values; a value is its '
        'pickled bytes (content + sealed version)',
        'md5/sha1 digest is a function of the bytes; collision freedom is an '
        'explicit hypothesis of the "exactly when" theorems, never an axiom',
        'a crash is an exception raised before an atomic step; dbm durability '
        '(unsynced index of dbm.dumb at process kill) is not modelled',
        'names of the histories are plain (no ":"); dissect() on names that '
        'contain the separators is compared on the pure-function units only',
    )


def replay_one(ctx, pid):
    '''./check Cxx --replay F : re-execute the history of a replay file'''
    rp = json.load(open(ctx.replay))
    ops = rp.get('ops')
    if not ops:
        print('[%s] replay file has no operation history (%s)' % (pid, rp.get('broken')))
        return
    im = ctx.harness('drive_store.py', {'histories': [ops]})['histories'][0]
    if any(o.get('wfail') or o.get('fault') for o in ops):
        hits = [x for x in write_fault_oracle(ops, im)[0] + c07_fault_oracle(ops, im)
                if x['property'] == pid]
        ctx.count(evaluations=len(ops), nontrivial_keys=[('replay', json.dumps(ops)), 'x'])
        for h in hits:
            ctx.violation(h['kind'], h['fields'], '%s: %s' % (pid, h['what']), {'source': 'oracle', 'ops': ops})
        if not hits:
            print('[%s] replay: the history no longer violates the property' % pid)
        return
    orc = run_oracles(ops, im)
    ctx.count(evaluations=len(ops), nontrivial_keys=[('replay', json.dumps(ops)), 'x'])
    for prop, kind, fields, what in orc.hits:
        if prop == pid:
            ctx.violation(kind, fields, what, {'source': 'oracle', 'ops': ops})
    if not [h for h in orc.hits if h[0] == pid]:
        print('[%s] replay: the history no longer violates the property' % pid)


def write_fault_histories(ctx, n, tag='wfault'):
    """histories in which ONE client call has a catalogue-table write refused
    (op field `wfail: k` = the k-th table write of that call raises OSError,
    the process carries on).  The first histories are a directed sweep: every
    k for a fresh two-value update, a fresh registration, a fresh load and a
    fresh add, each followed by the retry of the same call."""
    hs = []

    def tail(i):
        return [{'op': 'reopen'}, {'op': 'add', 'tn': 'AFTER%d' % i}, {'op': 'names'}]

    head = {'run': 2, 'tn': 'T', 'task': 't', 'alg': 'alg', 'aver': [1, 0, 0],
            'sv': 's', 'sver': [1, 0, 0]}
    pre = dict(head, op='upd', alg='alg2', tn='U', vals=[['v', [1, 0, 0], 0]], crash=None)
    for k in range(1, 8):        # 5 new rows for the first value, 1 for the second
        u = dict(head, op='upd', vals=[['v', [1, 0, 0], 1], ['w', [1, 0, 0], 2]], crash=None)
        hs.append(([pre] if k % 2 else []) + [dict(u, wfail=k), u,
                  dict(head, op='load', vals=[['v', [1, 0, 0]], ['w', [1, 0, 0]]])] + tail(k))
    for k in range(1, 5):
        g = dict(head, op='reg', vn='v', vver=[1, 0, 0])
        del g['run'], g['tn']
        hs.append(([pre] if k % 2 else []) + [dict(g, wfail=k), g] + tail(k))
    for k in range(1, 7):        # a load registers what it asks for
        ld = dict(head, op='load', vals=[['v', [1, 0, 0]]])
        hs.append(([pre] if k % 2 else []) + [dict(ld, wfail=k), ld] + tail(k))
    hs.append([pre, {'op': 'add', 'tn': 'T', 'wfail': 1}, {'op': 'add', 'tn': 'T'}] + tail(0))
    # a refused write, then a stop between rename and table write, then the retry
    u = dict(head, op='upd', vals=[['v', [1, 0, 0], 1]], crash=None)
    hs.append([dict(u, wfail=4), dict(u, crash=6), u, dict(u, run=3)] + tail(1))
    # the symmetric faults the process survives: every step of an update (incl.
    # the rename into the store and the primary-table write) refused with
    # OSError, then the retry, then the same content under another run
    for k in range(1, 7):
        hs.append(([pre] if k % 2 else []) +
                  [dict(u, crash=k, fault='oserror'), u, dict(u, run=3),
                   dict(head, op='load', vals=[['v', [1, 0, 0]]])] + tail(k))
    for i in range(n):
        rng = random.Random('%s:C08:%s:%d' % (ctx.seed, tag, i))
        g = Gen(rng, small=True, focus='C08')
        h = []
        for _ in range(rng.randint(2, 5)):
            o = g.op(allow_crash=False)
            if o is not None:
                h.append(o)
        # a fresh name in every table, so that the refused write is a new row
        fresh = {'op': 'upd', 'run': rng.randint(1, 4), 'tn': 'NEWT%d' % i,
                 'task': rng.choice(g.tasks), 'alg': 'newalg%d' % i, 'aver': [1, 0, 0],
                 'sv': rng.choice(g.svs), 'sver': [1, 0, 0],
                 'vals': [[rng.choice(g.vals), [1, 0, 0], rng.randint(0, 3)]],
                 'crash': None, 'wfail': rng.randint(1, 4)}
        x = rng.random()
        if x < 0.25:
            fresh = {'op': 'add', 'tn': 'NEWT%d' % i, 'wfail': 1}
        elif x < 0.4:
            vns = rng.sample(g.vals, 2)
            fresh = dict(fresh, vals=[[vn, [1, 0, 0], rng.randint(0, 3)] for vn in vns],
                         wfail=rng.randint(1, 6))
        elif x < 0.5:
            fresh = {'op': 'reg', 'task': fresh['task'], 'alg': fresh['alg'], 'aver': [1, 0, 0],
                     'sv': fresh['sv'], 'sver': [1, 0, 0], 'vn': rng.choice(g.vals),
                     'vver': [1, 0, 0], 'wfail': rng.randint(1, 4)}
        elif x < 0.6:
            fresh = dict(fresh, op='load', vals=[[fresh['vals'][0][0], [1, 0, 0]]],
                         wfail=rng.randint(1, 5))
            del fresh['crash']
        h.append(fresh)
        if rng.random() < 0.5:      # the retry of the refused call
            h.append({k: v for k, v in fresh.items() if k != 'wfail'})
        for _ in range(rng.randint(2, 6)):
            o = g.op(allow_crash=False)
            if o is not None:
                if o['op'] in ('upd', 'reg') and rng.random() < 0.5:
                    o = dict(o, alg='later%d' % rng.randint(0, 2))
                if o['op'] == 'upd' and rng.random() < 0.3:
                    # a step of the update is refused with OSError, the process survives
                    o = dict(o, crash=rng.randint(1, 6 * len(o['vals'])), fault='oserror')
                if o['op'] == 'add':
                    o = dict(o, tn='LATER%d' % rng.randint(0, 2))
                h.append(o)
        h.append({'op': 'reopen'})
        h.append({'op': 'add', 'tn': 'AFTER%d' % i})
        h.append({'op': 'names'})
        hs.append([o for o in h if o['op'] not in ('trace', 'reset', 'remove', 'next')])
    return hs


def fault_model_eval(ctx, hs):
    """Model/StoreFault.v on the histories: per history (content table, list of
    per-call observations (canonical, refused flag, indices, tables))"""
    out = []
    per_file = 10
    for lo in range(0, len(hs), per_file * 14):
        part = hs[lo:lo + per_file * 14]
        allnames = Names()
        exprs, plans = [], []
        for h in part:
            codes = Codes()
            groups = ['(%d, %s)' % (int(hop.get('wfail') or 0), expand(hop, codes, allnames))
                      for hop in h]
            exprs.append('run_io_f [%s]' % '; '.join(groups))
            plans.append(codes)
        vals = ctx.coq_eval(
            ['DV.Model.Catalogue', 'DV.Model.Store', 'DV.Model.StoreIO',
             'DV.Model.StoreFault'], exprs, z_scope=False, chunk=per_file,
            preamble='Open Scope string_scope.\n' + allnames.preamble())
        for h, codes, v in zip(part, plans, vals):
            steps = []
            for hop, g in zip(h, v):
                reps, refused, lens, prime, store, stage, dmp = g
                canon = canon_model(hop, (reps, lens, prime, store, stage))
                idx = [[s_name(n) for n in ix] for ix in dmp[0]]
                tabs = [sorted(((s_name(n), i) for n, i in t), key=lambda e: (e[1], e[0]))
                        for t in dmp[1]]
                steps.append((canon, bool(refused), idx, tabs))
            out.append((codes, steps))
    return out


def fault_compare(h, im, codes, steps):
    """first disagreement between the implementation and Model/StoreFault.v on
    one history (replies, refused flag, primary table, store, staging area,
    the five indices and the five tables after every call), or None"""
    if len(steps) != len(h) or len(im['obs']) != len(h):
        return {'step': 'length', 'impl': len(im['obs']), 'model': len(steps), 'ops': h}
    for si, (hop, ob, (mo, refused, idx, tabs)) in enumerate(zip(h, im['obs'], steps)):
        ci = canon_impl(hop, ob, codes)
        d = ob.get('dump') or {}
        cmp = [('reply/prime/store', ci, mo),
               ('refused', bool(ob.get('write_refused')), refused),
               ('indices', d.get('indices'), idx),
               ('tables', [[(n, i) for n, i in t] for t in d.get('tables', [])], tabs)]
        for what, a, b in cmp:
            if a != b:
                return {'step': si, 'what': what, 'op': hop, 'impl': repr(a),
                        'model': repr(b), 'ops': h[:si + 1]}
    return None


def c07_fault_oracle(h, r):
    """C07 on the implementation's own observations of a history with refused
    writes: no primary entry names a missing file, every file is named by its
    digest, one copy per content, and a completed update reports `new` exactly
    for content that was not in the store."""
    hits = []
    before = None
    for si, (hop, ob) in enumerate(zip(h, r['obs'])):
        bad = None
        rep = ob['reply']
        if not ob['digest_ok']:
            bad = ('digest-name', 'a stored file does not hash to its name')
        codes = [json.dumps(c) for c in ob['store']]
        if not bad and len(set(codes)) != len(codes):
            bad = ('two-copies', 'identical content stored twice')
        for key, c, blob in ob['prime']:
            if not bad and c == 'DANGLING':
                bad = ('dangling', 'prime entry %s names the missing file %s' % (key, blob))
        if not bad and hop['op'] == 'upd' and 'exc' not in rep:
            had = [json.dumps(c) for c in before['store']] if before else []
            for (vn, vver, c), (_, f) in zip(hop['vals'], rep['r']):
                code = json.dumps([c, list(vver)])
                if f != (code not in had):
                    bad = ('novelty-flag', 'isnew=%s but content %s present before=%s'
                           % (f, code, code in had))
                had.append(code)
        if bad:
            hits.append({'property': 'C07', 'kind': bad[0],
                         'fields': {'cause': 'fault-the-process-survives'},
                         'what': bad[1], 'ops': h[:si + 1], 'history': h})
            break
        before = ob
    return hits


_WF = {}


def write_fault_study(ctx, pid='C08'):
    """C08 / C07 over histories with a REFUSED catalogue-table write (OSError,
    the database process carries on; Model/StoreFault.v, theorems
    C08_catalogue_inv_faults, C07_no_dangling_faults).  (a) the same histories
    run in the model and on the real code, compared after every client call:
    reply, whether a write was refused, primary table, store, staging area, the
    five indices and the five tables; (b) the structural oracle on the
    implementation's own tables after every call: each name table is a
    bijection onto 0..n-1, the id->name index is its inverse (also after the
    reopen), no id is reassigned, every primary key resolves, no call other
    than the refused one raises; for C07: no dangling entry, digest names, one
    copy, novelty flag.  Returns the oracle hits of `pid`; a disagreement
    without a hit is kept in _WF['mismatch'] after a deeper oracle search."""
    n = ctx.n(30, 300)
    hs = write_fault_histories(ctx, n)
    import threading
    box = {}

    def run_impl():
        try:
            box['impl'] = ctx.harness('drive_store.py', {'histories': hs})['histories']
        except Exception as e:   # re-raised in the main thread
            box['err'] = e

    th = threading.Thread(target=run_impl)
    th.start()
    try:
        model = fault_model_eval(ctx, hs)
    finally:
        th.join()
    if 'err' in box:
        raise box['err']
    out = box['impl']
    hits, refused, mismatch, steps, partial = [], 0, None, 0, 0
    keys = []
    for h, r, (codes, msteps) in zip(hs, out, model):
        hh, k = write_fault_oracle(h, r)
        hits += hh
        hits += c07_fault_oracle(h, r)
        refused += k
        steps += len(h)
        if mismatch is None:
            mismatch = fault_compare(h, r, codes, msteps)
        for hop, ob, before in zip(h, r['obs'], [None] + r['obs']):
            if ob.get('write_refused'):
                grew = before is not None and ob['lens'] != before['lens'] or \
                    before is None and any(ob['lens'])
                partial += bool(grew)
                keys.append(('wfault', hop['op'], hop['wfail'], bool(grew)))
    mine = [x for x in hits if x['property'] == pid]
    if mismatch and not mine:
        # the model and the code disagree and the oracle is silent: look for a
        # failing input among ten times as many histories (oracle only)
        more = write_fault_histories(ctx, 10 * n, tag='wfault-deep')
        res = ctx.harness('drive_store.py', {'histories': more})['histories']
        for h, r in zip(more, res):
            mine += [x for x in write_fault_oracle(h, r)[0] + c07_fault_oracle(h, r)
                     if x['property'] == pid]
    _WF['mismatch'] = mismatch if not mine else None
    ctx.note('write_fault_histories', {
        'histories': len(hs), 'client_calls': steps, 'writes_refused': refused,
        'refused_after_earlier_rows_of_the_call': partial,
        'update_steps_refused_with_OSError': sum(
            1 for h in hs for o in h if o.get('fault') == 'oserror'),
        'model': 'Model/StoreFault.v run_io_f, compared after every call (reply, refused, '
                 'prime, store, stage, indices, tables)',
        'note': 'a catalogue-table write raises OSError once, the process carries on; '
                'structural invariants of the five tables checked after every call and '
                'after the reopen'})
    ctx.count(evaluations=steps, nontrivial_keys=sorted(set(keys)))
    return mine


def write_fault_oracle(h, r):
    hits, refused = [], 0
    names = ('target', 'task', 'alg', 'state', 'value')
    if True:
        prev_idx = None
        for si, (hop, ob) in enumerate(zip(h, r['obs'])):
            bad = None
            refused += bool(ob.get('write_refused'))
            if 'exc' in ob['reply'] and not ob.get('write_refused'):
                bad = ('exception', '%s raised %s in a history with a refused catalogue write'
                       % (hop['op'], ob['reply']['exc']))
            d = ob.get('dump')
            if d and not bad:
                for tn, idx, tbl in zip(names, d['indices'], d['tables']):
                    ids = sorted(i for _, i in tbl)
                    if ids != list(range(len(tbl))):
                        bad = ('catalogue-gap', 'ids of table %s are %s: not 0..n-1' % (tn, ids))
                    elif len(idx) != len(tbl) or any(idx[i] != nm for nm, i in tbl):
                        bad = ('index-not-inverse', 'id->name index of %s %s is not the inverse of the table %s'
                               % (tn, idx, tbl))
                    if bad:
                        break
                if not bad and prev_idx is not None:
                    for tn, old, new, tbl in zip(names, prev_idx, d['indices'], d['tables']):
                        persisted = {nm for nm, _ in tbl}
                        if any(o in persisted and (k >= len(new) or new[k] != o) for k, o in enumerate(old)):
                            bad = ('id-reassigned', 'ids of table %s changed: %s -> %s' % (tn, old, new))
                            break
                if not bad:
                    for key, _f, _b in ob['prime']:
                        ident = key_identity(tuple(key), d['indices'])
                        if isinstance(ident, str):
                            bad = ('chain', 'prime key %s: %s' % (key, ident))
                            break
                prev_idx = d['indices']
            if bad:
                hits.append({'property': 'C08', 'kind': bad[0], 'fields': {'cause': 'refused-catalogue-write'},
                             'what': bad[1], 'ops': h[:si + 1], 'history': h})
                break
    return hits, refused


def run_check(ctx, pid, with_units=False):
    ctx.cov['rule'] = RULES[pid]
    common_trust(ctx)
    if ctx.replay:
        ctx.coq_props()
        replay_one(ctx, pid)
        return
    escalate = fingerprints(ctx)
    r = ctx.coq_props()
    res = study(ctx, pid, escalate)
    mine = [h for h in res['hits'] if h['property'] == pid]
    unit_bad, unit_hits, n_units = None, [], 0
    if with_units:
        n_units, unit_bad, unit_hits = units_study(ctx)
        mine += [h for h in unit_hits if h['property'] == pid]
    if (res['mismatch'] or unit_bad or not r['ok']) and not mine and ctx.quick \
            and not escalate:
        # deeper search before giving up (DESIGN Appendix C)
        ctx.log('escalating the search to thorough depth')
        res2 = study(ctx, pid, True)
        mine = [h for h in res2['hits'] if h['property'] == pid]
    if pid in ('C08', 'C07') and not mine:
        mine += write_fault_study(ctx, pid)
    for h in mine:
        rp = {'source': 'oracle', 'ops': h.get('ops'), 'unit': h.get('unit'),
              'history': h.get('history')}
        ctx.violation(h['kind'], h['fields'], '%s: %s' % (pid, h['what']), rp)
    if not mine:
        if not r['ok']:
            ctx.broken('theorem/file %s' % r['failing'], r['log'],
                       {'source': 'proof', 'theorem': r['failing']})
        if res['mismatch']:
            m = res['mismatch']
            ctx.broken('correspondence: model and implementation disagree at '
                       'step %s of a %s history' % (m['step'], m['kind']),
                       'op=%s\nimpl =%s\nmodel=%s' % (m.get('op'), m['impl'], m['model']),
                       {'source': 'correspondence', 'ops': m['ops'],
                        'expected': m['model'], 'observed': m['impl']})
        if _WF.get('mismatch'):
            m = _WF['mismatch']
            ctx.broken('correspondence: Model/StoreFault.v and the implementation disagree '
                       '(%s) at call %s of a history with a refused catalogue write'
                       % (m.get('what'), m['step']),
                       'op=%s\nimpl =%s\nmodel=%s' % (m.get('op'), m['impl'], m['model']),
                       {'source': 'correspondence', 'ops': m['ops'],
                        'expected': m['model'], 'observed': m['impl']})
        if unit_bad:
            ctx.broken('correspondence: util function disagrees with the model',
                       json.dumps(unit_bad),
                       {'source': 'correspondence', 'unit': unit_bad['unit'],
                        'expected': unit_bad['model'], 'observed': unit_bad['impl']})
        if res.get('oracle_crash'):
            oc = res['oracle_crash']
            ctx.broken('oracle: the observations of a history are too inconsistent '
                       'to evaluate the property', oc['error'],
                       {'source': 'oracle', 'ops': oc['ops']})
        if not res['msv_ok']:
            ctx.broken('harness: MetricStateVector layout differs from the model table',
                       'see Model/StoreIO.v MSV_VALS', {'source': 'correspondence'})
        if not res['sums']['agree']:
            ctx.broken('harness: hashlib stand-in disagrees with md5sum/sha1sum', '',
                       {'source': 'correspondence'})
    ctx.count(evaluations=res['evals'] + n_units,
              nontrivial_keys=res['nontrivial'][pid])
    ctx.note('histories', len(res['hs']))
    ctx.note('history_kinds', {k: sum(1 for kk, _ in res['hs'] if kk == k)
                               for k in ('directed', 'random', 'sweep')})
    ctx.note('operations', res['ops_hist'])
    ctx.note('crash_points_injected', res['crash_points'])
    ctx.note('digest_calls', res['sums'])
    ctx.note('pure_function_units', n_units)
    ctx.note('escalated', bool(escalate))
    ctx.note('not_covered', 'db/post (PostgreSQL); dbm durability at process kill; '
             'cross-device shutil.move; Connector socket framing (C14); '
             '_update_msv (same path as _update); names containing ":"')
    for kind, h in res['hs'][:3]:
        ctx.sample({'kind': kind, 'ops': h[:6]})
