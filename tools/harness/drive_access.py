'''C19 access half: every registered endpoint x HTTP verb x certificate
situation x access hook x client-certificate configuration through the REAL
render path: BaseResource.render -> twisted Resource.render ->
DynamicContent.render_* -> __render -> security.sanctioned -> hook.

Only the handlers are replaced (by recorders with the same call convention):
whether the handler is invoked is the observation.  The request/transport
objects are fakes of twisted's (outside world).  Hooks other than the default
live in a module created here and are selected through
dawgie.context.sanction_override exactly as an operator would.

payload: {"verbs": [...], "hooks": [...], "extra_paths": bool}
result : {"endpoints": [{uri, methods, handler_ok, routed}], "rows": [...]}'''
import json
import logging
import os
import sys
import tempfile
import types

from hcommon import dawgie, payload, result

logging.disable(logging.CRITICAL)
import dawgie.context  # noqa: E402

dawgie.context.fe_path = tempfile.mkdtemp(prefix='c19fe_', dir=os.getcwd())
import dawgie.security  # noqa: E402
import dawgie.fe.basis as B  # noqa: E402
import dawgie.fe  # noqa: E402,F401  (imports fe.api and fe.app: the registrations)
import dawgie.fe.api  # noqa: E402
import dawgie.fe.app  # noqa: E402
import twisted.web.resource  # noqa: E402

P = payload()

# ---- hooks selectable by dotted name -------------------------------------
hooks = types.ModuleType('c19hooks')


def _raises(endpoint, cert):
    raise RuntimeError('hook failure')


def _deny(endpoint, cert):
    return False


def _allow(endpoint, cert):
    return True


def _none(endpoint, cert):
    return None


def _truthy(endpoint, cert):
    return 'yes'


def _only_ae_name(endpoint, cert):
    return endpoint == '/api/ae/name'


def _cert_only(endpoint, cert):
    return cert is not None


def _raise_for_anon(endpoint, cert):
    if cert is None:
        raise KeyError('anonymous')
    return True


hooks.raises, hooks.deny, hooks.allow, hooks.none = _raises, _deny, _allow, _none
hooks.truthy, hooks.only_ae_name, hooks.cert_only = _truthy, _only_ae_name, _cert_only
hooks.raise_for_anon = _raise_for_anon
hooks.not_callable = 42
sys.modules['c19hooks'] = hooks
HOOKS = {
    'default': 'dawgie.security.is_sanctioned',
    'lookup-raises': 'no.such.module.fn',
    'attr-missing': 'dawgie.security.no_such_function',
    'not-callable': 'c19hooks.not_callable',
    'hook-raises': 'c19hooks.raises',
    'deny': 'c19hooks.deny',
    'allow': 'c19hooks.allow',
    'none': 'c19hooks.none',
    'truthy': 'c19hooks.truthy',
    'only-ae-name': 'c19hooks.only_ae_name',
    'cert-only': 'c19hooks.cert_only',
    'raise-for-anon': 'c19hooks.raise_for_anon',
}


# ---- the registered endpoints, as the running resource tree has them ------
def walk(node, prefix=''):
    for name, child in node.children.items():
        p = prefix + '/' + name.decode()
        if isinstance(child, B.DynamicContent):
            yield p, child
        else:
            yield from walk(child, p)


eps = dict(walk(B._root))
ran = []


class RecDefer(B.DeferContainer):
    def __init__(self, uri):
        super().__init__()
        self.uri = uri

    def __call__(self, **kw):
        ran.append(self.uri)
        return b'ok'


def resolve_handler(uri, dc):
    '''(module tag, dotted name) of the object registered as handler'''
    fnc = dc._DynamicContent__fnc
    for tag, mod in (('api', dawgie.fe.api), ('app', dawgie.fe.app)):
        for k, v in vars(mod).items():
            if v is fnc and not k.startswith('__'):
                return '%s.%s' % (tag, k)
        for sk, sv in vars(mod).items():
            if isinstance(sv, types.ModuleType) and sv.__name__.startswith('dawgie.fe'):
                for k, v in vars(sv).items():
                    if v is fnc:
                        return '%s.%s.%s' % (tag, sk, k)
    return None


class Req:
    '''fake of twisted.web.server.Request'''

    def __init__(self, verb, cert, has, path):
        self.method = verb.encode()
        self.transport = Tr(cert) if has else NoPeer()
        self.args = {}
        self.uri = path.encode()
        self.path = path.encode()
        self.prepath = []
        self.postpath = [s.encode() for s in path.lstrip('/').split('/')]
        self.code = 200
        self.headers = {}

    def setResponseCode(self, code, message=None):
        self.code = code

    def setHeader(self, k, v):
        self.headers[k] = v


class Tr:
    def __init__(self, cert):
        self.cert = cert

    def getPeerCertificate(self):
        return self.cert


class NoPeer:
    pass


class Cert:
    '''fake client certificate (only its presence matters to is_sanctioned)'''

    def get_serial_number(self):
        return 0x1234


endpoints = []
for uri, dc in eps.items():
    hname = resolve_handler(uri, dc)
    r = Req('GET', None, True, uri)
    routed = twisted.web.resource.getChildForRequest(B._root, r)
    endpoints.append({
        'uri': uri,
        'registered_uri': dc._DynamicContent__uri,
        'methods': [m.name for m in dc._DynamicContent__methods],
        'handler': hname,
        'routed': routed is dc,
    })
    if isinstance(dc._DynamicContent__fnc, B.DeferContainer):
        dc._DynamicContent__fnc = RecDefer(uri)
    else:
        dc._DynamicContent__fnc = (lambda u: (lambda **k: ran.append(u) or b'ok'))(uri)


def classify(resp, invoked, req):
    if invoked:
        return 'Invoked'
    if isinstance(resp, bytes):
        if resp.startswith(b'500 Internal Service Error'):
            return 'Unsupported'
        try:
            j = json.loads(resp.decode())
        except ValueError:
            return 'Other:' + resp[:40].decode('latin-1')
        if 'requires a client certficate' in str(j.get('message', '')):
            return 'Denied'
        if 'Dynamic Content Lookup Failed' in str(j.get('message', '')):
            return 'NotMapped'
    return 'Other:' + repr(resp)[:60]


rows = []
for clients in (False, True):
    dawgie.security._certs.clear()
    if clients:
        dawgie.security._certs.append(Cert())
    for hook in P['hooks']:
        dawgie.context.sanction_override = HOOKS[hook]
        for has, cert in ((True, None), (False, None), (True, 'c'), (False, 'c')):
            table = {}
            for uri, dc in eps.items():
                outs = []
                for verb in P['verbs']:
                    ran.clear()
                    req = Req(verb, Cert() if cert else None, has, uri)
                    try:
                        resp = dc.render(req)
                    except BaseException as e:  # would reach twisted's error page
                        resp = ('EXC:' + type(e).__name__).encode()
                    outs.append(classify(resp, bool(ran), req))
                    if ran and ran != [uri]:
                        outs[-1] = 'Other:ran %r' % ran
                table[uri] = outs
            rows.append({'clients': clients, 'hook': hook, 'has_gpc': has,
                         'cert': bool(cert), 'table': table})

# ---- routing: sub-paths of a leaf reach the same leaf (and hence the same
# check with the registered uri); the static service answers everything else
extra = []
if P.get('extra_paths'):
    dawgie.security._certs.clear()
    dawgie.security._certs.append(Cert())
    dawgie.context.sanction_override = HOOKS['default']
    for uri, dc in eps.items():
        for path in (uri + '/x', uri + '/', uri + '/../run', '/' + uri, uri.upper()):
            r = Req('GET', None, True, path)
            res = twisted.web.resource.getChildForRequest(B._root, r)
            ran.clear()
            kind = type(res).__name__
            if isinstance(res, B.DynamicContent):
                try:
                    res.render(Req('POST', None, True, path))
                    res.render(Req('GET', None, True, path))
                except BaseException:
                    pass
            extra.append({'path': path, 'resource': kind,
                          'leaf_uri': getattr(res, '_DynamicContent__uri', None),
                          'ran': sorted(set(ran))})
import shutil  # noqa: E402

shutil.rmtree(dawgie.context.fe_path, ignore_errors=True)
result({'endpoints': endpoints, 'rows': rows, 'extra': extra,
        'all_access_runtime': None})
