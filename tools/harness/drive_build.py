'''C15 build half: the REAL dawgie.pl.version.current + dawgie.pl.schedule.build
on generated engines with generated persisted version tables (db.versions()
shape).  Returns graph, tables as ids, and the resulting queue / todo sets.'''
import random

from hcommon import dawgie, payload, result
import engine_mem as engine
import drive_sched as D

import dawgie.pl.schedule as S
import dawgie.pl.version


def run_case(case):
    rng = random.Random('build:%s' % case['seed'])
    desc = engine.random_desc(rng, npk=3, nalg=case.get('nalg', 6), feedback=True)
    # random versions at the three levels
    for pkg, kinds in desc['pkgs'].items():
        for kind, algs in kinds.items():
            for a in algs:
                a['ver'] = (rng.randint(1, 2), rng.randint(0, 11), rng.randint(0, 1))
                for sv in a['svs']:
                    sv['ver'] = (1, rng.randint(0, 11), 0)
                    sv['vals'] = [(vn, (1, rng.randint(0, 11), 0)) for vn, _ in sv['vals']]
    tnames = sorted(case.get('targets', ['T1', 'T2']))
    D.W['targets'] = list(tnames)
    Fs, works = engine.build(desc)
    facs = Fs[dawgie.Factories.analysis] + Fs[dawgie.Factories.regress] + Fs[dawgie.Factories.task]
    latest = dawgie.pl.version.current(facs)
    # persisted tables: for each name keep / bump / forget
    mode = case.get('mode', 'mixed')
    previous = [{}, {}, {}, {}]
    fate = {}
    for lvl in range(3):
        for name, ver in latest[lvl].items():
            r = rng.random()
            if mode == 'none':
                r = 0.0
            if mode == 'all':
                r = 0.99
            if r < 0.62:      # unchanged: current version persisted (plus history)
                hist = [ver]
                if rng.random() < 0.5:
                    hist.insert(0, '0.9.9')
                if rng.random() < 0.3:
                    hist.append(ver)   # repeated entries happen in db.versions()
                fate[name] = 'same'
            elif r < 0.9:     # bumped: only older / confusable versions persisted
                d, i, b = ver.split('.')
                hist = ['%s.%s.%s' % (d, int(i) + 1, b)] if rng.random() < 0.3 else ['0.0.1']
                hist += ['0.%d.%d' % (rng.randint(0, 3), j) for j in range(rng.randint(0, 4))]
                if rng.random() < 0.4:
                    hist.append(ver + '0')   # shares digits: 1.1.0 vs 1.1.00
                fate[name] = 'bumped'
            else:             # unknown name
                hist = None
                fate[name] = 'unknown'
            if hist is not None:
                previous[lvl + 1][name] = hist
    S.pipeline_paused = False
    prior = None
    if case.get('prior'):
        # the (re)load happens in a pipeline that has been working: everything
        # was scheduled by an earlier load, a dispatch released what it could
        # (those jobs are `running`, their units wait in the farm's queue: no
        # worker is registered), and new requests arrived for running jobs.
        # All through the real calls; C15_build_exact speaks about ANY previous
        # state.
        import dawgie.pl.farm as F
        F.clear()
        F.ARCHIVE = False
        F.insights.clear()
        D.W['stored'] = 0
        D.fsm.active = True
        S.build(Fs, latest, [{}, {}, {}, {}])
        F.dispatch()
        tags0 = sorted(D.all_nodes())
        for _ in range(rng.randint(1, 3)):
            S.organize(rng.sample(tags0, rng.randint(1, min(3, len(tags0)))), None,
                       set(rng.sample(tnames, rng.randint(1, len(tnames)))), 'driver')
        if rng.random() < 0.5:
            F.dispatch()
        prior = {'que': [j.tag for j in S.que],
                 'running': [j.tag for j in S.que if j.get('status') is S.State.running],
                 'running_with_todo': [j.tag for j in S.que if j.get('status') is S.State.running and j.get('todo')]}
        D.W['outs'].clear()
    S.build(Fs, latest, previous)
    N = D.all_nodes()
    tags = sorted(N)
    nid = {t: i for i, t in enumerate(tags)}
    tid = {'__all__': 0}
    for i, t in enumerate(tnames):
        tid[t] = i + 1
    graph = {'tags': tags, 'tnames': ['__all__'] + tnames, 'nodes': [], 'fb': [], 'vnames': []}
    for t in tags:
        n = N[t]
        graph['nodes'].append({'kids': [nid[c.tag] for c in n], 'anc': sorted(nid[a] for a in n.get('ancestry')),
                               'fac': D.FACS[n.get('factory').__name__], 'lvl': n.get('level') or 0, 'ins': []})
    # ids for names and version strings
    vers = {}

    def vi(s):
        return vers.setdefault(s, len(vers) + 1)

    def key_ids(d, base):
        return {k: base + i for i, k in enumerate(sorted(d))}

    ka = {k: nid.get(k, 900 + i) for i, k in enumerate(sorted(latest[0]))}
    ks = key_ids(set(latest[1]) | set(previous[2]), 1000)
    kv = key_ids(set(latest[2]) | set(previous[3]), 2000)
    T = {
        'cur_alg': [[ka[k], vi(v)] for k, v in latest[0].items()],
        'cur_sv': [[ks[k], vi(v)] for k, v in latest[1].items()],
        'cur_v': [[kv[k], vi(v)] for k, v in latest[2].items()],
        'per_alg': [[ka.get(k, 999), [vi(v) for v in vs]] for k, vs in previous[1].items()],
        'per_sv': [[ks[k], [vi(v) for v in vs]] for k, vs in previous[2].items()],
        'per_v': [[kv[k], [vi(v) for v in vs]] for k, vs in previous[3].items()],
        'own_sv': [[ks[k], nid.get('.'.join(k.split('.')[:2]), 998)] for k in sorted(ks)],
        'own_v': [[kv[k], nid.get('.'.join(k.split('.')[:2]), 998)] for k in sorted(kv)],
    }
    # an entry of the queue that is not a node of the tree build() just made
    # (left over from the previous engine) is reported by its tag
    obs = {'que': [nid[j.tag] for j in S.que if j.tag in nid and N[j.tag] is j],
           'foreign': [j.tag for j in S.que if not (j.tag in nid and N[j.tag] is j)],
           'nodes': [[sorted(tid[x] for x in N[t].get('todo')), sorted(tid[x] for x in N[t].get('doing')),
                      sorted(tid[x] for x in N[t].get('do')), N[t].get('status').value, N[t].get('runid')]
                     for t in tags]}
    # independent reference: which algorithms have a bumped/unknown name at any level
    expect = sorted({nid['.'.join(k.split('.')[:2])] for k, f in fate.items() if f != 'same'})
    return {'graph': graph, 'tables': T, 'obs': obs, 'expect_changed': expect,
            'fates': sorted(set(fate.values())), 'desc': desc, 'latest': latest, 'previous': previous,
            'prior': prior}


if __name__ == '__main__':
    P = payload()
    result({'cases': [run_case(c) for c in P['cases']]})
