'''C15 end to end: REAL registrations (dawgie.pl.version.record -> shelve.update)
into a REAL shelve catalogue in a temp dir, then the REAL
dawgie.pl.version.current / persistent (= shelve.versions()) and the REAL
dawgie.pl.schedule.build on a generated engine with confusable names.

Nothing of the code under test is re-implemented: the driver only chooses the
inputs (engine descriptor, which versions were registered in earlier runs) and
records (a) the arguments every shelve.update received (the identities that
were registered), (b) what current()/versions() returned, (c) queue and todo
sets after build.

payload: {'cases': [{'seed': s, 'nalg': n}]}
result : {'cases': [{'graph', 'tags', 'engine', 'idents', 'latest',
                     'previous', 'obs', 'fates', 'desc'}]}'''
import copy
import os
import random
import shutil
import tempfile

from hcommon import dawgie, payload, result
import engine_mem as engine
import drive_sched as D

import dawgie.context
import dawgie.db
import dawgie.db.shelve
import dawgie.pl.schedule as S
import dawgie.pl.version
import dawgie.util
from dawgie.db.shelve.state import DBI

import dawgie.pl.dag  # noqa: E402

# graphviz rendering of the task trees by dag.Construct (an external program,
# 4 spawns of ~0.2 s per build): real for the first cases, then a stub
_real_write_svg = dawgie.pl.dag.pydot.Dot.write_svg


def _fake_svg(self, fn, *a, **k):
    with open(fn, 'wb') as f:
        f.write(b'<svg/>')
    return True


KINDS = ('analysis', 'regress', 'task')     # the order build's caller lists the factories

LOG = []
_real_update = dawgie.db.shelve.update


def _vt(x):
    return [x.design(), x.implementation(), x.bugfix()]


def _update(tsk, alg, sv, vn, v):
    # what was asked to be registered, as the real code passes it down
    LOG.append([tsk._name(), alg.name(), _vt(alg), sv.name(), _vt(sv), vn, _vt(v)])
    return _real_update(tsk, alg, sv, vn, v)


dawgie.db.shelve.update = _update


def algs_of(desc):
    for pkg, kinds in desc['pkgs'].items():
        for kind, algs in kinds.items():
            for a in algs:
                yield pkg, kind, a


def assign(rng, a):
    '''a full version assignment of one algorithm'''
    return {'ver': (rng.randint(1, 2), rng.randint(0, 11), rng.randint(0, 1)),
            'svs': {sv['name']: ((1, rng.randint(0, 11), 0),
                                 {vn: (1, rng.randint(0, 11), 0) for vn, _ in sv['vals']})
                    for sv in a['svs']}}


def apply(a, asg):
    a['ver'] = tuple(asg['ver'])
    for sv in a['svs']:
        sver, vals = asg['svs'][sv['name']]
        sv['ver'] = tuple(sver)
        sv['vals'] = [(vn, tuple(vals[vn])) for vn, _ in sv['vals']]


def other(rng, v):
    '''a version different from v, often sharing digits with it'''
    d, i, b = v
    return rng.choice([(d, i + 1, b), (d, i, b + 1), (d + 1, i, b), (d, i * 10 + 1, b), (d, i, b + 10), (0, 0, 1)])


def history(rng, a, cur, mode):
    '''the assignments earlier runs registered for algorithm a, and its fate'''
    r = rng.random()
    if mode == 'all':
        r = 0.0
    if mode == 'none':
        r = 0.99
    if r < 0.40:
        hist = [copy.deepcopy(cur)]
        if rng.random() < 0.5:
            hist.insert(0, assign(rng, a))
        if rng.random() < 0.3:
            hist.append(copy.deepcopy(cur))
        return hist, 'same'
    if r < 0.50:
        # every version registered, never together: still unchanged
        h1, h2 = copy.deepcopy(cur), copy.deepcopy(cur)
        h1['ver'] = other(rng, cur['ver'])
        for sn in h2['svs']:
            sver, vals = h2['svs'][sn]
            h2['svs'][sn] = (other(rng, sver), dict(vals))
            h1['svs'][sn] = (h1['svs'][sn][0], {k: other(rng, v) for k, v in vals.items()})
        h3 = copy.deepcopy(cur)
        h3['ver'] = other(rng, cur['ver'])
        for sn in h3['svs']:
            h3['svs'][sn] = (other(rng, h3['svs'][sn][0]), h3['svs'][sn][1])
        hs = [h1, h2, h3]
        rng.shuffle(hs)
        return hs, 'same-split'
    if r < 0.62:
        hist = [copy.deepcopy(cur) for _ in range(rng.randint(1, 2))]
        for h in hist:
            h['ver'] = other(rng, cur['ver'])
        return hist, 'alg'
    if r < 0.76:
        sn = rng.choice(sorted(cur['svs']))
        hist = [copy.deepcopy(cur) for _ in range(rng.randint(1, 2))]
        for h in hist:
            h['svs'][sn] = (other(rng, cur['svs'][sn][0]), h['svs'][sn][1])
        return hist, 'sv'
    if r < 0.90:
        sn = rng.choice(sorted(cur['svs']))
        vn = rng.choice(sorted(cur['svs'][sn][1]))
        hist = [copy.deepcopy(cur) for _ in range(rng.randint(1, 2))]
        for h in hist:
            vals = dict(h['svs'][sn][1])
            vals[vn] = other(rng, vals[vn])
            h['svs'][sn] = (h['svs'][sn][0], vals)
        return hist, 'value'
    return [], 'never'


def run_case(case):
    rng = random.Random('buildnames:%s' % case['seed'])
    desc = engine.random_desc(rng, npk=3, nalg=case.get('nalg', 6), feedback=True, confusable=0.85)
    mode = case.get('mode', 'mixed')
    cur, hist, fate = {}, {}, {}
    for pkg, kind, a in algs_of(desc):
        key = (pkg, kind, a['name'])
        cur[key] = assign(rng, a)
        hist[key], fate[key] = history(rng, a, cur[key], mode)
        apply(a, cur[key])
    tnames = sorted(case.get('targets', ['T1', 'T2']))
    D.W['targets'] = list(tnames)
    root = tempfile.mkdtemp(prefix='dvbn_')
    try:
        for s in ('db', 'dbs', 'stg'):
            os.makedirs(os.path.join(root, s))
        dawgie.context.db_impl = 'shelve'
        dawgie.context.db_path = root + '/db'
        dawgie.context.data_dbs = root + '/dbs'
        dawgie.context.data_stg = root + '/stg'
        DBI().open()
        del LOG[:]
        # ---- earlier runs: workers record the versions they ran with -------
        rounds = max([len(h) for h in hist.values()] + [0])
        order = list(range(rounds))
        for r in order:
            variant = copy.deepcopy(desc)
            todo = []
            for pkg, kind, a in algs_of(variant):
                h = hist[(pkg, kind, a['name'])]
                if r < len(h):
                    apply(a, h[r])
                    todo.append((pkg, kind, a['name']))
            rng.shuffle(todo)
            Fs, _works = engine.build(variant)
            byname = {}
            for lst in Fs.values():
                for f in lst:
                    byname[(dawgie.util.task_name(f), f.__name__)] = f
            for pkg, kind, an in todo:
                f = byname[(pkg, kind)]
                task = f(dawgie.util.task_name(f))
                dawgie.pl.version.record(task, only=an)
        idents = [list(x) for x in LOG]
        # ---- the (re)load --------------------------------------------------
        Fs, _works = engine.build(desc)
        facs = Fs[dawgie.Factories.analysis] + Fs[dawgie.Factories.regress] + Fs[dawgie.Factories.task]
        latest = dawgie.pl.version.current(facs)
        try:
            previous = dawgie.pl.version.persistent()
        except Exception as e:  # pylint: disable=broad-except
            return {'exc': 'versions: ' + type(e).__name__, 'idents': idents, 'desc': desc}
        S.pipeline_paused = False
        S.build(Fs, latest, previous)
    finally:
        DBI().close()
        shutil.rmtree(root, ignore_errors=True)
    N = D.all_nodes()
    tags = sorted(N)
    nid = {t: i for i, t in enumerate(tags)}
    tid = {'__all__': 0}
    for i, t in enumerate(tnames):
        tid[t] = i + 1
    graph = {'tags': tags, 'tnames': ['__all__'] + tnames, 'nodes': [], 'fb': [], 'vnames': []}
    for t in tags:
        n = N[t]
        graph['nodes'].append({'kids': [nid[c.tag] for c in n], 'anc': sorted(nid[a] for a in n.get('ancestry')),
                               'fac': D.FACS[n.get('factory').__name__], 'lvl': n.get('level') or 0, 'ins': []})
    obs = {'que': [nid[j.tag] for j in S.que],
           'nodes': [[sorted(tid[x] for x in N[t].get('todo')), sorted(tid[x] for x in N[t].get('doing'))]
                     for t in tags]}
    # the engine as the input descriptor gives it, in the order the factories are listed
    eng = []
    for kind in KINDS:
        for pkg, kinds in desc['pkgs'].items():
            if kind in kinds:
                eng.append([pkg, [[a['name'], list(a['ver']),
                                   [[sv['name'], list(sv['ver']), [[vn, list(vv)] for vn, vv in sv['vals']]]
                                    for sv in a['svs']]] for a in kinds[kind]]])
    return {'graph': graph, 'tags': tags, 'engine': eng, 'idents': idents,
            'latest': [sorted(d.items()) for d in latest],
            'previous': [sorted(previous[0])] + [sorted((k, list(v)) for k, v in d.items()) for d in previous[1:]],
            'obs': obs, 'fates': {'.'.join([k[0], k[2]]): v for k, v in fate.items()}, 'desc': desc}


if __name__ == '__main__':
    P = payload()
    out = []
    for i, c in enumerate(P['cases']):
        dawgie.pl.dag.pydot.Dot.write_svg = _real_write_svg if i < P.get('real_dot', 2) else _fake_svg
        out.append(run_case(c))
    result({'cases': out})
