'''C18: run the REAL dawgie.pl.logger.chronicle (append/find) and
dawgie.pl.schedule.complete on generated histories.

payload: {"cases": [{"appends": [A...], "queries": [Q...]}]}
  A = {"id": n, "completed": [Y,M,D,h,m,s,us], "runid": r, "status": "success|failure|invalid",
       "target": str, "task": str, "via": "datetime" | "string" | "complete"}
        datetime: chronicle.append with timing.completed a datetime (UTC)
        string  : chronicle.append with timing.completed = str(datetime) (what schedule.complete hands over)
        complete: schedule.complete(job, runid, target, timing, State[status]) under a clock frozen at `completed`
  Q = {"after": DT|null, "before": DT|null, "limit": n|null, "succeeded": bool, "now": DT,
       "relabel": bool}      # relabel: the caller then relabels the returned dicts in place, as
                             # fe.api.df_model_statistics does (known['status'] = 'failed'/'succeeded')
    | {"kind": "stats", "node": str, "boot": DT, "now": DT}      # the REAL dawgie.fe.api.df_model_statistics
    | {"kind": "api", "which": "failed"|"succeeded", "before": DT|null, "limit": n|null, "now": DT}
                             # the REAL dawgie.fe.api.schedule.failed / succeeded (HTTP argument lists)
result per case:
  {"files": {"YYYY/MM/DD/<runid>.json": [ids...]},   # the journal after all appends, entries in file order
   "after_each": [[path, [ids...]] ...]              # the file touched by each append, after it
   "entries": {id: {...recorded fields...}},
   "answers": [{"ok": [ids...]} | {"exc": "ValueError"}]}

Outside world arranged here: a temp data_dbs directory, frozen clocks
(chronicle.datetime.now, schedule.datetime.datetime.now), a stand-in job
object for schedule.complete.  No chronicle logic is re-implemented.'''
import datetime as _dt
import json
import logging
import os
import shutil
import tempfile

from hcommon import dawgie, payload, result

logging.disable(logging.CRITICAL)

import dawgie.context  # noqa: E402
import dawgie.pl.logger.chronicle as C  # noqa: E402

UTC = _dt.UTC
REAL = _dt.datetime


class Frozen(REAL):
    _now = None

    @classmethod
    def now(cls, tz=None):
        return cls._now


def frozen(dt):
    return Frozen(*dt, tzinfo=UTC)


# chronicle tests isinstance(value, datetime) with ITS name `datetime`, which
# is the frozen subclass while the driver runs: hand over instances of it
mk = frozen


class Alg:
    def asstring(self):
        return '1.0.0'


class Job:
    '''what schedule.complete touches of a dag node'''

    def __init__(self, tag, target):
        self.tag = tag
        self._d = {'doing': {target}, 'todo': set(), 'alg': Alg(), 'status': None}

    def get(self, k):
        return self._d[k]

    def set(self, k, v):
        self._d[k] = v


def snapshot(root):
    out = {}
    base = os.path.join(root, 'chronicles')
    for dp, _dn, fns in os.walk(base):
        for fn in fns:
            p = os.path.join(dp, fn)
            rel = os.path.relpath(p, base)
            out[rel] = [int(e['changeset'][1:]) for e in json.load(open(p))]
    return out


def run_case(case, root):
    dawgie.context.data_dbs = root
    C.datetime = Frozen
    sched = None
    entries = {}
    after_each = []
    for a in case['appends']:
        when = mk(a['completed'])
        dawgie.context.git_rev = 'c%d' % a['id']
        if a['via'] == 'complete':
            if sched is None:
                import dawgie.pl.schedule as sched_mod
                sched = sched_mod
            job = Job(a['task'], a['target'])
            sched.que.append(job)
            real_mod_dt = sched.datetime.datetime
            Frozen._now = frozen(a['completed'])
            sched.datetime.datetime = Frozen
            try:
                sched.complete(job, a['runid'], a['target'],
                               {'started': mk(a['completed']) - _dt.timedelta(seconds=5)},
                               sched.State[a['status']])
            finally:
                sched.datetime.datetime = real_mod_dt
            if job in sched.que:
                raise SystemExit('complete left the job queued')
        else:
            completed = when if a['via'] == 'datetime' else str(when)
            C.append({'changeset': 'c%d' % a['id'], 'runid': a['runid'], 'status': a['status'],
                      'target': a['target'], 'task': a['task'],
                      'timing': {'completed': completed}, 'version': '1.0.0'})
        rel = '%04d/%02d/%02d/%d.json' % (a['completed'][0], a['completed'][1], a['completed'][2], a['runid'])
        snap = snapshot(root)
        after_each.append([rel, snap.get(rel), sum(len(v) for v in snap.values())])
    files = snapshot(root)
    base = os.path.join(root, 'chronicles')
    for rel in files:
        for e in json.load(open(os.path.join(base, rel))):
            entries[int(e['changeset'][1:])] = {
                'runid': e['runid'], 'status': e['status'], 'target': e['target'],
                'task': e['task'], 'completed': e['timing']['completed'],
                'version': e['version'], 'keys': sorted(e)}
    answers = []
    for q in case['queries']:
        Frozen._now = frozen(q['now'])
        if q.get('kind') == 'stats':
            import dawgie.fe.api as API
            dawgie.context.boot_time = mk(q['boot'])
            try:
                r = json.loads(API.df_model_statistics([q['node']]))
                answers.append({'stats': r['content'], 'status': r['status']})
            except Exception as e:
                answers.append({'exc': type(e).__name__, 'msg': str(e)[:200]})
            continue
        if q.get('kind') == 'api':
            import dawgie.fe.api.schedule as APIS
            kw = {}
            if q['before'] is not None:
                kw['before'] = [mk(q['before']).isoformat()]
            if q['limit'] is not None:
                kw['limit'] = [str(q['limit'])]
            try:
                r = json.loads(getattr(APIS, q['which'])(**kw))
                answers.append({'ok': [int(e['changeset'][1:]) for e in r['content']], 'type': 'api',
                                'labels': sorted(set(e['status'] for e in r['content']))})
            except Exception as e:
                answers.append({'exc': type(e).__name__, 'msg': str(e)[:200]})
            continue
        kw = {'succeeded': q['succeeded']}
        if q['after'] is not None:
            kw['after'] = mk(q['after'])
        if q['before'] is not None:
            kw['before'] = mk(q['before'])
        if q['limit'] is not None:
            kw['limit'] = q['limit']
        try:
            r = C.find(**kw)
            answers.append({'ok': [int(e['changeset'][1:]) for e in r], 'type': type(r).__name__,
                            'labels': sorted(set(e['status'] for e in r))})
            if q.get('relabel'):
                for e in r:
                    e['status'] = 'succeeded' if q['succeeded'] else 'failed'
        except Exception as e:  # the class is the observation
            answers.append({'exc': type(e).__name__, 'msg': str(e)[:200]})
    return {'files': files, 'after_each': after_each, 'entries': entries, 'answers': answers}


P = payload()
out = []
for case in P['cases']:
    root = tempfile.mkdtemp(prefix='c18_')
    try:
        out.append(run_case(case, root))
    finally:
        shutil.rmtree(root, ignore_errors=True)
C.datetime = REAL
result({'cases': out})
