'''C14/C13 driver, client (blocking socket) side of the framing: the REAL
dawgie.pl.message.send / receive, dawgie.db.shelve.comms.Connector.__do,
comms.acquire and comms.release on a fake socket.

Outside world replaced: the socket (recv(k) hands out at most k bytes and never
crosses the chunk boundaries the case dictates; an exhausted socket returns b''
and, after a few of those, raises Spin -- the real loops would spin for ever),
dawgie.security.connect (returns the fake socket), pickle.loads (recording shim;
the case's short alias payloads are mapped to real objects).

payload: {'alias': {hex: spec}, 'cases': [case]}
 case: {'fn': 'receive', 'k': n, 'chunks': [hex]}
       {'fn': 'send', 'spec': spec}
       {'fn': 'do', 'spec': spec, 'chunks': [hex]}
       {'fn': 'acquire', 'chunks': [hex]} | {'fn': 'release', 'chunks': [hex]}
result: {'cases': [{'sent': [hex], 'got': [hex], 'left': [hex], 'closed': bool,
                    'exc': name|None, 'dumped': [hex]}]}
'''
import logging
import pickle as real_pickle
import types

from hcommon import dawgie, payload, result

import dawgie.security
import dawgie.pl.message as M
import dawgie.db.shelve.comms as C

logging.disable(logging.CRITICAL)
P = payload()
ALIAS = {bytes.fromhex(h): s for h, s in P.get('alias', {}).items()}


def build(spec):
    k = spec['kind']
    if k == 'cmd':
        return C.COMMAND(C.Func[spec['func']], None, None, spec.get('value'))
    if k == 'msg':
        return M.make(typ=M.Type[spec['type']], rev=spec.get('rev'))
    if k == 'mutex':
        return C.Mutex[spec['name']]
    if k == 'obj':
        return spec.get('value')
    raise ValueError(k)


class Spin(Exception):
    pass


class Sock:
    def __init__(self, chunks):
        self.chunks = [bytes.fromhex(c) for c in chunks]
        if any(len(c) == 0 for c in self.chunks):
            raise ValueError('empty chunk')
        self.sent, self.closed, self.spins = [], False, 0

    def recv(self, k):
        if k <= 0:
            raise ValueError('recv(%d)' % k)
        if not self.chunks:
            self.spins += 1
            if self.spins > 3:
                raise Spin()
            return b''
        c = self.chunks[0]
        if k < len(c):
            self.chunks[0] = c[k:]
            return c[:k]
        self.chunks.pop(0)
        return c

    def sendall(self, b):
        self.sent.append(bytes(b))

    def close(self):
        self.closed = True


GOT, DUMPED = [], []


def _loads(b, *a, **k):
    b = bytes(b)
    GOT.append(b)
    if b in ALIAS:
        return build(ALIAS[b])
    return real_pickle.loads(b, *a, **k)


def _dumps(o, *a, **k):
    b = real_pickle.dumps(o, *a, **k)
    DUMPED.append(b)
    return b


shim = types.SimpleNamespace(loads=_loads, dumps=_dumps,
                             HIGHEST_PROTOCOL=real_pickle.HIGHEST_PROTOCOL)
M.pickle = shim          # message.dumps / message.loads go through pickle.*
C.pickle = shim

if 'pickles' in P:
    result({'pickles': [real_pickle.dumps(build(s), real_pickle.HIGHEST_PROTOCOL).hex()
                        for s in P['pickles']]})
    raise SystemExit(0)

out = []
for case in P['cases']:
    del GOT[:], DUMPED[:]
    s = Sock(case.get('chunks', []))
    dawgie.security.connect = lambda address, _s=s: _s
    exc = None
    ret = None
    try:
        fn = case['fn']
        if fn == 'receive':
            for _ in range(case['k']):
                M.receive(s)
        elif fn == 'send':
            M.send(build(case['spec']), s)
        elif fn == 'do':
            C.Connector._Connector__do(build(case['spec']))
        elif fn == 'acquire':
            ret = C.acquire('client')
            if ret is not s:
                exc = 'acquire returned something else'
        elif fn == 'release':
            ret = C.release(s)
        else:
            raise ValueError(fn)
    except Spin:
        exc = 'Spin'
    except Exception as e:  # pylint: disable=broad-except
        exc = type(e).__name__
    out.append({'sent': [b.hex() for b in s.sent], 'got': [b.hex() for b in GOT],
                'left': [c.hex() for c in s.chunks], 'closed': s.closed, 'exc': exc,
                'dumped': [b.hex() for b in DUMPED],
                'ret': repr(ret) if fn == 'release' else None})
result({'cases': out})
