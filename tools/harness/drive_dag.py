'''C09: run the REAL dawgie.pl.dag.Construct on in-memory engines built from
descriptors and dump everything the scheduler (and the property) looks at.

payload: {"cases": [descriptor, ...], "real_dot": k}
  the first k cases shell out to graphviz ``dot`` as the real code does; for
  the others pydot.Dot.write_svg (the outside world) is replaced by a stub that
  writes a placeholder file (Construct.graph only reads the bytes back).
result:  {"cases": [observation, ...]}
'''
import logging
import shutil
import tempfile

from hcommon import dawgie, payload, result

import engine_gen

import dawgie.context
import dawgie.pl.dag
import dawgie.pl.schedule
import dawgie.util
import dawgie.util.refs
import pydot

logging.disable(logging.CRITICAL)

# line coverage of the anchored modules during this run (generator quality is
# measured, not assumed -- DESIGN section 2)
import os
import sys

_HIT = set()
_FILES = {os.path.realpath(dawgie.pl.dag.__file__): 'pl/dag.py',
          os.path.realpath(dawgie.util.refs.__file__): 'util/refs.py'}


def _on_line(code, line):
    f = _FILES.get(code.co_filename) or _FILES.get(os.path.realpath(code.co_filename))
    if f:
        _HIT.add((f, line))
    return sys.monitoring.DISABLE


def _executable(path):
    out = set()
    todo = [compile(open(path).read(), path, 'exec')]
    while todo:
        c = todo.pop()
        if c.co_flags & 0x1:     # function bodies only (not class / module)
            out.update(ln for _, _, ln in c.co_lines()
                       if ln is not None and ln != c.co_firstlineno)
        todo.extend(k for k in c.co_consts if hasattr(k, 'co_lines'))
    # a def line itself executes at import time, not during the run
    return out


if hasattr(sys, 'monitoring'):
    sys.monitoring.use_tool_id(sys.monitoring.COVERAGE_ID, 'dv_c09')
    sys.monitoring.register_callback(sys.monitoring.COVERAGE_ID,
                                     sys.monitoring.events.LINE, _on_line)
    sys.monitoring.set_events(sys.monitoring.COVERAGE_ID, sys.monitoring.events.LINE)

P = payload()
TMP = tempfile.mkdtemp(prefix='dv_dag_')
_real_write_svg = pydot.Dot.write_svg


def _stub_write_svg(self, path, *a, **k):
    with open(path, 'wb') as f:
        f.write(b'<svg/>')
    return True


def walk(roots):
    '''short nodes reachable from the given roots, first-seen order'''
    seen, order, todo = {}, [], list(roots)
    while todo:
        n = todo.pop(0)
        if n.tag in seen:
            continue
        seen[n.tag] = n
        order.append(n)
        todo.extend(c for c in n)
    return order


def dump_tree(roots, with_anc):
    nodes = {}
    for n in walk(roots):
        d = {'kids': [c.tag for c in n],
             'fb': sorted(f.tag for f in n.get('feedback')),
             'lvl': n.get('level')}
        if with_anc:
            d['anc'] = sorted(n.get('ancestry') or ())
            d['par'] = sorted(p.tag for p in (n.get('parents') or ()))
            f = n.get('factory')
            d['fac'] = f.__name__ if f is not None else None
            a = n.get('alg')
            d['alg'] = a.name() if a is not None else None
            # what the scheduler derives from the node's algorithm object
            d['asp'] = dawgie.pl.schedule._is_asp(n) if f is not None else None
            d['ins'] = [dawgie.util.vref_as_name(v) for v in
                        dawgie.util.as_vref(dawgie.pl.schedule._priors(a))]
            d['outs'] = ['.'.join([n.tag, sv.name(), k])
                         for sv in a.state_vectors() for k in sv]
        nodes[n.tag] = d
    return {'roots': [r.tag for r in roots], 'nodes': nodes}


def observe(desc):
    F, works = engine_gen.to_python(desc, TMP)
    obs = {'selfcheck': [repr(x) for x in engine_gen.self_check(desc, F)]}
    try:
        C = dawgie.pl.dag.Construct(F)
    except Exception as e:  # noqa: BLE001  (the observation IS the exception)
        obs['exc'] = type(e).__name__
        return obs
    obs['exc'] = None
    flat = C._flat  # pylint: disable=protected-access
    obs['flat'] = list(flat.keys())
    obs['roots'] = [r.tag for r in C._roots]  # set iteration order (oracle)
    obs['v'] = {
        k: {'kids': [c.tag for c in n],
            'par': sorted(p.tag for p in n.get('parents')),
            'anc': sorted(n.get('ancestry')),
            'fb': [f.tag for f in n.get('feedback')],  # set iteration order
            'lvl': n.get('level'),
            'fac': n.get('factory').__name__,
            'alg': n.get('alg').name()}
        for k, n in flat.items()}
    obs['feedbacks'] = [[k, v] for k, v in C.feedbacks.items()]
    obs['vt'] = [r.tag for r in C.vt]
    obs['at'] = dump_tree(C.at, True)
    obs['svt'] = dump_tree(C.svt, False)
    obs['tt'] = dump_tree(C.tt, False)
    # what the scheduler reads through the public helpers
    obs['iter'] = {r.tag: [e.tag for e in r.iter()] for r in C.at}
    roots_at = {r.tag: r for r in C.at}
    obs['locate'] = {t: sum(len(r.locate(t)) for r in roots_at.values())
                     for t in obs['at']['nodes']}
    obs['getitem'] = {}
    for k in list(flat.keys())[:3]:
        obs['getitem'][k] = [n.tag for n in C[k]]
        short = '.'.join(k.split('.')[:2])
        obs['getitem'][short] = [n.tag for n in C[short]]
    return obs


out = []
for i, desc in enumerate(P['cases']):
    pydot.Dot.write_svg = (_real_write_svg if i < P.get('real_dot', 0)
                           else _stub_write_svg)
    out.append(observe(desc))
pydot.Dot.write_svg = _real_write_svg
shutil.rmtree(TMP, ignore_errors=True)
cov = {}
if hasattr(sys, 'monitoring'):
    sys.monitoring.set_events(sys.monitoring.COVERAGE_ID, 0)
    for path, short in _FILES.items():
        ex = _executable(path)
        hit = {ln for f, ln in _HIT if f == short}
        cov[short] = {'executable': len(ex), 'hit': len(ex & hit),
                      'missed': sorted(ex - hit)[:60]}
result({'cases': out, 'coverage': cov})
