'''C20: drive the REAL dawgie.pl.schedule._delay / periodics / defer /
next_job_batch / complete under an injected clock and a fake reactor.

Fakes (outside world only): the `datetime` name inside dawgie.pl.schedule is
replaced by a namespace whose datetime.now() returns the case's instant (the
global datetime module is left alone); twisted.internet.reactor.callLater
records the requested delay; dawgie.db.targets returns the case's targets;
farm.dispatch is represented by its one relevant line (status := running
after next_job_batch, `do` consumed).

payload:
  ordinals : [[y,m,d],...]                      -> toordinal, isoweekday
  specs    : [{boot|day|dom|dow, time}, ...]    event specifications
  sweep    : {"instants": [[y,m,d,h,mi,s,us],...], "specs": [index,...]}
  hourly   : {"from":[y,m,d], "to":[y,m,d], "step_h": n, "specs":[index,...]}
  boot     : [[spec index, [instants...]], ...] repeated evaluation, booted kept
  scenarios: [{"events": [[node, spec index],...], "targets": [...],
               "steps": [[op, args...], ...]}, ...]
'''
import datetime
import logging
import os
import sys
import tempfile
import types

from hcommon import dawgie, payload, result

logging.disable(logging.CRITICAL)
import dawgie.context  # noqa: E402

TMP = tempfile.mkdtemp(prefix='c20_', dir=os.getcwd())
dawgie.context.fe_path = TMP
dawgie.context.data_dbs = TMP
dawgie.context.data_log = TMP
import dawgie.db  # noqa: E402
import dawgie.pl.schedule as S  # noqa: E402
import dawgie.util  # noqa: E402
import dawgie.util.names  # noqa: E402
import twisted.internet.reactor as R  # noqa: E402
import dawgie.pl.dag  # noqa: E402

# graphviz rendering of the task trees (outside world, slow): not needed
def _fake_svg(self, fn, *a, **k):
    with open(fn, 'wb') as f:
        f.write(b'<svg/>')
    return True


dawgie.pl.dag.pydot.Dot.write_svg = _fake_svg

P = payload()
REAL = datetime.datetime
UTC = datetime.UTC


class Clock(REAL):
    _now = None

    @classmethod
    def now(cls, tz=None):
        return cls._now


# only the name `datetime` inside dawgie.pl.schedule is redirected
S.datetime = types.SimpleNamespace(
    datetime=Clock, UTC=UTC, timedelta=datetime.timedelta,
    date=datetime.date, time=datetime.time)


def instant(v):
    y, m, d, h, mi, s, us = v
    return REAL(y, m, d, h, mi, s, us, tzinfo=UTC)


class _UnitAlg(dawgie.Algorithm):
    '''the algorithm an event belongs to when _delay is evaluated on its own
    (dawgie.schedule always gets the factory and an instance of the algorithm)'''

    def __init__(self):
        dawgie.Algorithm.__init__(self)
        self._version_ = dawgie.VERSION(1, 0, 0)

    def name(self):
        return 'unit'


def _unit_factory(*_a, **_k):
    return None


def mk_event(spec, factory=None, impl=None):
    if impl is None:
        factory, impl = _unit_factory, _UnitAlg()
    kw = {}
    if 'boot' in spec:
        kw['boot'] = spec['boot']
    if 'day' in spec:
        kw['day'] = datetime.date(*spec['day'])
    if 'dom' in spec:
        kw['dom'] = spec['dom']
    if 'dow' in spec:
        kw['dow'] = spec['dow']
    if spec.get('time') is not None:
        kw['time'] = datetime.time(*spec['time'])
    return dawgie.schedule(factory, impl, **kw)


def us_of(td):
    return (td.days * 86400 + td.seconds) * 1000000 + td.microseconds


def run_delay(ev):
    try:
        return us_of(S._delay(ev))
    except S._DelayNotKnowableError:
        return 'NotKnowable'
    except BaseException as e:  # recorded by class name
        return 'exc:' + type(e).__name__


out = {}
out['ordinals'] = [
    [datetime.date(*x).toordinal(), datetime.date(*x).isoweekday()]
    for x in P.get('ordinals', [])]

SPECS = P.get('specs', [])
EVS = []
accepted = []
for sp in SPECS:
    try:
        EVS.append(mk_event(sp))
        accepted.append(True)
    except ValueError:
        EVS.append(None)
        accepted.append(False)
out['schedule_accepts'] = accepted

# ---- compliant.rule_10 on a module whose events() returns every spec -------
try:
    import dawgie.tools.compliant as COMPL
    mod = types.ModuleType('c20_rule10_mod')
    r10 = []
    for ev in EVS:
        mod.events = (lambda e: (lambda: [e]))(ev)
        sys.modules['c20_rule10_mod'] = mod
        r10.append(bool(COMPL.rule_10('c20_rule10_mod')) if ev is not None else None)
    out['rule_10'] = r10
except BaseException as e:  # reported, the check decides
    out['rule_10'] = 'exc:' + type(e).__name__ + ':' + str(e)[:200]

# ---- malformed specifications: whatever dawgie.schedule AND rule_10 let
#      through must be computable at every instant ---------------------------
mal = []
for sp in P.get('malformed', []):
    rec = {'spec': sp}
    try:
        kw = dict(sp)
        if isinstance(kw.get('day'), list):
            kw['day'] = datetime.date(*kw['day'])
        if isinstance(kw.get('time'), list):
            kw['time'] = datetime.time(*kw['time'])
        ev = dawgie.schedule(_unit_factory, _UnitAlg(), **kw)
        rec['schedule'] = True
    except Exception as e:  # pylint: disable=broad-except
        rec['schedule'] = False
        rec['why'] = type(e).__name__
        mal.append(rec)
        continue
    try:
        mod = types.ModuleType('c20_rule10_mal')
        mod.events = (lambda e: (lambda: [e]))(ev)
        sys.modules['c20_rule10_mal'] = mod
        rec['rule_10'] = bool(COMPL.rule_10('c20_rule10_mal'))
    except BaseException as e:  # an exception inside a rule counts as a failed rule
        rec['rule_10'] = False
        rec['rule_10_exc'] = type(e).__name__
    outs = []
    for v in P.get('malformed_instants', []):
        Clock._now = instant(v)
        S.booted.clear()
        try:
            S._delay(ev)
            outs.append('ok')
        except S._DelayNotKnowableError:
            outs.append('NotKnowable')
        except BaseException as e:  # recorded by class name
            outs.append('exc:' + type(e).__name__)
    rec['delay'] = outs
    mal.append(rec)
out['malformed'] = mal

# ---- sweep -----------------------------------------------------------------
sw = P.get('sweep')
if sw:
    rows = []
    for v in sw['instants']:
        Clock._now = instant(v)
        row = []
        for k in sw['specs']:
            S.booted.clear()
            row.append(run_delay(EVS[k]))
        rows.append(row)
    out['sweep'] = rows

hr = P.get('hourly')
if hr:
    t = REAL(*hr['from'], 0, hr.get('minute', 0), hr.get('second', 0),
             hr.get('us', 0), tzinfo=UTC)
    end = REAL(*hr['to'], tzinfo=UTC)
    step = datetime.timedelta(hours=hr['step_h'])
    rows = []
    evs = [EVS[k] for k in hr['specs']]
    while t < end:
        Clock._now = t
        rows.append([run_delay(e) for e in evs])
        t += step
    out['hourly'] = rows

bt = []
for k, instants in P.get('boot', []):
    S.booted.clear()
    seq = []
    for v in instants:
        Clock._now = instant(v)
        seq.append([run_delay(EVS[k]), len(S.booted)])
    bt.append(seq)
out['boot'] = bt

# ---- scenarios: periodics / defer / dispatch / complete ---------------------
if P.get('scenarios'):
    import test_15 as T

    dawgie.util.task_name = T._mock_task_name
    dawgie.util.names.task_name = T._mock_task_name
    timers = []

    class DelayedCall:
        '''what reactor.callLater hands back (IDelayedCall): pending until it
        fires or is cancelled; inside its own callback it is no longer active'''

        def __init__(self, delay):
            self.delay, self.called, self.cancelled = delay, False, False
            # the instant it will fire (seconds since the epoch, frozen clock)
            self.due = Clock._now.timestamp() + delay

        def active(self):
            return not (self.called or self.cancelled)

        def cancel(self):
            self.cancelled = True
            timers[:] = [t for t in timers if t[3] is not self]

        def getTime(self):
            return self.delay

    def _call_later(delay, f, *a, **k):
        dc = DelayedCall(delay)
        timers.append((delay, f, a, dc))
        return dc

    R.callLater = _call_later
    WORK = {'root': (T.task, T._root), 'A': (T.task, T._A), 'B': (T.task, T._B),
            'C': (T.task, T._C), 'D': (T.regress, T._D), 'E': (T.analysis, T._E)}
    import dawgie.pl.logger.chronicle as CH

    CH.append = lambda *a, **k: None  # the execution history is not under test here

    def snapshot():
        nodes = {}
        seen = []
        for n in S.per:
            if n.tag in nodes:
                continue
            seen.append(n.tag)
            st = n.get('status')
            nodes[n.tag] = {
                'status': st.name if st is not None else None,
                'todo': sorted(n.get('todo')), 'doing': sorted(n.get('doing')),
                'level': n.get('level'), 'asp': S._is_asp(n),
                'nperiod': len(n.get('period') or []),
            }
        return {'que': [j.tag for j in S.que], 'per': [n.tag for n in S.per],
                'nodes': nodes, 'timers': [t[0] for t in timers],
                'timers_due': [t[3].due for t in timers],
                'booted': len(S.booted), 'paused': bool(S.is_paused())}

    def pre_delays(now, pairs):
        '''_delay of every (tag, event) evaluated on its own at `now`, with the
        booted list put back afterwards (observation for the oracle only)'''
        saved = list(S.booted)
        Clock._now = instant(now)
        outp = []
        for tag, ev in pairs:
            keep = list(S.booted)
            outp.append([tag, run_delay(ev)])
            S.booted[:] = keep
        S.booted[:] = saved
        return outp

    def engine_facts():
        dawgie.db.targets = lambda *a, **k: ['T']
        F0 = {dawgie.Factories.analysis: [T.analysis],
              dawgie.Factories.events: [T.events],
              dawgie.Factories.regress: [T.regress],
              dawgie.Factories.task: [T.task]}
        S.build(F0, [{}, {}, {}], [{}, {}, {}, {}])
        facts = {}
        for name in WORK:
            found = [n for rta in S.ae.at for n in rta.locate('test_15.' + name)]
            facts[name] = {'mult': len(found), 'level': found[0].get('level'),
                           'asp': S._is_asp(found[0]),
                           'status': found[0].get('status').name,
                           'ancestry': sorted(found[0].get('ancestry'))}
        return facts

    out['engine'] = engine_facts()
    res = []
    for sc in P['scenarios']:
        targets = list(sc['targets'])
        dawgie.db.targets = lambda *a, **k: list(targets)
        S.que.clear()
        S.per.clear()
        S.booted.clear()
        S.err.clear()
        S.suc.clear()
        S.pipeline_paused = False
        del timers[:]
        evlist = [mk_event(SPECS[k], *WORK[node]) for node, k in sc['events']]

        def events():
            return evlist

        F = {dawgie.Factories.analysis: [T.analysis],
             dawgie.Factories.events: [events],
             dawgie.Factories.regress: [T.regress],
             dawgie.Factories.task: [T.task]}
        trace = []
        exc = None
        for step in sc['steps']:
            op = step[0]
            pre = None
            if op in ('start', 'defer', 'timers'):
                if op == 'start':
                    pairs = [('test_15.' + node, ev)
                             for (node, k), ev in zip(sc['events'], evlist)]
                    S.booted.clear()
                else:
                    pairs = []
                    seen_n = []
                    for n in S.per:
                        if n.tag in seen_n:
                            continue
                        seen_n.append(n.tag)
                        # one entry per distinct event of the node
                        evs_n = []
                        for ev in n.get('period'):
                            if not any(ev is x for x in evs_n):
                                evs_n.append(ev)
                        pairs += [(n.tag, ev) for ev in evs_n]
                pre = {'delays': pre_delays(step[1], pairs),
                       'status': {n.tag: (n.get('status').name
                                          if n.get('status') is not None else None)
                                  for n in S.per},
                       'que': [j.tag for j in S.que]}
            try:
                if op == 'start':
                    Clock._now = instant(step[1])
                    S.build(F, [{}, {}, {}], [{}, {}, {}, {}])
                    S.per.clear()
                    S.booted.clear()
                    S.que.clear()
                    if step[2:] and step[2]:
                        S.pipeline_paused = True
                    S.periodics(F[dawgie.Factories.events])
                elif op == 'defer':
                    Clock._now = instant(step[1])
                    S.defer()
                elif op == 'timers':
                    # the reactor fires every armed timer (the clock was moved
                    # by the case to that moment)
                    Clock._now = instant(step[1])
                    pending = list(timers)
                    del timers[:]
                    for delay, f, a, dc in pending:
                        dc.called = True
                        f(*a)
                elif op == 'dispatch':
                    # farm.dispatch: jobs of next_job_batch are handed out and
                    # marked running (farm.py: j.set('status', State.running))
                    for j in S.next_job_batch():
                        j.get('do').clear()
                        j.set('status', S.State.running)
                elif op == 'complete':
                    Clock._now = instant(step[1])
                    job = [n for rta in S.ae.at
                           for n in rta.locate('test_15.' + step[2])][0]
                    S.complete(job, 1, step[3], {}, S.State.success)
                elif op == 'targets':
                    # the set of known targets changes (dawgie.db.targets() is
                    # a question put to the database every time)
                    targets[:] = list(step[1])
                elif op == 'pause':
                    S.pause()
                elif op == 'unpause':
                    S.unpause()
                else:
                    raise ValueError(op)
                exc = None
            except BaseException as e:
                exc = type(e).__name__
            snap = snapshot()
            snap['exc'] = exc
            snap['pre'] = pre
            trace.append(snap)
        res.append(trace)
    out['scenarios'] = res

import shutil  # noqa: E402

shutil.rmtree(TMP, ignore_errors=True)
result(out)
