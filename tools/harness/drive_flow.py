'''C02 end state: a history run END TO END on the REAL scheduler
(dawgie.pl.schedule.organize / next_job_batch / complete / update), the REAL
farm bookkeeping (dawgie.pl.farm.dispatch -> rerunid/_put; Hand._res), the REAL
worker path (dawgie.pl.worker.Context.run -> Task.do -> Dataset.load/update)
and the REAL shelve back end (Interface._load/_update, db.util.encode/move,
db.next) in a temp dir.  Reports, per step, the run ids handed out and, at the
end, the whole primary table -- the shape coq/Model/Flow.v prints.

payload: {'cases': [{'desc': descriptor, 'targets': [...],
                     'events': [...] | None, 'seed': s, 'profile': p, 'nev': n}]}
events (ids as in drive_sched: nodes = sorted tags, target 0 = '__all__',
value names = sorted flat names):
 ['chg', [node..], [tgt..]]  the external inputs of the named (root) algorithms
                             change for the targets; schedule.organize(names,
                             targets=..) with no run id  (a "root re-run")
 ['tick']                    farm.dispatch() (no hand is registered: the task
                             messages stay in farm._cluster)
 ['run', k]                  a worker takes the k-th message of farm._cluster,
                             executes it (worker.Context.run) and answers
                             (Hand._res) -- success
 ['fail', k]                 the same worker, but the algorithm raises after its
                             inputs were loaded and before it updates its data
                             set: the worker answers suc=False as
                             pl/worker/cluster.py does (Hand._res -> complete,
                             purge); the step reports the primary table as it
                             is after the reply ('store_now')

Fakes (outside world only): in-memory AE packages whose run() stores a
canonical text of (value, target, external input, inputs as loaded); the db
socket hop (comms.Worker.do called directly); lock acquire/release; the fsm
(archiving_trigger resets farm.ARCHIVE as pl/state.py does and stays active);
md5sum/sha1sum answered by hashlib after the first real calls agreed.'''
import hashlib
import json
import logging
import os
import random
import shutil
import subprocess
import tempfile

from hcommon import dawgie, payload, result
import engine_mem as engine

import dawgie.context
import dawgie.db
import dawgie.db.shelve
import dawgie.db.shelve.comms as C
import dawgie.db.util
import dawgie.pl.farm as F
import dawgie.pl.message as M
import dawgie.pl.schedule as S
import dawgie.pl.worker as W
import dawgie.pl.logger.chronicle
import dawgie.security
import dawgie.util
from dawgie.db.shelve.state import DBI

logging.disable(logging.CRITICAL)
dawgie.security._myself.clear()
dawgie.security._myself['x'] = 1
dawgie.context.git_rev = 'REV'

# ---- the outside world ------------------------------------------------------
_resp = [None]
C.acquire = lambda name: True
C.release = lambda s: True


def _do(request):
    _resp[0] = None
    C.Worker(None).do(request)
    return _resp[0]


C.Connector._Connector__do = staticmethod(_do)
C.Worker._send = lambda self, r: _resp.__setitem__(0, r)
W.Context.abort = lambda self: False
dawgie.pl.logger.chronicle.append = lambda entry: None


class Proxy:
    def __init__(self, mod, over):
        self._m = mod
        self._o = over

    def __getattr__(self, n):
        o = self.__dict__['_o']
        if n in o:
            return o[n]
        return getattr(self.__dict__['_m'], n)


class Sums:
    '''md5sum / sha1sum are external programs (tens of ms per spawn): after
    the first real calls they are answered by hashlib; every real call is
    compared with the stand-in.'''
    real_left = 12
    agree = True

    @staticmethod
    def fake(cmd):
        algo = {'md5sum': hashlib.md5, 'sha1sum': hashlib.sha1}[cmd[0]]
        with open(cmd[-1], 'rb') as f:
            h = algo(f.read()).hexdigest()
        return ('%s *%s\n' % (h, cmd[-1])).encode()

    @classmethod
    def check_output(cls, cmd, *a, **k):
        if cmd[0] not in ('md5sum', 'sha1sum') or cmd[1] != '-b':
            return subprocess.check_output(cmd, *a, **k)
        if cls.real_left > 0:
            cls.real_left -= 1
            out = subprocess.check_output(cmd, *a, **k)
            if out != cls.fake(cmd):
                cls.agree = False
            return out
        return cls.fake(cmd)


dawgie.db.util.subprocess = Proxy(subprocess, {'check_output': Sums.check_output})


class FSM:
    def is_pipeline_active(self):
        return True

    def waiting_on_crew(self):
        return False

    def archiving_trigger(self):
        # pl/state.py: the archive runs and resets the flag; the pipeline
        # returns to running
        F.ARCHIVE = False


dawgie.context.fsm = FSM()

# ---- the algorithms: deterministic, output = injective text of what was loaded
ENV = {'root_in': {}, 'vid': {}, 'tid': {}, 'loaded': [], 'fail': False}


class AlgorithmFailed(RuntimeError):
    pass


def _run(self, ds, ps):
    tag = self._tag
    tn = ds._tn()
    ins = []
    for vref in dawgie.util.as_vref(S._priors(self)):
        v = vref.item[vref.feat]
        c = getattr(v, 'content', None)
        ins.append(json.loads(c) if c else None)
    ENV['loaded'].append(ins)
    base = ENV['root_in'].get((tag, tn), 0) if not ins else 0
    if ENV['fail']:
        raise AlgorithmFailed(tag)
    for sv in self._svs:
        for k in list(sv.keys()):
            name = '.'.join([tag, sv.name(), k])
            sv[k] = engine.Val((1, 0, 0), json.dumps([ENV['vid'][name], ENV['tid'][tn], base, ins],
                                                     separators=(',', ':')))
    ds.update()


engine.Work.run = _run
FACS = {'task': 0, 'analysis': 1, 'regress': 2}


def all_nodes():
    seen = {}
    todo = list(S.ae.at)
    while todo:
        n = todo.pop()
        if n.tag not in seen:
            seen[n.tag] = n
            todo.extend(c for c in n)
    return seen


def run_case(case):
    rt = tempfile.mkdtemp(prefix='dvflow_')
    try:
        return _run_case(case, rt)
    finally:
        try:
            DBI().close()
        except Exception:  # noqa
            pass
        shutil.rmtree(rt, ignore_errors=True)


def _run_case(case, rt):
    rng = random.Random('flow:%s' % case.get('seed'))
    for s in ['db', 'dbs', 'stg', 'fe']:
        os.makedirs(os.path.join(rt, s))
    dawgie.context.db_impl = 'shelve'
    dawgie.context.db_path = rt + '/db'
    dawgie.context.data_dbs = rt + '/dbs'
    dawgie.context.data_stg = rt + '/stg'
    dawgie.context.fe_path = rt + '/fe'
    DBI().open()
    tnames = sorted(case.get('targets', ['T1', 'T2']))
    for t in tnames:
        dawgie.db.add(t)
    desc = case['desc']
    Fs, works = engine.build(desc)
    for (pkg, kind, an), w in works.items():
        w._tag = '%s.%s' % (pkg, an)
    F.clear()
    F.ARCHIVE = False
    F.insights.clear()
    F._reject.clear()
    F._repeat.clear()
    S.promote.clear()
    S.pipeline_paused = False
    S.build(Fs, [{}, {}, {}], [{}, {}, {}, {}])
    # build() asks for every algorithm (new software): the histories start
    # from an idle scheduler instead and request what they want themselves
    S.que.clear()
    N = all_nodes()
    for n in N.values():
        n.get('todo').clear()
        n.set('runid', None)
    tags = sorted(N)
    nid = {t: i for i, t in enumerate(tags)}
    tid = {'__all__': 0}
    for i, t in enumerate(tnames):
        tid[t] = i + 1
    vnames = sorted(S.ae._flat)
    vid = {v: i for i, v in enumerate(vnames)}
    ENV['root_in'] = {}
    ENV['vid'] = vid
    ENV['tid'] = tid
    graph = {'tags': tags, 'tnames': ['__all__'] + tnames, 'vnames': vnames, 'nodes': [],
             'fb': sorted([vid[k], nid['.'.join(v.split('.')[:2])]] for k, v in S.ae.feedbacks.items())}
    for t in tags:
        n = N[t]
        ins = [vid[dawgie.util.vref_as_name(v)] for v in dawgie.util.as_vref(S._priors(n.get('alg')))]
        graph['nodes'].append({
            'kids': [nid[c.tag] for c in n],
            'anc': sorted(nid[a] for a in n.get('ancestry')),
            'fac': FACS[n.get('factory').__name__],
            'lvl': n.get('level') or 0,
            'ins': ins,
            'outs': [vid['.'.join([t, s.name(), k])] for s in n.get('alg').state_vectors() for k in s]})
    counter = [0]

    def reset_inputs():
        # every worker is a fresh process: nothing loaded by an earlier run is
        # left in the state vectors
        for w in works.values():
            for sv in w.state_vectors():
                for k in list(sv.keys()):
                    sv[k] = engine.Val((1, 0, 0), None)

    def cluster():
        return [[nid[m.jobid], tid[m.target if m.target else '__all__'], m.runid] for m in F._cluster]

    def observe(extra=None):
        o = {'que': [nid[j.tag] for j in S.que],
             'nodes': [[sorted(tid[x] for x in N[t].get('todo')), sorted(tid[x] for x in N[t].get('doing')),
                        N[t].get('runid')] for t in tags],
             'cluster': cluster(),
             'next': dawgie.db.next()}
        if extra:
            o.update(extra)
        return o

    def apply(ev):
        if ev[0] == 'chg':
            counter[0] += 1
            for x in ev[1]:
                for t in ev[2]:
                    ENV['root_in'][(tags[x], graph['tnames'][t])] = counter[0]
            S.organize([tags[x] for x in ev[1]], targets=set(graph['tnames'][t] for t in ev[2]),
                       event='external inputs changed')
            return None
        if ev[0] == 'tick':
            F.dispatch()
            return None
        if ev[0] == 'fail':
            if ev[1] >= len(F._cluster):
                return None
            m = F._cluster.pop(ev[1])
            reset_inputs()
            ENV['loaded'] = []
            ENV['fail'] = True
            ctx = W.Context(('h', 1), 'REV')
            fac = getattr(__import__(m.factory[0], fromlist=[m.factory[1]]), m.factory[1])
            raised = False
            try:
                ctx.run(fac, 0, m.jobid, m.runid, m.target, {})
            except AlgorithmFailed:
                raised = True
            finally:
                ENV['fail'] = False
            # pl/worker/cluster.py: any other exception -> response with suc=False and no values
            F.Hand._res(M.make(typ=M.Type.response, inc=m.target, jid=m.jobid, rid=m.runid, suc=False,
                               tim={'started': 'x'}))
            return {'failed': [nid[m.jobid], tid[m.target]], 'raised': raised, 'store_now': dump_store(),
                    'loaded': ENV['loaded'][0] if ENV['loaded'] else None}
        if ev[0] == 'run':
            if ev[1] >= len(F._cluster):
                return None
            m = F._cluster.pop(ev[1])
            reset_inputs()
            ENV['loaded'] = []
            ctx = W.Context(('h', 1), 'REV')
            fac = getattr(__import__(m.factory[0], fromlist=[m.factory[1]]), m.factory[1])
            nv = ctx.run(fac, 0, m.jobid, m.runid, m.target, {})
            wrote = []
            for name, isnew in nv:
                r, tn, rest = name.split('.', 2)
                if rest in vid:
                    wrote.append([int(r), tid[tn], vid[rest], bool(isnew)])
            F.Hand._res(M.make(typ=M.Type.response, inc=m.target, jid=m.jobid, rid=m.runid, suc=True,
                               tim={'started': 'x'}, val=nv))
            return {'wrote': wrote, 'ran': [nid[m.jobid], tid[m.target]], 'loaded': ENV['loaded'][0] if ENV['loaded'] else None}
        raise ValueError(ev)

    def dump_store():
        store = []
        keys = dawgie.db.shelve._prime_keys()
        raw = list(DBI().tables.prime)
        for full, rk in zip(keys, raw):
            r, tn, rest = full.split('.', 2)
            if rest not in vid:
                continue
            val = dawgie.db.util.decode(DBI().tables.prime[rk])
            store.append([int(r), tid[tn], vid[rest], json.loads(val.content) if val.content else None])
        store.sort(key=lambda e: e[:3])
        return store

    def quiescent():
        return not F._cluster and not F._jobs and not any(N[t].get('todo') or N[t].get('doing') for t in tags)

    roots = [i for i, nd in enumerate(graph['nodes']) if not nd['ins']]
    events, obs = [], []
    given = case.get('events')
    nev = len(given) if given is not None else case.get('nev', 20)
    profile = case.get('profile', 'overlap')
    nchg = [0]

    def gen():
        q = quiescent()
        if q and nchg[0] >= case.get('maxchg', 4):
            return None
        if q or (profile == 'overlap' and nchg[0] < case.get('maxchg', 4) and rng.random() < 0.3):
            nchg[0] += 1
            if nchg[0] == 1:
                return ['chg', roots, list(range(1, len(tnames) + 1))]
            return ['chg', sorted(rng.sample(roots, rng.randint(1, min(2, len(roots))))),
                    sorted(rng.sample(range(1, len(tnames) + 1), rng.randint(1, len(tnames))))]
        if F._cluster and rng.random() < 0.6:
            if rng.random() < case.get('pfail', 0.0):
                return ['fail', rng.randrange(len(F._cluster))]
            return ['run', rng.randrange(len(F._cluster))]
        return ['tick']

    step = 0
    while True:
        if given is not None:
            if step >= len(given):
                break
            ev = given[step]
        else:
            if step >= nev and quiescent():
                break
            if step >= nev + 200:
                break
            ev = gen() if step < nev else (['run', 0] if F._cluster else ['tick'])
            if ev is None:
                break
        extra = apply(ev)
        events.append(ev)
        obs.append(observe(extra))
        step += 1
    # the primary table at the end (metric state vectors left out)
    store = dump_store()
    return {'graph': graph, 'events': events, 'obs': obs, 'store': store, 'desc': desc,
            'quiescent': quiescent(), 'root_in': sorted([nid[k[0]], tid[k[1]], v] for k, v in ENV['root_in'].items()),
            'digest_standin_agrees': Sums.agree}


if __name__ == '__main__':
    P = payload()
    result({'cases': [run_case(c) for c in P['cases']]})
