'''C14 driver: feed byte chunks to the REAL dataReceived of
dawgie.pl.farm.Hand, dawgie.db.shelve.comms.Worker, dawgie.pl.logger.LogSink
(and, when the case has an 'hs' part, through the real
dawgie.security.TwistedWrapper that guards them in non-TLS mode) and record what
the outside sees: deliveries (with the exact bytes handed to loads()),
transport writes, loseConnection, exceptions, and the private reassembly state.

Fakes (outside world only): the transport (records; after loseConnection or an
escaped exception the driver delivers no more data -- Twisted's contract),
pickle.loads / message.loads (a recording shim that calls the real
pickle.loads, except for the case's short alias payloads which it maps to the
objects named by the case), the PGP oracle (verify/decrypt answer from the
case's tables), the clock and random source behind the challenge text.

payload: {'alias': {chan: {hex: spec}}, 'cases': [case]}  |  {'pickles': [spec]}
 case:   {'chan': 'farm'|'db'|'log', 'stream': hex,
          'chunkings': [[len, ...], ...] | 'all',
          'hs': null | {'valid': [hex], 'echo': {hex: mode}}}
result:  {'cases': [{'distinct': [obs], 'runs': [[lens, k]]}], 'meta': {...}}
'''
import logging
import pickle as real_pickle
import types

from hcommon import dawgie, payload, result

import dawgie.security
import dawgie.pl.message as M
import dawgie.pl.farm as F
import dawgie.pl.logger as L
import dawgie.db.shelve.comms as C

logging.disable(logging.CRITICAL)

P = payload()
ALIAS = {}


def build(spec):
    k = spec['kind']
    if k == 'cmd':
        return C.COMMAND(C.Func[spec['func']], None, None, spec.get('value'))
    if k == 'msg':
        return M.make(typ=M.Type[spec['type']], rev=spec.get('rev'))
    if k == 'rec':
        return {'msg': spec['msg'], 'args': None, 'levelno': 20}
    if k == 'obj':          # something that is not what the channel expects
        return spec.get('value')
    raise ValueError(k)


for chn, tbl in P.get('alias', {}).items():
    for hx, spec in tbl.items():
        ALIAS[(chn, bytes.fromhex(hx))] = spec


class Tape:
    '''event log of one connection'''

    def __init__(self, chan):
        self.chan = chan
        self.ev = []
        self.pending = []
        self.closed = False
        self.dead = False

    # transport
    def write(self, b):
        self.ev.append(['S', bytes(b).hex()])

    def loseConnection(self):
        self.closed = True
        self.ev.append(['C'])

    # loads shim
    def loads(self, b, *a, **k):
        b = bytes(b)
        self.pending.append(b)
        if (self.chan, b) in ALIAS:
            return build(ALIAS[(self.chan, b)])
        return real_pickle.loads(b, *a, **k)

    # delivery recorder
    def deliver(self, _obj):
        if len(self.pending) == 1:
            self.ev.append(['D', self.pending.pop().hex()])
        else:
            self.ev.append(['D?', [x.hex() for x in self.pending]])
            self.pending.clear()

    def challenge(self):
        for e in reversed(self.ev):
            if e[0] == 'S':
                return bytes.fromhex(e[1])[4:]
        return None


CUR = [None]  # the tape of the connection being driven


def _loads(b, *a, **k):
    return CUR[0].loads(b, *a, **k)


shim = types.SimpleNamespace(
    loads=_loads,
    dumps=real_pickle.dumps,
    HIGHEST_PROTOCOL=real_pickle.HIGHEST_PROTOCOL,
)
M.loads = _loads
C.pickle = shim
L.pickle = shim


class _Now:
    UTC = __import__('datetime').UTC

    class datetime:
        @staticmethod
        def now(tz=None):
            import datetime as dt
            return dt.datetime(2026, 1, 2, 3, 4, 5, 678901, tzinfo=tz)


dawgie.security.datetime = _Now
dawgie.security.random = types.SimpleNamespace(random=lambda: 0.123456789)


class R:
    def __init__(self, valid, data=b''):
        self.valid = valid
        self.data = data


class PGP:
    def __init__(self, hs):
        self.valid = set(hs['valid'])
        self.echo = hs['echo']

    def verify(self, b):
        return R(bytes(b).hex() in self.valid)

    def decrypt(self, b):
        b = bytes(b)
        ch = CUR[0].challenge()
        mode = self.echo.get(b.hex())
        if ch is None or mode is None:
            return R(True, b)
        if mode == 'echo':
            return R(True, ch)
        if mode == 'echo_ws':
            return R(True, b' \n' + ch + b'\n\t ')
        if mode == 'trunc':
            return R(True, ch[:-1])
        if mode == 'inner_ws':
            return R(True, ch.replace(b' ', b'  ', 1))
        return R(True, b'nope')


class Actual:
    def __init__(self, tape):
        self.tape = tape

    def handle(self, r):
        self.tape.deliver(r)

    def flush(self):
        pass


def connect(chan, tape):
    addr = ('h', 1)
    if chan == 'farm':
        p = F.Hand(addr)
        p._process = tape.deliver
        names = ('_Hand__buf', '_Hand__len', '_Hand__handshake')
    elif chan == 'db':
        p = C.Worker(addr)
        p.do = tape.deliver
        names = ('_Worker__buf', None, '_Worker__handshake')
    elif chan == 'log':
        p = L.LogSink(Actual(tape), addr)
        names = ('_LogSink__buf', '_LogSink__len', '_LogSink__handshake')
    else:
        raise ValueError(chan)
    p.transport = tape
    return p, names


def state(p, names, hs):
    if names[1] is None:
        d = getattr(p, names[0])
        buf, ln = d['data'], d['expected']
        blen = d['actual']
    else:
        # private bookkeeping of the protocol object: when a rewrite keeps it
        # elsewhere the observation says so (the correspondence then differs
        # on the state, and the oracle decides on the delivered messages)
        buf, ln = getattr(p, names[0], None), getattr(p, names[1], None)
        blen = None
    o = {'buf': None if buf is None else bytes(buf).hex(), 'len': ln}
    if blen is not None and blen != 4:
        o['blen'] = blen
    if hs:
        w = getattr(p, names[2])
        o['wbuf'] = bytes(w._TwistedWrapper__buf).hex()
        o['wlen'] = w._len()
        o['wphase'] = w._phase().__name__
        dr = p.dataReceived
        o['restored'] = getattr(dr, '__self__', None) is p
    return o


def run_one(case, chunks):
    tape = Tape(case['chan'])
    CUR[0] = tape
    hs = case.get('hs')
    dawgie.security._myself.clear()
    if hs:
        dawgie.security._PGP = PGP(hs)
    else:
        dawgie.security._myself['x'] = 1  # use_tls() -> no wrapper
    p, names = connect(case['chan'], tape)
    if bool(hs) != hasattr(p, names[2]):
        raise RuntimeError('wrapper presence does not follow use_tls()')
    for c in chunks:
        if tape.closed or tape.dead:
            break  # Twisted: no data after loseConnection / escaped exception
        try:
            p.dataReceived(c)
        except Exception as e:  # pylint: disable=broad-except
            tape.dead = True
            tape.pending.clear()
            tape.ev.append(['A', type(e).__name__])
    if tape.pending:
        tape.ev.append(['L', [x.hex() for x in tape.pending]])
    o = state(p, names, hs)
    o['events'] = tape.ev
    o['live'] = not (tape.closed or tape.dead)
    return o


def all_chunkings(n):
    for mask in range(2 ** (n - 1)):
        lens, last = [], 0
        for i in range(n - 1):
            if mask >> i & 1:
                lens.append(i + 1 - last)
                last = i + 1
        lens.append(n - last)
        yield lens


if 'pickles' in P:
    # real wire payloads of the objects the case generator asks for
    def dump(spec):
        o = build(spec)
        if spec['kind'] == 'msg':
            return M.dumps(o)
        return real_pickle.dumps(o, real_pickle.HIGHEST_PROTOCOL)
    result({'pickles': [dump(s).hex() for s in P['pickles']]})
    raise SystemExit(0)

out = []
nrun = 0
for case in P['cases']:
    stream = bytes.fromhex(case['stream'])
    ch = case['chunkings']
    if ch == 'all':
        ch = list(all_chunkings(len(stream)))
    distinct, index, runs = [], {}, []
    for lens in ch:
        chunks, pos = [], 0
        for n in lens:
            chunks.append(stream[pos:pos + n])
            pos += n
        if pos < len(stream):
            chunks.append(stream[pos:])
        o = run_one(case, chunks)
        nrun += 1
        key = real_pickle.dumps(o)
        if key not in index:
            index[key] = len(distinct)
            distinct.append(o)
        runs.append([lens, index[key]])
    out.append({'distinct': distinct, 'runs': runs})

result({'cases': out, 'runs': nrun})
