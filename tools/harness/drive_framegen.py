'''C14 source-tie driver, sender side: the REAL dawgie.pl.message.send and
dawgie.db.shelve.comms.Worker._send on recording sinks.  The payload bytes
(pickle.dumps / message.dumps of the object: outside the framing) are recorded
by a shim so that the generated encoder can be applied to the same bytes.

payload: {'sizes': [n, ...]}      objects whose pickle has roughly n bytes
result:  {'cases': [{'fn': 'message.send'|'Worker._send', 'payload_len': n,
                     'payload': hex (when short), 'written': [hex of everything written, in order
                     (the first 4 bytes only when the payload is long)], 'written_len': [total],
                     'pieces': number of write calls, 'exc': name|None}]}
'''
import logging

from hcommon import dawgie, payload, result

import dawgie.security
import dawgie.pl.message as M
import dawgie.db.shelve.comms as C

logging.disable(logging.CRITICAL)
P = payload()


class Sink:
    def __init__(self):
        self.w = []

    def sendall(self, b):
        self.w.append(bytes(b))

    def write(self, b):
        self.w.append(bytes(b))


def record(fn, dumped, sink, exc):
    p = dumped[0] if dumped else b''
    short = len(p) <= 128
    return {'fn': fn, 'payload_len': len(p), 'payload': p.hex() if short else None,
            'ndumped': len(dumped), 'pieces': len(sink.w),
            'written': [(b''.join(sink.w) if short else b''.join(sink.w)[:4]).hex()],
            'written_len': [sum(len(b) for b in sink.w)], 'exc': exc}


out = []
for n in P['sizes']:
    obj = 'x' * n
    # ---- message.send(m, s)
    dumped = []
    real_dumps = M.dumps

    def rec_dumps(m, _d=dumped, _r=real_dumps):
        b = _r(m)
        _d.append(b)
        return b
    M.dumps = rec_dumps
    sink = Sink()
    exc = None
    try:
        M.send(M.make(typ=M.Type.status, rev=obj), sink)
    except BaseException as e:  # recorded by name
        exc = type(e).__name__
    M.dumps = real_dumps
    out.append(record('message.send', dumped, sink, exc))
    # ---- Worker._send(response)
    dumped = []
    real_pd = C.pickle.dumps

    class PickleShim:
        HIGHEST_PROTOCOL = C.pickle.HIGHEST_PROTOCOL
        loads = staticmethod(C.pickle.loads)

        @staticmethod
        def dumps(o, *a, _d=dumped, **k):
            b = real_pd(o, *a, **k)
            _d.append(b)
            return b
    saved = C.pickle
    C.pickle = PickleShim
    sink = Sink()
    exc = None
    try:
        w = C.Worker(('h', 1))
        w.transport = sink
        w._send(obj)
    except BaseException as e:  # recorded by name
        exc = type(e).__name__
    C.pickle = saved
    out.append(record('Worker._send', dumped, sink, exc))
result({'cases': out})
