'''C10/C12 implementation-side driver: runs event lists on the REAL
dawgie.pl.state.FSM (non-doctest mode) and the REAL submit Process classes,
see fsm_world.py for the event language and the fakes (outside world only).

payload: {"cases": [{"initial": null|state, "events": [...]}, ...]}
result : {"runs": [[observation per event], ...]}'''
from hcommon import dawgie, payload, result  # noqa: F401
import fsm_world

P = payload()
runs = []
for case in P['cases']:
    runs.append(fsm_world.run_case(case))
result({'runs': runs, 'edges': fsm_world.documented_edges()})
