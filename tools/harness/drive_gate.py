'''C16 driver: render engine descriptors (props/c16_desc.py) as REAL on-disk
AE package directories, in the deprecated factory/bot style or in the
dawgie.base registry style, and run the REAL dawgie.tools.compliant rules,
_verify, _scan and (on request) pl.dag.Construct + pl.schedule.build on them.

Nothing of compliant.py is re-implemented here.  `observe` is an independent
extraction of the descriptor facts from the generated Python objects (the
renderer's self-check, DESIGN A.1).'''
import datetime
import importlib
import inspect
import logging
import os
import pickle
import shutil
import sys
import tempfile
import traceback

from hcommon import dawgie, payload, result

import dawgie.base
import dawgie.context
import dawgie.pl.scan
import dawgie.tools.compliant as CMP

from props import c16_desc as D

logging.disable(logging.CRITICAL)

CLS = {'task': 'TAlg%d', 'analysis': 'AAlg%d', 'regress': 'RAlg%d'}
BOTC = {'task': 'TBot', 'analysis': 'ABot', 'regress': 'RBot'}
ALGBASE = {'task': 'dawgie.Algorithm', 'analysis': 'dawgie.Analyzer',
           'regress': 'dawgie.Regression'}
BOTBASE = {'task': 'dawgie.Task', 'analysis': 'dawgie.Analysis', 'regress': 'dawgie.Regress'}
NEWBOT = {'task': 'dawgie.base.Task', 'analysis': 'dawgie.base.Analysis',
          'regress': 'dawgie.base.Regress'}
RUNSIG = {'task': 'def run(self, ds, ps): pass', 'analysis': 'def run(self, aspects): pass',
          'regress': 'def run(self, ps, timeline): pass'}
STDNAMES = {'task': ['prefix', 'ps_hint', 'runid', 'target'],
            'analysis': ['prefix', 'ps_hint', 'runid'],
            'regress': ['prefix', 'ps_hint', 'target'], 'events': []}
STDCONST = {'prefix': None, 'ps_hint': '0', 'runid': '-1', 'target': "'__none__'"}

COMMON = r"""
'''helpers shared by the generated packages of this engine'''
import datetime
import dawgie

DAWGIE_IGNORE = True


class _DuckVer:
    '''hand written version protocol for classes outside dawgie.Version'''
    def _get_ver(self): return self._version_
    def _set_ver(self, v): self._version_ = v
    def design(self): return self._version_.design
    def implementation(self): return self._version_.impl
    def bugfix(self): return self._version_.bugfix


def _ver_methods(ver):
    ns = {}
    if ver == 'bad':
        ns['design'] = lambda self: 7
    if ver == 'exc':
        def _get_ver(self):
            raise AttributeError('no version here')
        ns['_get_ver'] = _get_ver
    return ns


# ---- values: module level classes so that pickle finds them by reference
_PK = {True: 'p', False: 'u', 'noload': 'l'}


def _mk_value_class(isval, ver, pick, feat):
    name = 'Val_%s_%s_%s_%s' % ('v' if isval else 'n', ver, _PK[pick],
                                'f' if feat else 'a')
    base = dawgie.Value if isval else _DuckVer

    def __init__(self):
        if isval:
            dawgie.Value.__init__(self)
        self._version_ = dawgie.VERSION(1, 0, 0)
        if pick is False:
            self.callback = lambda x: x          # cannot be pickled
    if pick == 'noload' and isval:
        # pickle.dumps works, pickle.loads does not: dawgie.Value.__setstate__
        # builds the object with self.__class__() and this constructor needs
        # an argument
        _plain = __init__

        def __init__(self, calibration):         # noqa: F811
            _plain(self)
    ns = {'__init__': __init__, '__module__': __name__, '__qualname__': name}
    if pick == 'noload' and not isval:
        def __setstate__(self, state):
            raise TypeError('cannot be restored')
        ns['__setstate__'] = __setstate__
    if feat:
        ns['features'] = lambda self: []
    ns.update(_ver_methods(ver))
    return name, type(name, (base,), ns)


for _iv in (True, False):
    for _vr in ('ok', 'bad', 'exc'):
        for _pk in (True, False, 'noload'):
            for _ft in (True, False):
                _n, _c = _mk_value_class(_iv, _vr, _pk, _ft)
                globals()[_n] = _c


def mk_value(d):
    cls = globals()['Val_%s_%s_%s_%s' % ('v' if d['isval'] else 'n', d['ver'],
                                         _PK[d['pick']],
                                         'f' if d['feat'] else 'a')]
    return cls(1) if d['pick'] == 'noload' and d['isval'] else cls()


class _DuckSV(dict, _DuckVer):
    '''a dict with a name but not a dawgie.StateVector'''


_SV_CLASSES = {}


def mk_sv(d):
    # three descriptors in four are served by a GENERIC class shared by all state
    # vectors with the same method set -- Vector(name, items): instances of one
    # class configured differently, what the rules inspect belongs to the
    # instance; the others get a class of their own
    import zlib
    # (chosen from the name, so that a state vector and its faulty variant agree)
    generic = zlib.crc32(repr(d['name']).encode()) % 4 != 0
    key = ('generic', d['issv'], d['name'] is None, d['view'], d['ver']) if generic else repr(d)
    if key not in _SV_CLASSES:
        _SV_CLASSES[key] = _mk_sv_class(d)
    return _SV_CLASSES[key](d)


def _mk_sv_class(d):
    issv = d['issv']
    base = dawgie.StateVector if issv else _DuckSV

    def __init__(self, d):
        if issv:
            dawgie.StateVector.__init__(self)
        else:
            dict.__init__(self)
        self._version_ = dawgie.VERSION(1, 0, 0)
        self._d_name = d['name']
        for v in d['items']:
            self[v['key']] = mk_value(v)
    ns = {'__init__': __init__}
    if d['name'] is not None:
        ns['name'] = lambda self: self._d_name
    elif not issv:
        def name(self):
            raise NotImplementedError()
        ns['name'] = name
    if d['view']:
        ns['view'] = lambda self, caller, visitor: None
    ns.update(_ver_methods(d['ver']))
    return type('SV', (base,), ns)


def mk_item(ok, name, keys):
    return mk_sv({'issv': ok, 'name': name, 'ver': 'ok', 'view': True,
                  'items': [{'key': k, 'isval': True, 'ver': 'ok', 'pick': True,
                             'feat': True} for k in keys]})


def mk_impl(module, ok, kind, name, svs):
    '''an object to put in the impl slot of a reference whose class claims to
    live in `module`'''
    base = {'task': dawgie.Algorithm, 'analysis': dawgie.Analyzer,
            'regress': dawgie.Regression}[kind] if ok else _DuckVer

    def __init__(self):
        if ok:
            base.__init__(self)
        self._version_ = dawgie.VERSION(1, 0, 0)
        self._svs = [mk_item(True, n, ks) for n, ks in svs]
    ns = {'__init__': __init__, '__module__': module, 'DAWGIE_IGNORE': True,
          'name': lambda self: name, 'state_vectors': lambda self: self._svs,
          'feedback': lambda self: [], 'previous': lambda self: [],
          'traits': lambda self: [], 'variables': lambda self: [],
          'run': lambda self, *a: None}
    return type('Impl', (base,), ns)()


FAKE_EVENT = __import__('collections').namedtuple('FAKE_EVENT', ['algref', 'moment'])
"""


def _lit(x):
    return repr(x)


def _param_src(kind, params):
    '''parameters are named by position (rule_01 looks at count, defaults and
    annotations only)'''
    std = STDNAMES[kind]
    out, names = [], []
    for i, (d, a) in enumerate(params):
        nm = std[i] if i < len(std) else 'x%d' % i
        names.append(nm)
        s = nm
        if a is not None:
            s += ': ' + {'str': 'str', 'int': 'int', 'other': 'float'}[a]
        if d is not None:
            s += ' = ' + _lit(d)
        out.append(s)
    return ', '.join(out), names


_DOW = [0]


def _good_dow():
    '''a well-typed day of the week: alternately Monday (0 -- the week is zero
    based, dawgie.pl.schedule._delay uses isoweekday() - 1) and Wednesday'''
    _DOW[0] += 1
    return '0' if _DOW[0] % 2 else '2'


def _moment_src(m):
    f = {
        'day': {'none': 'None', 'good': 'datetime.date(2030, 1, 2)', 'bad': "'2030-01-02'"},
        'dom': {'none': 'None', 'good': '12', 'bad': "'x'"},
        'dow': {'none': 'None', 'good': _good_dow(), 'bad': "'x'"},
        'time': {'none': 'None', 'good': 'datetime.time(1, 0, 0)', 'bad': "'01:00'"},
    }
    return 'dawgie.MOMENT(%r, %s, %s, %s, %s)' % (
        m['boot'], f['day'][m['day']], f['dom'][m['dom']], f['dow'][m['dow']],
        f['time'][m['time']])


def _moment_wellformed(m):
    defined = [m['boot'] is not None] + [m[k] != 'none' for k in ('day', 'dom', 'dow')]
    if sum(defined) != 1 or 'bad' in (m['day'], m['dom'], m['dow'], m['time']):
        return False
    if m['boot'] is False:
        return False
    return m['boot'] is not None or m['time'] == 'good'


def _refs_src(eng, base, refs, ind):
    '''statements building the list `out` of references'''
    lines = [ind + 'out = []']
    for r in refs:
        if r['lvl'] == 'none':
            lines.append(ind + "out.append(('not', 'a', 'reference'))")
            continue
        fac = "'not a function'" if r['fac'] is None else '_M(%d).%s' % tuple(r['fac'])
        kind = r['fac'][1] if r['fac'] is not None else 'task'
        real = r.get('real')
        if real is not None:
            lines.append(ind + '_i = _M(%d).%s()' % (real[0], CLS[real[1]] % real[2]))
            item = '_i.state_vectors()[%d]' % real[3] if real[3] is not None else 'None'
        else:
            lines.append(ind + '_i = C.mk_impl(%r, %r, %r, %r, %r)' % (
                base + '.' + eng['pkgs'][r['home']]['name'], r['impl_ok'], kind,
                r['impl_name'], [tuple(x) for x in r['impl_svs']]))
            item = 'C.mk_item(%r, %r, %r)' % (r['item_ok'], r['item'][0], r['item'][1])
        feat = '7' if r['feat'] is None else repr(r['feat'])
        if r['lvl'] == 'alg':
            lines.append(ind + 'out.append(dawgie.ALG_REF(%s, _i))' % fac)
        elif r['lvl'] == 'sv':
            lines.append(ind + 'out.append(dawgie.SV_REF(%s, _i, %s))' % (fac, item))
        else:
            lines.append(ind + 'out.append(dawgie.V_REF(%s, _i, %s, %s))' % (fac, item, feat))
    lines.append(ind + 'return out')
    return '\n'.join(lines)


def _alg_src(eng, base, kind, j, a, schedule=None):
    isalg = a['isalg']
    src = 'class %s(%s):\n' % (CLS[kind] % j, ALGBASE[kind] if isalg else 'C._DuckVer')
    if schedule:
        src += '    DAWGIE_SCHEDULE = [%s]\n' % ', '.join(
            'dawgie.EVENT(None, %s)' % _moment_src(e['moment']) for e in schedule)
    src += '    def __init__(self):\n'
    if isalg:
        src += '        %s.__init__(self)\n' % ALGBASE[kind]
    src += '        self._version_ = dawgie.VERSION(1, 0, 0)\n'
    if a['svs'] is not None:
        src += '        self._svs = [%s]\n' % ', '.join('C.mk_sv(%r)' % s for s in a['svs'])
    ni = '        raise NotImplementedError()\n'
    if a['name'] is not None:
        src += '    def name(self):\n        return %r\n' % a['name']
    elif not isalg:
        src += '    def name(self):\n' + ni
    dep = D.DEP_METHOD[kind]
    if a['deps'] is not None:
        src += '    def %s(self):\n%s\n' % (dep, _refs_src(eng, base, a['deps'], '        '))
    elif not isalg:
        src += '    def %s(self):\n' % dep + ni
    if a['fb'] or not isalg:
        src += '    def feedback(self):\n%s\n' % _refs_src(eng, base, a['fb'], '        ')
    if a['svs'] is not None:
        src += '    def state_vectors(self):\n        return self._svs\n'
    elif not isalg:
        src += '    def state_vectors(self):\n' + ni
    if a['run']:
        src += '    ' + RUNSIG[kind] + '\n'
    if a['ver'] == 'bad':
        src += '    def design(self):\n        return 7\n'
    if a['ver'] == 'exc':
        src += "    def _get_ver(self):\n        raise AttributeError('no version here')\n"
    return src + '\n'


def _events_body(eng, p, ef):
    lines = ['    out = []']
    for e in ef['events']:
        if e['owner'] is not None:
            fac, cls = e['owner'][0], CLS[e['owner'][0]] % e['owner'][1] + '()'
        else:
            fac, cls = '_M(0).task', '_M(0).TAlg0()'
        m = e['moment']
        if e['isevent'] and _moment_wellformed(m):
            kw = []
            if m['boot'] is not None:
                kw.append('boot=%r' % m['boot'])
            for k, v in (('day', 'datetime.date(2030, 1, 2)'), ('dom', '12'), ('dow', _good_dow()),
                         ('time', 'datetime.time(1, 0, 0)')):
                if m[k] == 'good':
                    kw.append('%s=%s' % (k, v))
            lines.append('    out.append(dawgie.schedule(%s, %s, %s))' % (fac, cls, ', '.join(kw)))
        else:
            ctor = 'dawgie.EVENT' if e['isevent'] else 'C.FAKE_EVENT'
            lines.append('    out.append(%s(dawgie.ALG_REF(%s, %s), %s))' % (
                ctor, fac, cls, _moment_src(m)))
    lines.append('    return out')
    return '\n'.join(lines)


def events_auto(p):
    ef = p['events']
    return (ef is not None and ef['params'] == [] and ef['events']
            and all(e['owner'] is not None and e['isevent'] for e in ef['events']))


def render_pkg(eng, base, pi, style):
    p = eng['pkgs'][pi]
    names = [q['name'] for q in eng['pkgs']]
    src = ("'''generated AE package %s.%s (%s style)'''\n"
           'import datetime\nimport importlib\nimport dawgie\nimport dawgie.base\n'
           'import %s.common as C\n\nNAMES = %r\n\n\n'
           'def _M(i):\n    return importlib.import_module(%r + NAMES[i])\n\n\n'
           % (base, p['name'], style, base, names, base + '.'))
    auto_ev = style == 'registry' and events_auto(p)
    for k in D.AKINDS:
        f = p[k]
        if f is None:
            continue
        for j, a in enumerate(f['algs']):
            sched = None
            if auto_ev:
                sched = [e for e in p['events']['events'] if e['owner'] == [k, j]]
            src += _alg_src(eng, base, k, j, a, sched)
        psrc, pnames = _param_src(k, f['params'])
        if style == 'registry':
            src += ('def %s(%s) -> dawgie.FactoryPlaceholder[%s]:\n'
                    "    raise NotImplementedError('placeholder until dawgie monkey patches me')\n\n\n"
                    % (k, psrc, NEWBOT[k]))
            continue
        lst = '[%s]' % ', '.join(CLS[k] % j + '()' for j in range(len(f['algs'])))
        if f['bot_ok']:
            src += 'class %s(%s):\n    def list(self):\n        return %s\n\n\n' % (
                BOTC[k], BOTBASE[k], lst)
        else:
            src += ('class %s:\n    def __init__(self, name, *args):\n        self._n = name\n'
                    '    def _name(self):\n        return self._n\n'
                    '    def routines(self):\n        return %s\n\n\n' % (BOTC[k], lst))
        args = [('prefix' if 'prefix' in pnames else repr(p['name'])) if n == 'prefix'
                else STDCONST[n] for n in STDNAMES[k]]
        src += 'def %s(%s):\n    return %s(%s)\n\n\n' % (k, psrc, BOTC[k], ', '.join(args))
    ef = p['events']
    if ef is not None:
        psrc, _ = _param_src('events', ef['params'])
        if auto_ev:
            src += ('def events(%s) -> dawgie.FactoryPlaceholder[list[dawgie.EVENT]]:\n'
                    "    raise NotImplementedError('placeholder until dawgie monkey patches me')\n"
                    % psrc)
        else:
            src += 'def events(%s):\n%s\n' % (psrc, _events_body(eng, p, ef))
    return src


def render(root, base, eng, style):
    d = os.path.join(root, base)
    os.makedirs(d)
    open(os.path.join(d, '__init__.py'), 'w').write('')
    open(os.path.join(d, 'common.py'), 'w').write(COMMON)
    for pi, p in enumerate(eng['pkgs']):
        os.makedirs(os.path.join(d, p['name']))
        with open(os.path.join(d, p['name'], '__init__.py'), 'w') as f:
            f.write(render_pkg(eng, base, pi, style))
    return d


# --------------------------------------------------------------- observation
def _try(fn):
    try:
        return fn()
    except NotImplementedError:
        return None


def _obs_ver(o):
    try:
        ok = isinstance(o._get_ver(), dawgie.VERSION)
        o._set_ver(dawgie.VERSION(-1, -2, -3))
        good = ok and (o.design(), o.implementation(), o.bugfix()) == (-1, -2, -3)
        return 'ok' if good else 'bad'
    except AttributeError:
        return 'exc'


def _overrides(o, meth, bases):
    f = getattr(type(o), meth, None)
    return f is not None and all(f is not getattr(b, meth, None) for b in bases)


def _obs_keys(sv):
    return [sv.name(), list(sv)]


def _obs_ref(r, base, names):
    if not isinstance(r, (dawgie.ALG_REF, dawgie.SV_REF, dawgie.V_REF)):
        return {'lvl': 'none'}
    lvl = {dawgie.ALG_REF: 'alg', dawgie.SV_REF: 'sv', dawgie.V_REF: 'v'}[type(r)]
    fac = None
    if inspect.isfunction(r.factory) or inspect.ismethod(r.factory):
        tn = dawgie.util.task_name(r.factory)
        fac = [names.index(tn), r.factory.__name__]
    home = r.impl.__module__.split('.')[1]
    o = {'lvl': lvl, 'fac': fac,
         'impl_ok': isinstance(r.impl, (dawgie.Algorithm, dawgie.Analyzer, dawgie.Regression)),
         'home': names.index(home), 'impl_name': r.impl.name()}
    if lvl == 'alg':
        o['impl_svs'] = [_obs_keys(s) for s in r.impl.state_vectors()]
    else:
        o['item_ok'] = isinstance(r.item, dawgie.StateVector)
        o['item'] = _obs_keys(r.item)
    if lvl == 'v':
        o['feat'] = r.feat if isinstance(r.feat, str) else None
    return o


def _exp_ref(r):
    if r['lvl'] == 'none':
        return {'lvl': 'none'}
    o = {'lvl': r['lvl'], 'fac': r['fac'], 'impl_ok': r['impl_ok'], 'home': r['home'],
         'impl_name': r['impl_name']}
    if r['lvl'] == 'alg':
        o['impl_svs'] = r['impl_svs']
    else:
        o['item_ok'] = r['item_ok']
        o['item'] = r['item']
    if r['lvl'] == 'v':
        o['feat'] = r['feat']
    return o


def _obs_alg(a, kind, base, names):
    albase = {'task': dawgie.Algorithm, 'analysis': dawgie.Analyzer,
              'regress': dawgie.Regression}[kind]
    o = {'isalg': isinstance(a, albase), 'name': _try(a.name)}
    deps = _try(getattr(a, D.DEP_METHOD[kind]))
    o['deps'] = None if deps is None else [_obs_ref(r, base, names) for r in deps]
    o['fb'] = [_obs_ref(r, base, names) for r in a.feedback()]
    svs = _try(a.state_vectors)
    o['run'] = _overrides(a, 'run', [albase])
    if svs is None:
        o['svs'] = None
    else:
        o['svs'] = []
        for s in svs:
            items = []
            for k, v in s.items():
                try:
                    pickle.loads(pickle.dumps(v))
                    pk = True
                except Exception:
                    pk = False
                items.append({'key': k, 'isval': isinstance(v, dawgie.Value),
                              'ver': _obs_ver(v), 'pick': pk,
                              'feat': _overrides(v, 'features', [dawgie.Value])})
            o['svs'].append({'issv': isinstance(s, dawgie.StateVector), 'name': _try(s.name),
                             'ver': _obs_ver(s), 'items': items,
                             'view': _overrides(s, 'view', [dawgie.StateVector])})
    o['ver'] = _obs_ver(a)
    return o


def _exp_alg(a):
    o = dict(a)
    if a.get('svs') is not None:
        # the observer sees one fact: pickle.loads(pickle.dumps(v)) works or not
        o['svs'] = [dict(s, items=[dict(v, pick=v['pick'] is True) for v in s['items']])
                    if isinstance(s, dict) and 'items' in s else s for s in a['svs']]
    o['deps'] = None if a['deps'] is None else [_exp_ref(r) for r in a['deps']]
    o['fb'] = [_exp_ref(r) for r in a['fb']]
    return o


def _obs_moment(m):
    def f(x, t):
        return 'none' if x is None else ('good' if isinstance(x, t) else 'bad')
    return {'boot': m.boot, 'day': f(m.day, datetime.date), 'dom': f(m.dom, int),
            'dow': f(m.dow, int), 'time': f(m.time, datetime.time)}


def observe(mod, p, base, names):
    '''facts of the generated package as python objects show them vs the
    descriptor; returns a list of disagreements'''
    bad = []
    ann = {inspect.Parameter.empty: None, str: 'str', int: 'int', float: 'other'}
    for k in D.KINDS:
        if hasattr(mod, k) != (p[k] is not None):
            bad.append('%s: presence' % k)
            continue
        if p[k] is None:
            continue
        f = getattr(mod, k)
        ps = [[None if q.default is inspect.Parameter.empty else q.default,
               ann.get(q.annotation, '?')] for q in inspect.signature(f).parameters.values()]
        if ps != p[k]['params']:
            bad.append('%s: params %r != %r' % (k, ps, p[k]['params']))
        if not D_callable(D.WALK_NARGS[k], p[k]['params']):
            continue
        if k == 'events':
            evs = f()
            got = sorted(repr((isinstance(e, dawgie.EVENT), _obs_moment(e.moment))) for e in evs)
            exp = sorted(repr((e['isevent'], e['moment'])) for e in p[k]['events'])
            if got != exp:
                bad.append('events: %r != %r' % (got, exp))
            continue
        bot = f(*{'analysis': ('test', 1, -1), 'task': ('test', 1, -1, 'TEST'),
                  'regress': ('test', 1, 'TEST')}[k])
        botb = {'task': (dawgie.Task, dawgie.base.Task),
                'analysis': (dawgie.Analysis, dawgie.base.Analysis),
                'regress': (dawgie.Regress, dawgie.base.Regress)}[k]
        if isinstance(bot, botb) != p[k]['bot_ok']:
            bad.append('%s: bot type' % k)
        algs = sorted(bot.routines(), key=lambda a: type(a).__name__)
        if len(algs) != len(p[k]['algs']):
            bad.append('%s: %d routines != %d' % (k, len(algs), len(p[k]['algs'])))
            continue
        for j, (a, da) in enumerate(zip(algs, p[k]['algs'])):
            got, exp = _obs_alg(a, k, base, names), _exp_alg(da)
            if got != exp:
                diff = [x for x in exp if got.get(x) != exp[x]]
                bad.append('%s alg %d: %s: %r != %r' % (k, j, diff, {x: got.get(x) for x in diff},
                                                       {x: exp[x] for x in diff}))
    return bad


def D_callable(n, params):
    return n <= len(params) and all(d is not None for d, _ in params[n:])


# ------------------------------------------------------------------- running
def run_sched(factories, tmp):
    import dawgie.db
    import dawgie.pl.dag
    import dawgie.pl.schedule
    dawgie.context.fe_path = tmp
    dawgie.context.data_dbs = tmp
    dawgie.db.targets = lambda: ['T1', 'T2']
    out = {}
    try:
        dawgie.pl.dag.Construct(factories)
        out['construct'] = 'ok'
    except Exception as e:  # noqa
        out['construct'] = 'EXC:%s:%s' % (type(e).__name__, e)
        return out
    try:
        import dawgie.pl.version
        latest = dawgie.pl.version.current(
            factories[dawgie.Factories.analysis] + factories[dawgie.Factories.regress]
            + factories[dawgie.Factories.task])
        dawgie.pl.schedule.build(factories, latest, [{}, {}, {}, {}])
        out['build'] = 'ok'
        out['queued'] = sorted(n.tag for n in dawgie.pl.schedule.que)
    except Exception as e:  # noqa
        out['build'] = 'EXC:%s:%s' % (type(e).__name__, e)
    return out


def main():
    P = payload()
    root = tempfile.mkdtemp(prefix='c16_')
    sys.path.insert(0, root)
    rules = list(CMP._get_rules())
    out = []
    keep = P.get('keep')
    for n, case in enumerate(P['cases']):
        eng, style = case['eng'], case.get('style', 'bot')
        base = 'vae%d' % n
        res = {'id': case.get('id', n), 'style': style}
        try:
            d = render(root, base, eng, style)
            importlib.invalidate_caches()
            dawgie.pl.scan.reset(base)
            dawgie.context.ae_base_path = d
            dawgie.context.ae_base_package = base
            names = [p['name'] for p in eng['pkgs']]
            facs = None
            if style == 'registry' or case.get('scan') or case.get('sched'):
                facs = dawgie.pl.scan.for_factories(d, base)
                res['scan'] = sorted({dawgie.util.task_module(f)[len(base) + 1:]
                                      for v in facs.values() for f in v})
            res['rules'] = {}
            res['verify'] = {}
            res['observe'] = {}
            for pi in case.get('pkgs', range(len(eng['pkgs']))):
                t = '%s.%s' % (base, names[pi])
                per = []
                for r in rules:
                    try:
                        v = getattr(CMP, r)(t)
                        per.append(v if isinstance(v, bool) else 'NONBOOL:%r' % (v,))
                    except BaseException as e:  # noqa -- _verify uses a bare except
                        per.append('EXC:' + type(e).__name__)
                res['rules'][str(pi)] = per
                res['verify'][str(pi)] = CMP._verify([t], True, False)
                if case.get('observe', True):
                    try:
                        res['observe'][str(pi)] = observe(importlib.import_module(t),
                                                          eng['pkgs'][pi], base, names)
                    except Exception as e:  # noqa
                        res['observe'][str(pi)] = ['observer crashed: %s' % (
                            traceback.format_exc()[-600:])]
            if 'pkgs' not in case:
                res['verify_all'] = CMP._verify(['%s.%s' % (base, x) for x in names],
                                                True, False)
            if case.get('sched'):
                res['sched'] = run_sched(facs, root)
        except Exception:  # noqa
            res['crash'] = traceback.format_exc()[-1500:]
        finally:
            dawgie.pl.scan.reset(base)
            sys.modules.pop(base, None)
        out.append(res)
    if keep is None:
        shutil.rmtree(root, ignore_errors=True)
    result({'rules': rules, 'results': out, 'root': root,
            'file': os.path.realpath(CMP.__file__)})


main()
