'''drive_gen.py -- runs the REAL python functions that tools/translate/
util2coq.py, fifo2coq.py, farm2coq.py, frame2coq.py translate, on the inputs
of the validation sweeps of props/gen_tie.py.

payload: {"util": [unit...], "fifo": [script...], "farm": [unit...], "frame": [unit...]}
result : the same keys, one observation per unit ({"r": value} | {"exc": name}).'''
from hcommon import dawgie, payload, result

import importlib


class LV(dawgie.Version):
    def __init__(self, v):
        self._version_ = dawgie.VERSION(*v)


def ver3(v):
    return None if v is None else [v.design(), v.implementation(), v.bugfix()]


# ---- dawgie/db/shelve/util.py -------------------------------------------------
def util_unit(u):
    from dawgie.db.shelve import util
    f = u['f']
    try:
        if f == 'construct':
            return {'r': util.construct(u['name'], u['parent'],
                                        LV(u['ver']) if u['ver'] else None)}
        if f == 'dissect':
            p, n, v = util.dissect(u['s'])
            return {'r': [p, n, ver3(v)]}
        if f == 'roundtrip':
            s = util.construct(u['name'], u['parent'], LV(u['ver']) if u['ver'] else None)
            try:
                p, n, v = util.dissect(s)
                d = [p, n, ver3(v)]
            except Exception as e:    # the oracle wants to see it
                d = {'exc': type(e).__name__}
            return {'r': [s, d]}
        if f == 'subset':
            t = dict(u['table'])
            return {'r': sorted(util.subset(t, u['name'], u['parents']).items(),
                                key=lambda e: (e[1], e[0]))}
        raise RuntimeError('unknown unit ' + f)
    except Exception as e:
        return {'exc': type(e).__name__}


# ---- dawgie/util/fifo.py ---------------------------------------------------------
def fifo_script(sc):
    '''sc = {"init": [..] | None, "ops": [[op, arg], ...]}; after every op the
    observation [list(u), len(u), result]'''
    from dawgie.util import fifo
    obs = []
    try:
        u = fifo.Unique(sc['init'])
        obs.append([list(u), len(u), None])
        for op, arg in sc['ops']:
            r = None
            if op == 'add':
                u.add(arg)
            elif op == 'discard':
                u.discard(arg)
            elif op == 'update':
                u.update(arg)
            elif op == 'contains':
                r = arg in u
                if type(r) is not bool:
                    r = repr(r)
            elif op == 'copy':
                c = u.copy()
                r = [type(c).__name__, list(c)]
            else:
                raise RuntimeError('unknown op ' + op)
            obs.append([list(u), len(u), r])
        return {'r': obs}
    except Exception as e:
        return {'exc': type(e).__name__, 'r': obs}


# ---- dawgie/pl/farm.py -------------------------------------------------------------
class _Addr:
    def __init__(self, host):
        self.host = host


class _W:
    def __init__(self, wid, host):
        self.wid = wid
        self.address = _Addr(host)


class _Fsm:
    def __init__(self, active, crew):
        self.active, self.crew = active, crew

    def is_pipeline_active(self):
        return self.active

    def waiting_on_crew(self):
        return self.crew


def farm_unit(u):
    import dawgie.context
    import dawgie.pl.farm as farm
    import dawgie.pl.message
    f = u['f']
    try:
        if f == 'workers_sort':
            farm._workers.clear()
            farm._workers.extend(_W(w, 'h%03d' % h) for w, h in u['workers'])
            try:
                farm._workers_sort()
                return {'r': [[w.wid, int(w.address.host[1:])] for w in farm._workers]}
            finally:
                farm._workers.clear()
        if f == 'cluster_sort':
            farm._cluster.clear()
            saved = dict(farm.insights)
            farm.insights.clear()
            for k, cpu in u.get('insights', []):
                farm.insights[k] = type('I', (), {'cpu': cpu})()
            farm._cluster.extend(
                dawgie.pl.message.make(jid='j%d' % j, rid=r, target=(None if t == 0 else 't%d' % t))
                for j, t, r in u['msgs'])
            try:
                farm._cluster_sort()
                return {'r': [[int(m.jobid[1:]), 0 if not m.target else int(m.target[1:]), m.runid]
                              for m in farm._cluster]}
            finally:
                farm._cluster.clear()
                farm.insights.clear()
                farm.insights.update(saved)
        if f == 'poll':
            # Hand._process on a status message: which reply is sent
            sent = []
            saved = (getattr(dawgie.context, 'fsm', None), dawgie.context.git_rev, dawgie.pl.message.send)
            dawgie.context.fsm = _Fsm(u['active'], False)
            dawgie.context.git_rev = 'rev-a'
            dawgie.pl.message.send = lambda m, h: sent.append(m)
            try:
                h = farm.Hand.__new__(farm.Hand)
                h._abort = dawgie.pl.message.make(typ=dawgie.pl.message.Type.response, suc=False)
                h._Hand__proceed = dawgie.pl.message.make(typ=dawgie.pl.message.Type.response, suc=True)
                h.transport = type('T', (), {'loseConnection': lambda self: sent.append('close')})()
                m = dawgie.pl.message.make(typ=dawgie.pl.message.Type.status,
                                           rev='rev-a' if u['rev_ok'] else 'rev-b')
                h._process(m)
                out = []
                for s in sent:
                    if s == 'close':
                        out.append('close')
                    else:
                        out.append('abort' if s is h._abort else 'proceed' if s is h._Hand__proceed else 'other')
                return {'r': out}
            finally:
                dawgie.context.fsm, dawgie.context.git_rev, dawgie.pl.message.send = saved
        if f == 'reg':
            sent = []
            saved = (dawgie.context.git_rev, dawgie.pl.message.send, list(farm._workers))
            dawgie.context.git_rev = 'rev-a'
            dawgie.pl.message.send = lambda m, h: sent.append(m)
            farm._workers.clear()
            try:
                h = farm.Hand.__new__(farm.Hand)
                h._abort = dawgie.pl.message.make(typ=dawgie.pl.message.Type.response, suc=False)
                h._Hand__proceed = dawgie.pl.message.make(typ=dawgie.pl.message.Type.response, suc=True)
                h.transport = type('T', (), {'loseConnection': lambda self: sent.append('close')})()
                m = dawgie.pl.message.make(typ=dawgie.pl.message.Type.register, inc=1,
                                           rev='rev-a' if u['rev_ok'] else 'rev-b')
                h._process(m)
                out = ['close' if s == 'close' else 'abort' if s is h._abort
                       else 'proceed' if s is h._Hand__proceed else 'other' for s in sent]
                out += ['register'] * sum(1 for w in farm._workers if w is h)
                return {'r': out}
            finally:
                dawgie.context.git_rev, dawgie.pl.message.send = saved[:2]
                farm._workers.clear()
                farm._workers.extend(saved[2])
        if f == 'something_to_do':
            saved = (getattr(dawgie.context, 'fsm', None), list(farm._agency))
            dawgie.context.fsm = _Fsm(u['active'], u['crew'])
            farm._agency[0] = object() if u['agency'] else None     # the only way the code sets it
            try:
                r = farm.something_to_do()
                return {'r': r if type(r) is bool else repr(r)}
            finally:
                dawgie.context.fsm = saved[0]
                farm._agency[0] = saved[1][0]
        raise RuntimeError('unknown unit ' + f)
    except Exception as e:
        return {'exc': type(e).__name__ + ':' + str(e)[:200]}


if __name__ == '__main__':
    P = payload()
    out = {}
    out['util'] = [util_unit(u) for u in P.get('util', [])]
    out['fifo'] = [fifo_script(s) for s in P.get('fifo', [])]
    out['farm'] = [farm_unit(u) for u in P.get('farm', [])]
    if P.get('frame'):
        out['frame'] = importlib.import_module('drive_gen_frame').run(P['frame'])
    result(out)
