'''C13 driver: event histories on REAL dawgie.db.shelve.comms.Worker objects.

Events (the case decides the interleaving; each is one reactor call):
  ['A', c]  dataReceived(frame(COMMAND(Func.acquire, None, None, name)))
  ['P', c]  the connection's LoopingCall fires (its own clock advances 3 s)
  ['R', c]  dataReceived(frame(COMMAND(Func.release, None, None, None)))
  ['D', c]  connectionLost(reason)
  ['T', c]  the oldest pending reactor.callLater(1, looping_call.stop) of c fires
  ['O', _]  the database is closed and reopened (DBI().close(); DBI().open()), as
            Worker._do_copy and shelve.archive do while a client holds the lock

Outside world replaced: transports (recording; no request is delivered after
loseConnection or connectionLost -- Twisted's contract; an exception escaping
dataReceived is followed by connectionLost, as Twisted does), the reactor
(callLater is queued per connection, the real twisted LoopingCall runs on a
twisted.internet.task.Clock per connection), the on-disk shelve files (a real
DBI opened in a scratch directory; only its lock-view log is touched).

payload: {'histories': [{'n': clients, 'events': [event, ...]}, ...]}
result:  {'histories': [[obs per step]]}  obs = {'out': [[code, c]], 'lock': bool,
          'conns': [[has, running, stopped, lost, closed, timers]]}
'''
import logging
import os
import pickle
import struct
import tempfile

from hcommon import dawgie, payload, result

import dawgie.context
import dawgie.security
import twisted.internet.reactor
import twisted.internet.task

logging.disable(logging.CRITICAL)
dawgie.security._myself.clear()
dawgie.security._myself['x'] = 1   # use_tls() -> no handshake wrapper

PENDING = []   # (LoopingCall instance, thunk)


def _call_later(_delay, f, *a, **k):
    PENDING.append((getattr(f, '__self__', None), lambda: f(*a, **k)))


twisted.internet.reactor.callLater = _call_later

import dawgie.db.shelve.comms as C  # noqa: E402
from dawgie.db.shelve.state import DBI  # noqa: E402

root = tempfile.mkdtemp(prefix='c13_', dir=os.getcwd())
os.makedirs(os.path.join(root, 'db'))
dawgie.context.db_path = os.path.join(root, 'db')
DBI().open()


def frame(cmd):
    p = pickle.dumps(cmd, pickle.HIGHEST_PROTOCOL)
    return struct.pack('>I', len(p)) + p


class T:
    def __init__(self, k, log):
        self.k, self.log, self.closed = k, log, False

    def write(self, b):
        n = struct.unpack('>I', b[:4])[0]
        m = pickle.loads(b[4:])
        if n != len(b) - 4:
            self.log.append([90, self.k])
        if type(m) is C.Mutex and m is C.Mutex.unlock:
            self.log.append([1, self.k])
        elif type(m) is C.Mutex and m is C.Mutex.lock:
            self.log.append([2, self.k])
        elif m is True:
            self.log.append([3, self.k])
        elif m is False:
            self.log.append([4, self.k])
        else:
            self.log.append([91, self.k, repr(m)])

    def loseConnection(self):
        self.closed = True
        self.log.append([5, self.k])


def run(n, events):
    dawgie.context.db_lock = False
    PENDING.clear()
    log = []
    W, lost = [], []
    for k in range(n):
        w = C.Worker(('h', k))
        w.transport = T(k, log)
        w._Worker__looping_call.clock = twisted.internet.task.Clock()
        W.append(w)
        lost.append(False)

    def lose(k):
        '''connectionLost as the reactor calls it: an exception escaping it
        is logged by Twisted and is the end of the story (observation 7)'''
        try:
            W[k].connectionLost(None)
        except Exception:  # pylint: disable=broad-except
            log.append([7, k])

    def deliver(k, cmd):
        w = W[k]
        if w.transport.closed or lost[k]:
            return
        try:
            w.dataReceived(frame(cmd))
        except Exception:  # pylint: disable=broad-except
            log.append([6, k])
            lost[k] = True
            lose(k)

    obs = []
    for ev, k in events:
        del log[:]
        if ev == 'O':
            DBI().close()
            DBI().open()
        elif k < n:
            w = W[k]
            lc = w._Worker__looping_call
            if ev == 'A':
                deliver(k, C.COMMAND(C.Func.acquire, None, None, 'client%d' % k))
            elif ev == 'R':
                deliver(k, C.COMMAND(C.Func.release, None, None, None))
            elif ev == 'P':
                lc.clock.advance(3)
            elif ev == 'D':
                if not lost[k]:
                    lost[k] = True
                    lose(k)
            elif ev == 'T':
                for i, (owner, thunk) in enumerate(PENDING):
                    if owner is lc:
                        del PENDING[i]
                        try:
                            thunk()
                        except AssertionError:
                            log.append([6, k])
                        break
            else:
                raise ValueError(ev)
        lk = dawgie.context.db_lock
        obs.append({
            'out': [list(x) for x in log],
            'lock': lk if type(lk) is bool else repr(lk),
            'conns': [[x._Worker__has_lock, x._Worker__looping_call.running,
                       x._Worker__looping_call_stopped, x._Worker__connection_lost,
                       x.transport.closed,
                       sum(1 for o, _ in PENDING if o is x._Worker__looping_call)]
                      for x in W],
        })
    return obs


P = payload()
out = []
for item in P['histories']:
    out.append(run(item['n'], item['events']))
import shutil  # noqa: E402
DBI().close()
shutil.rmtree(root, ignore_errors=True)
result({'histories': out})
