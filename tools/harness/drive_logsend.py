'''C14 driver, SENDER side of the log channel: the REAL
dawgie.pl.logger.TwistedHandler (emit, makeSocket) on the REAL
logging.handlers.SocketHandler (makePickle, createSocket, send, emit, close),
attached to the root logger as dawgie.pl.worker / dawgie.pl.state attach it,
connecting through the REAL dawgie.security.connect (so that the record it logs
when a connection fails re-enters the handler), and -- at the other end of each
connection -- a REAL dawgie.pl.logger.LogSink built by the REAL
LogSinkFactory.buildProtocol.

Outside world replaced (nothing of the code under test):
 * socket.socket as seen by dawgie.security: a fake whose connect() logs the
   case's "nested" records (as code running under security.connect does) and
   then succeeds, raises ConnectionRefusedError (an OSError) or raises a
   RuntimeError, as the case's env script says (script exhausted: refused, and the
   record security.connect logs about it is filtered out, so that every history
   is a finite object); whose sendall() accepts all
   bytes or accepts the first min(j, len-1) bytes and raises BrokenPipeError, as
   the case's sends script says;
 * the PGP signature exchange security._send / security._recv (no-ops: the
   handshake is the business of Shake.v);  security._my_ip (host name, also
   decides LogSinkFactory.isWithinReactor);
 * time.time as seen by logging.handlers (the case's clock: events carry a time,
   every call adds the next tick);
 * pickle as seen by logging.handlers (dumps) and dawgie.pl.logger (loads):
   recording shims around the real functions; records named in the case's alias
   table get the case's short payload instead (small scope);
 * the network: at the end of the case each connection's accepted bytes, minus
   the last `lose`, are cut as the case says and handed to dataReceived of that
   connection's LogSink; the file handler behind the factory is a recorder.

payload: {'cases': [case]}
 case: {'within': bool, 'events': [['emit', t, r] | ['close', t]],
        'env': [[nested ids, res 0|1|2, fid]], 'sends': [j], 'ticks': [dt],
        'net': [[lose, [chunk lens]]], 'alias': {str(id): hex}}
result: {'cases': [{'steps': [...], 'wires': [...], 'payloads': {...}, ...}]}
'''
import io
import logging
import logging.handlers
import os
import pickle as real_pickle
import socket as real_socket
import sys
import tempfile
import time as real_time
import types

from hcommon import dawgie, payload, result

import dawgie.context
import dawgie.security
import dawgie.pl.logger as L

P = payload()
ADDR = ('h', 1)


class W:
    '''mutable world of the case being run'''
    clock = 0
    ticks = []
    env = []
    sends = []
    alias = {}
    conns = []          # successful connections, in order
    connecting = False
    during_connect = False
    fid = -1
    last_dump = None
    payloads = {}
    local = []
    host = 'h'
    sink = None         # list the recorder appends to


class Proxy:
    '''module stand-in: the listed names are replaced, the rest is the module's'''

    def __init__(self, mod, **kw):
        self.__dict__['_mod'] = mod
        self.__dict__.update(kw)

    def __getattr__(self, k):
        return getattr(self._mod, k)


def fake_time():
    W.clock += W.ticks.pop(0) if W.ticks else 0
    return W.clock


def emit_test_record(r):
    logging.getLogger('c14.drive').info('rec %d', r, extra={'rid': r})


class FakeSocket:
    def __init__(self, *a, **k):
        self.wire = None
        self.closed = False

    def connect(self, address):
        assert address == ADDR, address
        # beyond the script: refused, and what security.connect logs is filtered out
        nested, res, fid = W.env.pop(0) if W.env else ([], 1, None)
        W.fid = fid
        for r in nested:
            emit_test_record(r)
        if res == 1:
            raise ConnectionRefusedError(111, 'Connection refused')
        if res != 0:
            raise RuntimeError('handshake went wrong')
        self.wire = {'bytes': bytearray(), 'ids': [], 'sock': self}
        W.conns.append(self.wire)

    def sendall(self, b):
        if W.connecting:
            W.during_connect = True
        if self.wire is None or self.closed:
            raise RuntimeError('sendall on a socket that is not connected')
        b = bytes(b)
        j = W.sends.pop(0) if W.sends else -1
        if j < 0:
            self.wire['bytes'] += b
            self.wire['ids'].append(W.last_dump)
            return None
        self.wire['bytes'] += b[:min(j, len(b) - 1)]
        raise BrokenPipeError(32, 'Broken pipe')

    def close(self):
        self.closed = True

    def settimeout(self, t):
        pass

    def shutdown(self, how):
        pass


def _dumps(d, *a, **k):
    rid = d.get('rid')
    W.last_dump = rid
    if str(rid) in W.alias:
        b = bytes.fromhex(W.alias[str(rid)])
    else:
        b = real_pickle.dumps(d, *a, **k)
    W.payloads[str(rid)] = b.hex()
    return b


def _loads(b, *a, **k):
    b = bytes(b)
    for rid, hx in W.alias.items():
        if bytes.fromhex(hx) == b:
            return {'msg': 'rec %s' % rid, 'args': None, 'levelno': 20, 'rid': int(rid)}
    return real_pickle.loads(b, *a, **k)


class Stamp(logging.Filter):
    '''names the record security.connect logs by itself (it has no rid)'''

    def filter(self, record):
        if not hasattr(record, 'rid'):
            if W.fid is None:
                return False
            record.rid = W.fid
        return True


class Recorder:
    '''stands for the file handler behind LogSinkFactory'''

    def handle(self, record):
        (W.local if W.sink is None else W.sink).append(getattr(record, 'rid', None))

    def flush(self):
        pass


# ---- wiring ---------------------------------------------------------------
dawgie.security._my_ip = lambda: W.host
dawgie.security._send = lambda s, m: None
dawgie.security._recv = lambda s: b''
_real_connect = dawgie.security.connect


def _connect(address):
    W.connecting = True
    try:
        return _real_connect(address)
    finally:
        W.connecting = False


dawgie.security.connect = _connect
dawgie.security.socket = Proxy(real_socket, socket=FakeSocket)
dawgie.security._myself.clear()

tmp = tempfile.mkdtemp(prefix='c14_logsend_')
dawgie.context.log_backup = 1
FACTORY = L.LogSinkFactory(os.path.join(tmp, 'sink.log'))   # before the clock is replaced
FACTORY.actual().close()
FACTORY._LogSinkFactory__actual = Recorder()
L._ROOT = FACTORY
L.pickle = types.SimpleNamespace(loads=_loads, dumps=real_pickle.dumps)
logging.handlers.pickle = Proxy(real_pickle, dumps=_dumps)
logging.handlers.time = Proxy(real_time, time=fake_time)
ROOT = logging.getLogger()
ROOT.setLevel(logging.DEBUG)


def observe(h):
    cur = None
    if h.sock is not None:
        cur = h.sock.wire
    return {'sock': h.sock is not None,
            'shaking': h._TwistedHandler__shaking,
            'q': [getattr(r, 'rid', None) for r in h._TwistedHandler__q],
            'retry': h.retryTime, 'period': getattr(h, 'retryPeriod', None),
            'cur_ids': list(cur['ids']) if cur else [],
            'cur_len': len(cur['bytes']) if cur else -1,
            'nclosed': sum(1 for c in W.conns if c['sock'].closed),
            'local': list(W.local), 'now': W.clock}


def run_case(case):
    W.clock, W.ticks = 0, list(case.get('ticks', []))
    W.env = [list(a) for a in case.get('env', [])]
    W.sends = list(case.get('sends', []))
    W.alias = dict(case.get('alias', {}))
    W.conns, W.connecting, W.during_connect = [], False, False
    W.fid, W.last_dump, W.payloads, W.local, W.sink = -1, None, {}, [], None
    W.host = 'h' if case.get('within') else 'another-host'
    h = L.TwistedHandler(host=ADDR[0], port=ADDR[1])
    h.addFilter(Stamp())
    ROOT.handlers[:] = [h]
    err = io.StringIO()
    old = sys.stderr
    sys.stderr = err
    steps = []
    try:
        for e in case['events']:
            W.clock = max(W.clock, e[1])
            if e[0] == 'emit':
                emit_test_record(e[2])
            elif e[0] == 'close':
                h.close()
            else:
                raise ValueError(e)
            steps.append(observe(h))
    finally:
        sys.stderr = old
        ROOT.handlers[:] = []
    # the network and the receiving end
    net = case.get('net', [])
    sinks = []
    for k, c in enumerate(W.conns):
        lose, cuts = net[k] if k < len(net) else (0, [])
        data = bytes(c['bytes'])
        data = data[:max(0, len(data) - lose)]
        dawgie.security._myself['x'] = 1         # TLS mode: LogSink without the PGP wrapper
        try:
            p = FACTORY.buildProtocol(ADDR)
        finally:
            dawgie.security._myself.clear()
        W.sink = got = []
        pos, exc = 0, None
        chunks = []
        for n in cuts:
            chunks.append(data[pos:pos + n])
            pos += n
        chunks.append(data[pos:])
        try:
            for ch in chunks:
                p.dataReceived(ch)
        except Exception as x:  # pylint: disable=broad-except
            exc = type(x).__name__
        W.sink = None
        sinks.append({'got': got, 'exc': exc,
                      'buf': (None if getattr(p, '_LogSink__buf', None) is None
                              else bytes(p._LogSink__buf).hex()),
                      'len': getattr(p, '_LogSink__len', None)})
    return {'steps': steps,
            'wires': [{'bytes': bytes(c['bytes']).hex(), 'ids': c['ids'],
                       'closed': c['sock'].closed} for c in W.conns],
            'sinks': sinks, 'payloads': dict(W.payloads),
            'during_connect': W.during_connect, 'left_env': len(W.env),
            'left_sends': len(W.sends),
            'errors': err.getvalue().count('--- Logging error ---'),
            'handler_class': [k.__module__ + '.' + k.__name__ for k in type(h).__mro__[:2]]}


logging.raiseExceptions = True
out = [run_case(c) for c in P['cases']]
try:
    os.remove(os.path.join(tmp, 'sink.log'))
    os.rmdir(tmp)
except OSError:
    pass
result({'cases': out})
