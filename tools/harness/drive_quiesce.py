'''C04 quiescence driver: runs the REAL dawgie.pl.schedule / dawgie.pl.farm
(through tools/harness/drive_sched.py, unchanged) on histories made of a
generated prefix (requests, dispatches with and without a refused run id,
replies, registrations) followed by a DRAIN: no request any more, only
dispatches, registrations of fresh workers, and replies for units that a worker
holds -- "a finite set of events and workers that always answer".

payload: {'cases': [{'seed': s, 'prefix': n, 'pprofile': 'fault'|'sched',
                     'drain': m, 'nalg': k, 'shape': .., 'feedback': bool,
                     'desc': descriptor|None, 'events': [...]|None}]}
result : as drive_sched.py, plus 'prefix' (number of events before the drain)
'''
from hcommon import dawgie, payload, result  # noqa: F401  (must come first)
import drive_sched as D

_orig_gen = D.gen_event
ST = {'n': 0, 'prefix': 0, 'pprofile': 'fault'}


def gen_event(rng, profile, tags, graph, hands, holding, nextw, outs_of, vid, N):
    ST['n'] += 1
    if ST['n'] <= ST['prefix']:
        return _orig_gen(rng, ST['pprofile'], tags, graph, hands, holding, nextw, outs_of, vid, N)
    held = [(w, u) for w, us in holding.items() for u in us]
    kinds = ['tick'] * 4 + ['tickf'] + ['reg'] * 3 + (['rep'] * 6 if held else [])
    k = rng.choice(kinds)
    if k == 'tick':
        return ['tick']
    if k == 'tickf':
        return ['tickf', rng.choice([1, 1, 2, 3])]
    if k == 'reg':
        nextw[0] += 1
        return ['reg', nextw[0], rng.randint(0, 2), True]
    w, (x, t, rid) = rng.choice(held)
    oc = rng.choice([3, 3, 3, 3, 3, 1, 6])
    vals = []
    if oc == 3 and rng.random() > 0.05:
        p = rng.choice([0.0, 0.5, 1.0, 1.0])
        vals = [[t, vid[v], rng.random() < p] for v in outs_of[tags[x]]]
    return ['rep', w, x, t, rid, oc, vals]


D.gen_event = gen_event


def run(case):
    given = case.get('events')
    ST['n'] = len(given) if given is not None else 0
    ST['prefix'] = case.get('prefix', 25)
    ST['pprofile'] = case.get('pprofile', 'fault')
    c = dict(case)
    if given is not None:
        ST['prefix'] = len(given)
        c['extra'] = case.get('drain', 80)
    else:
        c['nev'] = ST['prefix'] + case.get('drain', 80)
    r = D.run_case(c)
    r['prefix'] = ST['prefix']
    return r


if __name__ == '__main__':
    P = payload()
    result({'cases': [run(c) for c in P['cases']]})
