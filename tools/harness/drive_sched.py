'''Scheduler / farm driver (C01-C05, C11, C15 build half): runs the REAL
dawgie.pl.schedule and dawgie.pl.farm on generated or given event lists and
dumps, after every event, the canonical observation of DESIGN A.3 as nested
lists of ints (the same shape coq/Model/SchedObs.v prints).

payload: {'cases': [{'seed': s, 'desc': descriptor|None, 'targets': [...],
                     'nev': n, 'events': [...]|None, 'profile': name}]}
result : {'cases': [{'graph': {...}, 'events': [...], 'obs': [...], 'names': {...}}]}

Events (ids, see graph['tags'] / ['tnames'] / ['vnames']):
 ['org', [node..], rid|None, [tgt..]]      schedule.organize
 ['tick']                                  farm.dispatch
 ['rep', w, node, tgt, rid, outcome(3|1|6), [[tgt, vname, isnew]..]]   Hand._res via dataReceived
 ['reg', w, host, ok] ['poll', w, ok] ['drop', w]
 ['act', b] ['pause', b] ['stored', r]
 ['build', latest, previous]               schedule.build with version tables
'''
import random
import struct

from hcommon import dawgie, payload, result
import engine_mem as engine

import dawgie.context
import dawgie.db
import dawgie.security
import dawgie.pl.farm as F
import dawgie.pl.message as M
import dawgie.pl.schedule as S
import dawgie.pl.logger.chronicle
import dawgie.util

dawgie.security._myself.clear()
dawgie.security._myself['x'] = 1  # use_tls() true: no legacy handshake wrapper
dawgie.context.git_rev = 'REV'

W = {'targets': [], 'stored': 0, 'outs': []}
dawgie.db.targets = lambda *a, **k: list(W['targets'])


def _next():
    if W.get('fail_next'):
        # the database refuses to hand out a run id once, at the k-th request
        # of this dispatch (farm.dispatch: "allow db impl to throw an exception
        # via rerunid()")
        W['fail_next'] -= 1
        if not W['fail_next']:
            W['outs'].append([10])
            raise RuntimeError('db.next() failed')
    r = W['stored'] + 1
    W['outs'].append([8, r])
    return r


dawgie.db.next = _next


class FSM:
    active = True

    def is_pipeline_active(self):
        return self.active

    def waiting_on_crew(self):
        return False

    def archiving_trigger(self):
        # the real FSM leaves `running`: is_pipeline_active() is False from
        # here until the archive (and whatever follows it) is over
        W['outs'].append([7])
        self.active = False


fsm = FSM()
dawgie.context.fsm = fsm
STAT = {'success': 3, 'failure': 1, 'invalid': 6}


_REAL_APPEND = dawgie.pl.logger.chronicle.append
JOURNAL = [True]    # drive_schedchron.py keeps its own journal and switches this off
_JDIR = [None]


def _chron(entry):
    W['outs'].append(['C', entry['task'], entry['target'], entry['runid'],
                      STAT[entry['status']]])
    if JOURNAL[0]:
        # the real journal, in a scratch directory: an entry it refuses raises
        # into schedule.complete / Hand._res exactly as in the pipeline
        if _JDIR[0] is None:
            import atexit
            import shutil
            import tempfile
            _JDIR[0] = tempfile.mkdtemp(prefix='dsched-chron-')
            atexit.register(shutil.rmtree, _JDIR[0], True)
        keep = dawgie.context.data_dbs
        dawgie.context.data_dbs = _JDIR[0]
        try:
            _REAL_APPEND(entry)
        finally:
            dawgie.context.data_dbs = keep


dawgie.pl.logger.chronicle.append = _chron
_orig_log_error = F.log.error


def _farm_error(fmt, *a):
    if 'Could not find job' in fmt:
        W['outs'].append(['D', a[0]])


F.log.error = _farm_error
F.log.exception = lambda *a, **k: W['outs'].append(['E', 'dispatch-exception'])


class Addr:
    def __init__(self, h):
        self.host = h


class Tr:
    def __init__(self, wid):
        self.wid = wid
        self.closed = False

    def write(self, b):
        m = M.loads(b[4:])
        W['outs'].append(['M', self.wid, m])

    def loseConnection(self):
        self.closed = True


class Insight:
    def __init__(self, summary):
        self.summary = summary
        self.cpu = 0


def frame(m):
    p = M.dumps(m)
    return struct.pack('>I', len(p)) + p


def all_nodes():
    seen = {}
    todo = list(S.ae.at)
    while todo:
        n = todo.pop()
        if n.tag not in seen:
            seen[n.tag] = n
            todo.extend(c for c in n)
    return seen


FACS = {'task': 0, 'analysis': 1, 'regress': 2}


def run_case(case):
    rng = random.Random('sched:%s' % case['seed'])
    desc = case.get('desc') or (
        engine.fan_desc(rng, feedback=case.get('feedback', True)) if case.get('shape') == 'fan'
        else engine.random_desc(rng, npk=case.get('npk', 3), nalg=case.get('nalg', 6),
                                feedback=case.get('feedback', True)))
    tnames = sorted(case.get('targets', ['T1', 'T2']))
    W['targets'] = list(tnames)
    W['stored'] = 0
    Fs, works = engine.build(desc)
    F.clear()
    F.ARCHIVE = False
    # what navel gazing learnt about earlier runs: some units are marked for
    # the cloud (cpu 0: the order of the cluster queue is left to the run ids)
    F.insights.clear()
    F._reject.clear()
    F._repeat.clear()
    S.promote.clear()
    S.pipeline_paused = False
    fsm.active = True
    S.build(Fs, [{}, {}, {}], [{}, {}, {}, {}])
    N = all_nodes()
    tags = sorted(N)
    for tn in ['__all__'] + tnames:
        for tag in tags:
            if rng.random() < 0.25:
                F.insights['.'.join([tn, tag])] = Insight(
                    dawgie.Distribution.cloud if rng.random() < 0.7 else dawgie.Distribution.cluster)
    nid = {t: i for i, t in enumerate(tags)}
    tid = {'__all__': 0}
    for i, t in enumerate(tnames):
        tid[t] = i + 1
    vnames = sorted(S.ae._flat)
    vid = {v: i for i, v in enumerate(vnames)}
    graph = {'tags': tags, 'tnames': ['__all__'] + tnames, 'vnames': vnames, 'nodes': [],
             'fb': sorted([vid[k], nid['.'.join(v.split('.')[:2])]] for k, v in S.ae.feedbacks.items())}
    outs_of = {}
    for t in tags:
        n = N[t]
        ins = [vid[dawgie.util.vref_as_name(v)] for v in dawgie.util.as_vref(S._priors(n.get('alg')))]
        graph['nodes'].append({
            'kids': [nid[c.tag] for c in n],
            'anc': sorted(nid[a] for a in n.get('ancestry')),
            'fac': FACS[n.get('factory').__name__],
            'lvl': n.get('level') or 0,
            'ins': ins})
        outs_of[t] = ['.'.join([t, s.name(), k]) for s in n.get('alg').state_vectors() for k in s]
    hands = {}
    holding = {}  # wid -> (node, tgt, rid) task it was sent and has not answered
    nextw = [0]

    def tname(t):
        return graph['tnames'][t]

    def observe():
        o = []
        for x in W['outs']:
            if x[0] == 'M':
                _, w, m = x
                if m.type == M.Type.task:
                    k = m.factory[1]
                    o.append([1, w, nid[m.jobid], tid[m.target if m.target else '__all__'], m.runid, FACS[k]])
                    holding.setdefault(w, []).append((nid[m.jobid], tid[m.target if m.target else '__all__'], m.runid))
                elif m.type == M.Type.wait:
                    o.append([2, w])
                elif m.type == M.Type.response and m.success is False:
                    o.append([3, w])
                elif m.type == M.Type.response and m.success is True:
                    o.append([4, w])
                else:
                    o.append([99, w])
            elif x[0] == 'C':
                o.append([5, nid[x[1]], tid[x[2]], x[3], x[4]])
            elif x[0] == 'D':
                o.append([6, nid.get(x[1], -1)])
            elif x[0] == 'E':
                o.append([9, 0])
            else:
                o.append(x)
        W['outs'].clear()
        nodes = []
        for t in tags:
            n = N[t]
            nodes.append([sorted(tid[x] for x in n.get('todo')), sorted(tid[x] for x in n.get('doing')),
                          sorted(tid[x] for x in n.get('do')), n.get('status').value, n.get('runid')])
        busy = []
        for b in F._busy:
            j, t = b[:-1].split('[')
            busy.append([nid[j], tid[t]])
        return {
            'que': [nid[j.tag] for j in S.que],
            'nodes': nodes,
            'jobs': [nid[j.tag] for j in F._jobs],
            'cluster': [[nid[m.jobid], tid[m.target if m.target else '__all__'], m.runid, FACS[m.factory[1]]] for m in F._cluster],
            'busy': sorted(busy),
            'workers': [w.transport.wid for w in F._workers],
            'flags': [bool(F.ARCHIVE), bool(fsm.active), bool(S.pipeline_paused)],
            'outs': o,
            'crew_busy': len(F.crew()['busy']), 'crew_idle': F.crew()['idle'],
            'view_todo': [[nid[d['name']], sorted(tid[x] for x in d['targets'])] for d in S.view_todo()],
            'view_doing': sorted([nid[k], sorted(tid[x] for x in v)] for k, v in S.view_doing().items()),
        }

    def apply(ev):
        k = ev[0]
        try:
            if k == 'org':
                S.organize([tags[i] for i in ev[1]], ev[2], set(tname(t) for t in ev[3]), 'driver')
            elif k == 'tick':
                F.dispatch()
            elif k == 'tickf':
                W['fail_next'] = ev[1] if len(ev) > 1 else 1
                try:
                    F.dispatch()
                finally:
                    W['fail_next'] = 0
            elif k == 'rep':
                _, w, x, t, rid, oc, vals = ev
                suc = {3: True, 1: False, 6: None}[oc]
                v = [('.'.join([str(rid), tname(vt), vnames[vn]]), bool(isn)) for vt, vn, isn in vals] if oc == 3 else None
                # worker.Context.run stamps `started` only once the task object
                # exists: a unit that fails before that (module not importable on
                # that worker, constructor raising) answers with the timing it
                # was sent (`scheduled` only).  Chosen from the event itself.
                early = oc != 3 and (x + t + (rid or 0)) % 3 == 0
                m = M.make(typ=M.Type.response, inc=(None if t == 0 else tname(t)), jid=tags[x], rid=rid,
                           suc=suc, tim=({'scheduled': 'x'} if early else {'started': 'x'}), val=v)
                if w in holding and (x, t, rid) in holding[w]:
                    holding[w].remove((x, t, rid))
                hands[w].dataReceived(frame(m))
            elif k == 'reg':
                _, w, host, ok = ev
                # every other connection was accepted while the pipeline still
                # ran its previous revision (slow handshake, update in between):
                # eligibility is decided against the revision that is current
                # when the registration is processed
                if w % 2 == 0:
                    dawgie.context.git_rev = 'OLD'
                try:
                    h = F.Hand(Addr('h%d' % host))
                finally:
                    dawgie.context.git_rev = 'REV'
                h.transport = Tr(w)
                hands[w] = h
                # incarnation 0 is what a worker's first start announces (check_06.sh: -i 0)
                h.dataReceived(frame(M.make(typ=M.Type.register, inc=(w + host) % 3, rev='REV' if ok else 'OLD')))
            elif k == 'poll':
                _, w, ok = ev
                if w % 2 == 0:
                    dawgie.context.git_rev = 'OLD'
                try:
                    h = F.Hand(Addr('h9'))
                finally:
                    dawgie.context.git_rev = 'REV'
                h.transport = Tr(w)
                h.dataReceived(frame(M.make(typ=M.Type.status, rev='REV' if ok else 'OLD')))
            elif k == 'drop':
                if ev[1] in hands:
                    hands[ev[1]].connectionLost(None)
            elif k == 'act':
                fsm.active = bool(ev[1])
            elif k == 'pause':
                (S.pause if ev[1] else S.unpause)()
            elif k == 'stored':
                W['stored'] = max(W['stored'], ev[1])
            elif k == 'build':
                S.build(Fs, ev[1], ev[2])
            else:
                raise ValueError(k)
        except Exception as e:  # noqa
            W['outs'].append(['E', type(e).__name__])

    events = []
    obs = []
    given = case.get('events')
    profile = case.get('profile', 'mixed')
    # `extra`: continue a given history with generated events (the directed
    # search from the state where model and implementation parted)
    nev = len(given) + case.get('extra', 0) if given is not None else case.get('nev', 40)
    for step in range(nev):
        if given is not None and step < len(given):
            ev = given[step]
            if ev[0] in ('reg', 'poll'):
                nextw[0] = max(nextw[0], ev[1])
        else:
            ev = gen_event(rng, profile, tags, graph, hands, holding, nextw, outs_of, vid, N)
        apply(ev)
        events.append(ev)
        obs.append(observe())
    return {'graph': graph, 'events': events, 'obs': obs, 'desc': desc}


def gen_event(rng, profile, tags, graph, hands, holding, nextw, outs_of, vid, N):
    nt = len(graph['tnames']) - 1
    held = [(w, u) for w, us in holding.items() for u in us]
    weights = {
        'mixed': dict(org=4, tick=6, rep=8, reg=4, poll=1, drop=1, act=1, pause=1, stored=1),
        'sched': dict(org=5, tick=6, rep=9, reg=5, poll=0, drop=0, act=0, pause=0, stored=1),
        'farm': dict(org=3, tick=6, rep=3, reg=5, poll=3, drop=3, act=3, pause=1, stored=2),
        'fault': dict(org=6, tick=4, tickf=3, rep=8, reg=4, poll=0, drop=0, act=0, pause=0, stored=1),
    }[profile]
    kinds = [k for k, w in weights.items() for _ in range(w)]
    while True:
        k = rng.choice(kinds)
        if k == 'rep' and not held:
            continue
        if k == 'drop' and not hands:
            continue
        break
    if k == 'org':
        names = rng.sample(range(len(tags)), rng.randint(1, min(2, len(tags))))
        parents = [i for i, nd in enumerate(graph['nodes']) if len(nd['kids']) > 1]
        if parents and rng.random() < 0.5:
            names = [rng.choice(parents)]
        r = rng.random()
        if r < 0.08:
            tg = []
        elif r < 0.16:
            tg = [0]
        else:
            tg = sorted(rng.sample(range(1, nt + 1), rng.randint(1, nt)))
        # bias: re-request something that is in flight
        if held and rng.random() < 0.35:
            w, (x, t, rid) = rng.choice(held)
            names = [x] if rng.random() < 0.6 else sorted(set([x] + graph['nodes'][x]['anc'][:1]))
            if t != 0:
                tg = [t]
        rid = rng.choice([None, None, None, 7, 9, 12])
        return ['org', names, rid, tg]
    if k == 'tick':
        return ['tick']
    if k == 'tickf':
        return ['tickf', rng.choice([1, 1, 2, 2, 3])]
    if k == 'rep':
        w, (x, t, rid) = rng.choice(held)
        oc = rng.choice([3, 3, 3, 3, 1, 1, 6])
        vals = []
        if oc == 3 and rng.random() > 0.05:
            p = rng.choice([0.0, 0.3, 0.6, 1.0])
            vals = [[t, vid[v], rng.random() < p] for v in outs_of[tags[x]]]
            if vals and rng.random() < 0.3:
                # an algorithm that updates its data set more than once in one
                # run (Dataset.update: "intermediate data") reports a value
                # again, the second time with the flag of the second write
                extra = [[t, vn, rng.random() < 0.3] for (_t, vn, _f) in rng.sample(vals, rng.randint(1, len(vals)))]
                vals = vals + extra if rng.random() < 0.7 else extra + vals
        return ['rep', w, x, t, rid, oc, vals]
    if k == 'reg':
        nextw[0] += 1
        return ['reg', nextw[0], rng.randint(0, 2), rng.random() < 0.85]
    if k == 'poll':
        nextw[0] += 1
        return ['poll', nextw[0], rng.random() < 0.7]
    if k == 'drop':
        return ['drop', rng.choice(sorted(hands))]
    if k == 'act':
        return ['act', rng.random() < 0.6]
    if k == 'pause':
        return ['pause', rng.random() < 0.4]
    if k == 'stored':
        return ['stored', rng.randint(1, 15)]
    raise ValueError(k)


if __name__ == '__main__':
    P = payload()
    result({'cases': [run_case(c) for c in P['cases']]})
