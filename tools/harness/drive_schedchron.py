'''C18 (composition with C03/C05): scheduler histories with the REAL chronicle.

Runs the REAL dawgie.pl.schedule / dawgie.pl.farm on event lists exactly as
tools/harness/drive_sched.py does (its run_case is reused unchanged), but the
chronicle recorder fake of that driver is taken out again: schedule.complete
calls the REAL dawgie.pl.logger.chronicle.append, which writes
<data_dbs>/chronicles/YYYY/MM/DD/<runid>.json in a temp directory, under an
injected wall clock.  Afterwards the journal is read back from the files and
queried with the REAL chronicle.find.

payload: {'cases': [{'seed': s, 'desc': descriptor|None, 'targets': [...], 'nev': n,
                     'events': [...]|None, 'profile': name, 'shape': ..., 'nalg': ...,
                     'clock': [ticks ...],       # one reading per event: microseconds since
                                                 # 1980-01-01T00:00:00Z = what datetime.now(UTC)
                                                 # returns while the event is handled
                     'queries': [{'after': t|None, 'before': t|None, 'limit': n|None,
                                  'succeeded': bool, 'now': t}, ...]}]}
result : {'cases': [{'graph', 'events', 'desc',            # as drive_sched.py
                     'que_before': [[node..] per event],    # schedule.que when the event arrives
                     'outs': [[out..] per event],           # outputs of the event (5 = history entry
                                                            # seen by the chronicle, 6 = reply dropped)
                     'files': {'YYYY/MM/DD/<runid>.json': [event index of each entry, file order]},
                     'entries': {index: {runid,status,target,task,completed,keys}},
                     'answers': [{'ok': [index..]} | {'exc': name}]}]}

The identity of an entry is the event index of its reply: the driver sets
dawgie.context.git_rev (the `changeset` complete() stamps on the entry) to
'c<index>' while a reply is handled and to 'REV' (what the workers register
with) otherwise.

Outside world arranged here: the temp data_dbs, the frozen clocks
(schedule.datetime.datetime.now during replies, chronicle.datetime.now for
find), the event source (drive_sched.gen_event is wrapped to stamp clock and
changeset per event); everything drive_sched.py fakes except the chronicle.'''
import datetime as _dt
import json
import os
import shutil
import tempfile

from hcommon import dawgie, payload, result

import dawgie.pl.logger.chronicle as C

REAL_APPEND = C.append          # before drive_sched replaces it by its recorder

import drive_sched as DS  # noqa: E402

import dawgie.context  # noqa: E402

UTC = _dt.UTC
REAL = _dt.datetime
EPOCH = REAL(1980, 1, 1, tzinfo=UTC)
RECORDER = DS._chron
DS.JOURNAL[0] = False   # the journal of this driver is the one under test


class Frozen(REAL):
    _now = None

    @classmethod
    def now(cls, tz=None):
        # farm.crew() subtracts naive now() readings; complete()/find ask for UTC
        return cls._now if tz is not None else cls._now.replace(tzinfo=None)


def at(ticks):
    d = EPOCH + _dt.timedelta(microseconds=ticks)
    return Frozen(d.year, d.month, d.day, d.hour, d.minute, d.second, d.microsecond, tzinfo=UTC)


def both(entry):
    '''what schedule.complete reaches as dawgie.pl.logger.chronicle.append: the
    real append (files), then the observation drive_sched.py records'''
    REAL_APPEND(entry)
    RECORDER(entry)


C.append = both
ORIG_GEN = DS.gen_event
CUR = {}


def feed(rng, profile, tags, graph, hands, holding, nextw, outs_of, vid, N):
    '''event source of drive_sched.run_case: the next given event, else a
    generated one; stamps the clock reading and the changeset of the event'''
    i = CUR['step']
    CUR['step'] += 1
    CUR['que_before'].append([tags.index(j.tag) for j in DS.S.que])
    given = CUR['given']
    if given is not None and i < len(given):
        ev = given[i]
        if ev[0] in ('reg', 'poll'):
            nextw[0] = max(nextw[0], ev[1])
    else:
        ev = ORIG_GEN(rng, profile, tags, graph, hands, holding, nextw, outs_of, vid, N)
    Frozen._now = at(CUR['clock'][i])
    if ev[0] == 'rep':
        dawgie.context.git_rev = 'c%d' % i
        DS.S.datetime.datetime = Frozen
    else:
        dawgie.context.git_rev = 'REV'
        DS.S.datetime.datetime = REAL
    return ev


DS.gen_event = feed


def snapshot(root):
    out = {}
    base = os.path.join(root, 'chronicles')
    for dp, _dn, fns in os.walk(base):
        for fn in fns:
            p = os.path.join(dp, fn)
            out[os.path.relpath(p, base)] = json.load(open(p))
    return out


def run_case(case, root):
    dawgie.context.data_dbs = root
    CUR.clear()
    CUR.update(step=0, given=case.get('events'), clock=case['clock'], que_before=[])
    inner = dict(case)
    inner.pop('events', None)
    inner['nev'] = len(case['clock'])
    try:
        r = DS.run_case(inner)
    finally:
        DS.S.datetime.datetime = REAL
        dawgie.context.git_rev = 'REV'
    que_before = CUR['que_before']
    snap = snapshot(root)
    files = {rel: [int(e['changeset'][1:]) for e in es] for rel, es in snap.items()}
    entries = {}
    for es in snap.values():
        for e in es:
            entries.setdefault(int(e['changeset'][1:]), []).append({
                'runid': e['runid'], 'status': e['status'], 'target': e['target'], 'task': e['task'],
                'completed': e['timing']['completed'], 'keys': sorted(e),
                'timing_keys': sorted(e['timing'])})
    answers = []
    C.datetime = Frozen
    try:
        for q in case.get('queries', []):
            Frozen._now = at(q['now'])
            kw = {'succeeded': q['succeeded']}
            if q['after'] is not None:
                kw['after'] = at(q['after'])
            if q['before'] is not None:
                kw['before'] = at(q['before'])
            if q['limit'] is not None:
                kw['limit'] = q['limit']
            try:
                got = C.find(**kw)
                answers.append({'ok': [int(e['changeset'][1:]) for e in got],
                                'labels': sorted(set(e['status'] for e in got))})
            except Exception as e:  # the class is the observation
                answers.append({'exc': type(e).__name__, 'msg': str(e)[:200]})
    finally:
        C.datetime = REAL
    return {'graph': r['graph'], 'events': r['events'], 'desc': r['desc'],
            'que_before': que_before, 'outs': [o['outs'] for o in r['obs']],
            'files': files, 'entries': entries, 'answers': answers}


if __name__ == '__main__':
    P = payload()
    out = []
    for case in P['cases']:
        root = tempfile.mkdtemp(prefix='c18sc_')
        try:
            out.append(run_case(case, root))
        finally:
            shutil.rmtree(root, ignore_errors=True)
    result({'cases': out})
