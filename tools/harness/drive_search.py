'''C17: run the REAL dawgie search code (db.basis.SearchFacade._divide/_scrub,
db.shelve.search.SearchImplementation via dawgie.db.shelve.search()) on
generated catalogues and queries.

payload:
  {"dbs": [{"catalog": {"target": [[name, parent|null, ver|null], ...],   # id = position
                        "task": [...], "alg": [...], "state": [...], "value": [...]},
            "prime": [[run, tid, kid, aid, sid, vid], ...],
            "queries": [{"op": "find",  "params": P, "index": i, "limit": l|null}
                        {"op": "find_default", "params": P}           # find(P) with default page
                        {"op": "facet", "params": P}]}],
   "pure": [{"op": "scrub",  "runids": X}      -> SearchFacade._scrub(Params(runids=X)).runids
            {"op": "divide", "runids": X}      -> SearchFacade._divide(X)
            {"op": "contains", "start": a, "stop": b|null, "members": [...]}
            {"op": "ge", "start": a, "stop": b|null, "others": [...]}]}
  P = {"runids": X|null, "targets": [..]|null, "tasks":…, "algs":…, "svs":…, "vals":…}
  X = string | int | {"R": [lo, hi|null]} | list of (int | {"R": [...]})

Only the outside world is arranged here: a fresh shelve database in a temp
directory opened with DBI().open() (no sockets), filled through the real
dawgie.db.shelve.util.append and the prime table (key = str(tuple), as
comms.Worker does).  No search logic is re-implemented.'''
import logging
import os
import shutil
import tempfile

from hcommon import dawgie, payload, result

logging.disable(logging.CRITICAL)

import dawgie.context  # noqa: E402
import dawgie.db.shelve  # noqa: E402
from dawgie.db.basis import Params, Range, SearchFacade  # noqa: E402
from dawgie.db.shelve import util  # noqa: E402
from dawgie.db.shelve.state import DBI  # noqa: E402


class V(dawgie.Version):
    def __init__(self, v):
        self._version_ = dawgie.VERSION(*v)


def dec(x):
    '''JSON -> run-id argument'''
    if isinstance(x, dict):
        lo, hi = x['R']
        return Range(start=lo, stop=hi)
    if isinstance(x, list):
        return [dec(y) for y in x]
    return x


def enc(x):
    if isinstance(x, Range):
        return {'R': [x.start, x.stop]}
    if isinstance(x, (list, tuple)):
        return [enc(y) for y in x]
    if isinstance(x, (set, frozenset)):
        return sorted(enc(y) for y in x)
    if type(x) is bool or x is None or type(x) in (int, str):
        return x
    return {'repr': repr(x), 'type': type(x).__name__}


def mkparams(p):
    return Params(
        runids=dec(p.get('runids')),
        targets=p.get('targets'),
        tasks=p.get('tasks'),
        algs=p.get('algs'),
        svs=p.get('svs'),
        vals=p.get('vals'),
    )


def guarded(fn):
    try:
        return {'ok': fn()}
    except Exception as e:  # the exception class is the observation
        return {'exc': type(e).__name__, 'msg': str(e)[:200]}


def run_db(spec, root):
    for s in ('db', 'dbs', 'stg'):
        os.makedirs(os.path.join(root, s))
    dawgie.context.db_impl = 'shelve'
    dawgie.context.db_path = os.path.join(root, 'db')
    dawgie.context.data_dbs = os.path.join(root, 'dbs')
    dawgie.context.data_stg = os.path.join(root, 'stg')
    DBI().open()
    T, I = DBI().tables, DBI().indices
    ids = {}
    for kind in ('target', 'task', 'alg', 'state', 'value'):
        got = []
        for name, parent, ver in spec['catalog'][kind]:
            _e, idx, _n = util.append(
                name, getattr(T, kind), getattr(I, kind), parent,
                V(ver) if ver is not None else None,
            )
            got.append(idx)
        ids[kind] = got
    for pk in spec['prime']:
        T.prime[str(tuple(pk))] = 'x'
    S = dawgie.db.shelve.search()
    out = []
    for q in spec['queries']:
        if q['op'] == 'find':
            def f(q=q):
                r = S.find(mkparams(q['params']), q['index'], q['limit'])
                return {'items': list(r.items), 'total': r.total,
                        'types': [type(r.items).__name__, type(r.total).__name__]}
        elif q['op'] == 'find_default':
            def f(q=q):
                r = S.find(mkparams(q['params']))
                return {'items': list(r.items), 'total': r.total,
                        'types': [type(r.items).__name__, type(r.total).__name__]}
        elif q['op'] == 'facet':
            def f(q=q):
                r = S.facet(mkparams(q['params']))
                return {'names': enc(r), 'types': [type(r).__name__]}
        else:
            raise SystemExit('unknown op %r' % q['op'])
        out.append(guarded(f))
    DBI().close()
    return {'ids': ids, 'answers': out}


def run_pure(q):
    if q['op'] == 'scrub':
        def f():
            p = SearchFacade._scrub(Params(runids=dec(q['runids'])))
            return {'runids': enc(p.runids), 'rest': enc(list(p[1:]))}
    elif q['op'] == 'divide':
        def f():
            i, r = SearchFacade._divide(dec(q['runids']))
            return {'indices': sorted(enc(x) for x in i), 'ranges': enc(r),
                    'types': [type(i).__name__, type(r).__name__]}
    elif q['op'] == 'contains':
        def f():
            r = Range(start=q['start'], stop=q['stop'])
            vals = [m in r for m in q['members']]
            return {'vals': vals, 'raw': [enc(r.__contains__(m)) for m in q['members']]}
    elif q['op'] == 'ge':
        def f():
            r = Range(start=q['start'], stop=q['stop'])
            return {'vals': [enc(r >= o) for o in q['others']]}
    else:
        raise SystemExit('unknown op %r' % q['op'])
    return guarded(f)


P = payload()
res = {'dbs': [], 'pure': []}
for spec in P.get('dbs', []):
    root = tempfile.mkdtemp(prefix='c17_')
    try:
        res['dbs'].append(run_db(spec, root))
    finally:
        try:
            DBI().close()
        except Exception:
            pass
        shutil.rmtree(root, ignore_errors=True)
for q in P.get('pure', []):
    res['pure'].append(run_pure(q))
result(res)
