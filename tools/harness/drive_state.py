'''Validation driver of tools/translate/state2coq.py: single METHODS of the REAL
dawgie.pl.state.FSM (non-doctest mode, world of fsm_world.py) called on a
state set attribute by attribute, observed afterwards.

payload: {"units": [{"f": method, "st","tr","prior","prio","waits","handles",
                     "archive", "arg", "k", "env"}, ...]}
   handles: per kind None | "Polling" | "Finished"
result : {"units": [{"ret":.., "out":.., "st","tr","prior","pending","archive",
                     "priority","waits","handles","hops"}, ...]}'''
from hcommon import dawgie, payload, result  # noqa: F401
import fsm_world

KINDS = ['crew', 'doing', 'todo']


def prepare(w, u):
    fsm, ST = w.fsm, w.ST
    fsm.machine.set_state(u['st'])
    fsm._FSM__transitioning = ST.Status[u['tr']]
    fsm._FSM__prior = u.get('prior')
    p = u.get('prio')
    fsm.priority = None if p is None else w.TS.Priority[p]
    for k, flag in zip(KINDS, u['waits']):
        ev = getattr(fsm, 'wait_on_' + k)
        if flag:
            ev.clear()
        else:
            ev.set()
    for k, h in zip(KINDS, u['handles']):
        cur = getattr(fsm, k + '_thread')
        if h is None:
            if cur is not None and cur in w.pollers:
                w.pollers.remove(cur)
            setattr(fsm, k + '_thread', None)
        else:
            if cur is None:
                cur = fsm_world.FakeDeferred(w, getattr(fsm, 'is_%s_done' % k), (), {})
                w.pollers.append(cur)
                setattr(fsm, k + '_thread', cur)
            cur.finished = (h == 'Finished')
    w.F.ARCHIVE = bool(u.get('archive'))
    w.hops = []


W = []


def one(u):
    # one FSM object serves many units (building one parses state.dot): every
    # modelled attribute is set by prepare(), the world's queues are emptied here
    if not W or W[0][1] >= 100:
        W[:] = [[fsm_world.World(), 0]]
    W[0][1] += 1
    w = W[0][0]
    for p in w.pollers:
        p.kill()
    w.pollers[:] = []
    w.bg[:] = []
    w.later[:] = []
    w.fsm.crew_thread = w.fsm.doing_thread = w.fsm.todo_thread = None
    w.fsm._FSM__transitioning = w.ST.Status.active
    fsm, ST = w.fsm, w.ST
    f = u['f']
    w.current = ['unit', f]
    call = None
    if f == 'active':
        call = fsm.is_pipeline_active
    elif f == 'setter':
        def call():
            fsm.transitioning = ST.Status[u['arg']]
    elif f == 'waiting':
        call = getattr(fsm, 'waiting_on_' + u['k'])
    elif f in ('reset', 'save_prior_state', 'start', 'load', 'navel_gaze', 'reload', 'archive',
               'wait_for_nothing', 'submit_crossroads', '_navel_gaze', '_archive_done'):
        call = getattr(fsm, f)
    elif f == 'wait_for':
        call = getattr(fsm, 'wait_for_' + u['k'])
    elif f == 'set_submit_info':
        def call():
            return fsm.set_submit_info('c', u['arg'])
    elif f == 'done':
        # the nested done() of wait_for_K: the callback given to the poller
        getattr(fsm, 'wait_for_' + u['k'])()
        fd = getattr(fsm, u['k'] + '_thread')
        cb = fd.cbs[0]

        def call():
            w.pollers.remove(fd)          # the thread has returned; the reactor runs the callback
            return cb(None)
    elif f == 'poll':
        getattr(fsm, 'wait_for_' + u['k'])()
    elif f in ('load_done', 'reload_done'):
        getattr(fsm, f[:-5])()
        d = w.bg.pop(0)

        def call():
            r = d.body()
            for cb in d.cbs:
                cb(r)
    else:
        raise ValueError(f)
    prepare(w, u)
    out, ret = 'Ok', None
    if f == 'poll':
        o = w.do(['Poll', u['k']] + list(u['env']))
        ret = o['handles'][KINDS.index(u['k'])] == 'Polling'       # the loop continues
        for p in w.pollers:
            p.kill()
        o['ret'] = ret
        o['hops'] = [list(h) for h in o['hops']]
        w.hops = []
        return o
    try:
        ret = call()
    except BaseException as e:   # noqa: BLE001
        out = fsm_world.classify(e)
    o = w.observe()
    o['out'] = out
    o['hops'] = [list(h) for h in w.hops]
    o['ret'] = ret if isinstance(ret, bool) else None
    return o


result({'units': [one(u) for u in payload()['units']]})
