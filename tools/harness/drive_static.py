'''C19 static half: run the REAL dawgie.fe._static on real directory trees.

payload: {"trees": [{"name": str,
                     "ops": [["dir", rel] | ["file", rel, content]
                             | ["link", rel, target]   ("{BASE}" is expanded)],
                     "fe": rel-or-abs, "bd": rel-or-abs, "isdep": bool,
                     "requests": [str, ...]}]}
result : per tree the base directory, the manifest of regular files (real
path -> content, built by this driver, not by the code under test), and per
request the bytes returned (latin-1) or the exception class, together with a
record of every question the code asked the operating system while serving it:
Path.resolve / Path.is_dir / Path.is_file are wrapped by recorders that call
the original method (the OS is not faked, only observed).  Paths are reported
as lists of parts (after "/") of code points.'''
import logging
import os
import pathlib
import shutil
import tempfile

from hcommon import dawgie, payload, result

logging.disable(logging.CRITICAL)
import dawgie.context  # noqa: E402

FE0 = tempfile.mkdtemp(prefix='c19fe_', dir=os.getcwd())
dawgie.context.fe_path = FE0
import dawgie.fe  # noqa: E402  (registers endpoints; needs an fe_path)

P = payload()
REC = None
_resolve = pathlib.Path.resolve
_is_dir = pathlib.Path.is_dir
_is_file = pathlib.Path.is_file


def enc(p):
    s = str(p)
    if not s.startswith('/'):
        return {'relative': s}
    return [[ord(c) for c in part] for part in pathlib.PurePosixPath(s).parts[1:]]


def rec_resolve(self, strict=False):
    try:
        out = _resolve(self, strict=strict)
    except BaseException as e:  # recorded, then re-raised unchanged
        if REC is not None:
            REC['resolve'].append([enc(self), None, type(e).__name__])
        raise
    if REC is not None:
        REC['resolve'].append([enc(self), enc(out), None])
    return out


def rec_bool(kind, orig):
    def f(self):
        try:
            out = orig(self)
        except BaseException as e:
            if REC is not None:
                REC[kind].append([enc(self), None, type(e).__name__])
            raise
        if REC is not None:
            REC[kind].append([enc(self), bool(out), None])
        return out
    return f


pathlib.Path.resolve = rec_resolve
pathlib.Path.is_dir = rec_bool('is_dir', _is_dir)
pathlib.Path.is_file = rec_bool('is_file', _is_file)

out = []
for tree in P['trees']:
    base = os.path.realpath(tempfile.mkdtemp(prefix='c19_', dir=os.getcwd()))
    manifest = {}
    for op in tree['ops']:
        path = os.path.join(base, op[1])
        if op[0] == 'dir':
            os.makedirs(path, exist_ok=True)
        elif op[0] == 'file':
            os.makedirs(os.path.dirname(path), exist_ok=True)
            with open(path, 'w', encoding='utf-8') as f:
                f.write(op[2])
            manifest[path] = op[2]
        elif op[0] == 'link':
            os.makedirs(os.path.dirname(path), exist_ok=True)
            os.symlink(op[2].replace('{BASE}', base), path)
        else:
            raise ValueError(op)

    def ab(x):
        x = x.replace('{BASE}', base)
        return x if x.startswith('/') else os.path.join(base, x)

    fe, bd = ab(tree['fe']), ab(tree['bd'])
    dawgie.context.fe_path = fe
    reqs = []
    for fn in tree['requests']:
        fn = fn.replace('{BASE}', base)
        REC = {'resolve': [], 'is_dir': [], 'is_file': []}
        try:
            r = dawgie.fe._static(fn, bd, bool(tree.get('isdep')))
            obs = {'bytes': r.decode('latin-1')}
        except BaseException as e:  # what BaseResource.render would turn into a 500
            obs = {'exc': type(e).__name__}
        rec, REC = REC, None
        reqs.append({'fn': fn, 'obs': obs, 'rec': rec})
    out.append({
        'name': tree['name'], 'base': base, 'fe': enc(fe), 'bd': enc(bd),
        'fe_str': fe, 'bd_str': bd,
        # independent ground truth for the oracle: real path of every regular
        # file of the tree (os.path.realpath, not pathlib) and the real roots
        'files': {os.path.realpath(k): v for k, v in manifest.items()},
        'real_fe': os.path.realpath(fe), 'real_bd': os.path.realpath(bd),
        'requests': reqs,
    })
    shutil.rmtree(base, ignore_errors=True)
shutil.rmtree(FE0, ignore_errors=True)
result({'trees': out})
