'''C06/C07/C08 driver: operation histories on the REAL shelve backend
(dawgie.db.shelve, db.util) with the socket layer replaced by a direct call of
comms.Worker.do (as Test/test_07.py does) and crash points injected from the
outside by wrapping os.unlink / shutil.move / tempfile.mkstemp / pickle.dump /
subprocess.check_output inside dawgie.db.util and the prime table __setitem__.

payload: {"histories": [[op, ...], ...], "units": [unit, ...]}
result : {"histories": [{"obs": [...], "final": {...}}, ...], "units": [...]}

Nothing of the code under test is re-implemented here; the classes below are
ordinary client code (an Algorithm, a StateVector, a Value, a Task).'''
import hashlib
import logging
import os
import pickle
import shelve
import shutil
import subprocess
import tempfile

from hcommon import dawgie, payload, result

import dawgie.context
import dawgie.db
import dawgie.db.shelve
import dawgie.db.shelve.comms as comms
import dawgie.db.util
from dawgie.db.shelve import util
from dawgie.db.shelve.state import DBI

logging.disable(logging.CRITICAL)

# ---- the outside world ------------------------------------------------------
_resp = [None]
comms.acquire = lambda name: True
comms.release = lambda s: True


def _do(request):
    _resp[0] = None
    comms.Worker(None).do(request)
    return _resp[0]


comms.Connector._Connector__do = staticmethod(_do)
comms.Worker._send = lambda self, r: _resp.__setitem__(0, r)


class Crash(Exception):
    pass


class CrashOS(Crash, OSError):
    '''the fault the process SURVIVES (op field `fault: "oserror"`): the step is
    refused with an OSError (no space left), so every `except OSError` of the
    code under test sees it; the driver still recognises it as the injected
    stop.  Nothing is restarted afterwards: what the code keeps in memory
    stays.'''


class Steps:
    count = 0
    crash_at = None
    os_fault = False
    trace = []

    @classmethod
    def arm(cls, k, os_fault=False):
        cls.count = 0
        cls.crash_at = k
        cls.os_fault = os_fault
        cls.trace = []

    @classmethod
    def tick(cls, what):
        cls.count += 1
        if cls.crash_at is not None and cls.count == cls.crash_at:
            cls.trace.append('CRASH@' + what)
            if cls.os_fault:
                raise CrashOS(28, 'No space left on device: ' + what)
            raise Crash(what)
        cls.trace.append(what)


class Proxy:
    def __init__(self, mod, over):
        self._m = mod
        self._o = over

    def __getattr__(self, n):
        o = self.__dict__['_o']
        if n in o:
            return o[n]
        return getattr(self.__dict__['_m'], n)


def _wrap(what, f):
    def g(*a, **k):
        Steps.tick(what)
        return f(*a, **k)

    return g


U = dawgie.db.util
U.os = Proxy(os, {'unlink': _wrap('unlink', os.unlink)})
U.shutil = Proxy(shutil, {'move': _wrap('move', shutil.move)})
U.tempfile = Proxy(tempfile, {'mkstemp': _wrap('mkstemp', tempfile.mkstemp)})
U.pickle = Proxy(pickle, {'dump': _wrap('dump', pickle.dump)})


class Sums:
    '''md5sum / sha1sum are external programs (about 50 ms per spawn in this
    sandbox): after the first REAL calls they are answered by a hashlib
    stand-in that prints the same line; every real call is compared with the
    stand-in and a disagreement is reported in the result.'''
    real_left = 40
    real_calls = 0
    fake_calls = 0
    agree = True

    @staticmethod
    def fake(cmd):
        algo = {'md5sum': hashlib.md5, 'sha1sum': hashlib.sha1}[cmd[0]]
        with open(cmd[-1], 'rb') as f:
            h = algo(f.read()).hexdigest()
        return ('%s *%s\n' % (h, cmd[-1])).encode()

    @classmethod
    def check_output(cls, cmd, *a, **k):
        Steps.tick('digest')
        if cmd[0] not in ('md5sum', 'sha1sum') or cmd[1] != '-b':
            return subprocess.check_output(cmd, *a, **k)
        if cls.real_left > 0:
            cls.real_left -= 1
            cls.real_calls += 1
            out = subprocess.check_output(cmd, *a, **k)
            if out != cls.fake(cmd):
                cls.agree = False
            return out
        cls.fake_calls += 1
        return cls.fake(cmd)


U.subprocess = Proxy(subprocess, {'check_output': Sums.check_output})
_shelf_set = shelve.Shelf.__setitem__


WF = {'left': 0, 'hit': 0}


def _setitem(self, key, value):
    if DBI().tables.prime is self:
        Steps.tick('record')
    elif WF['left']:
        # a write to one of the catalogue tables is refused by the file system
        # (no space, quota, I/O error); the database process carries on
        WF['left'] -= 1
        if not WF['left']:
            WF['hit'] += 1
            raise OSError(28, 'No space left on device')
    return _shelf_set(self, key, value)


shelve.Shelf.__setitem__ = _setitem


# ---- client classes -----------------------------------------------------------
class Val(dawgie.Value):
    def __init__(self, ver=(1, 0, 0), content=None):
        dawgie.Value.__init__(self)
        self._version_ = dawgie.VERSION(*ver)
        self.content = content

    def features(self):
        return []


class SV(dawgie.StateVector):
    def __init__(self, name, ver, vals):
        dawgie.StateVector.__init__(self)
        self._version_ = dawgie.VERSION(*ver)
        self._n = name
        for v in vals:
            self[v[0]] = Val(v[1], v[2] if len(v) > 2 else None)

    def name(self):
        return self._n

    def view(self, caller, visitor):
        return


class Work(dawgie.Algorithm):
    def __init__(self, name, ver, sv):
        dawgie.Algorithm.__init__(self)
        self._version_ = dawgie.VERSION(*ver)
        self._n = name
        self._svs = [sv]

    def name(self):
        return self._n

    def previous(self):
        return []

    def run(self, *a, **k):
        return

    def state_vectors(self):
        return self._svs


class Bot(dawgie.Task):
    def list(self):
        return []


# ---- observation --------------------------------------------------------------
def code_of(obj):
    '''the content of a stored / loaded Val: [content, sealed version]'''
    seal = getattr(obj, '_version_seal_', None)
    return [getattr(obj, 'content', 'NOCONTENT'), list(seal) if seal else None]


def observe():
    T, I = DBI().tables, DBI().indices
    out = {'lens': [len(I.target), len(I.task), len(I.alg), len(I.state),
                    len(I.value)]}
    inv = True
    for name in ('target', 'task', 'alg', 'state', 'value'):
        tb, ix = getattr(T, name), getattr(I, name)
        if sorted(tb.values()) != list(range(len(tb))):
            inv = False
        if len(ix) != len(tb) or any(tb.get(n) != i for i, n in enumerate(ix)):
            inv = False
    out['bijection'] = inv
    files = {}
    digest_ok = True
    for fn in sorted(os.listdir(dawgie.context.data_dbs)):
        b = open(os.path.join(dawgie.context.data_dbs, fn), 'rb').read()
        ok = fn == hashlib.md5(b).hexdigest() + '_' + hashlib.sha1(b).hexdigest()
        digest_ok = digest_ok and ok
        files[fn] = code_of(pickle.loads(b))
    out['store'] = [files[k] for k in sorted(files)]
    out['store_names'] = sorted(files)
    out['digest_ok'] = digest_ok
    stage = []
    for fn in sorted(os.listdir(dawgie.context.data_stg)):
        b = open(os.path.join(dawgie.context.data_stg, fn), 'rb').read()
        stage.append(code_of(pickle.loads(b)) if b else None)
    out['stage'] = stage
    prime = []
    for k, blob in T.prime.items():
        prime.append([list(eval(k)), files.get(blob, 'DANGLING'), blob])
    out['prime'] = sorted(prime, key=lambda e: e[0])
    return out


def full_dump():
    T, I = DBI().tables, DBI().indices
    names = ('target', 'task', 'alg', 'state', 'value')
    try:    # the persisted versions a (re)load compares the software with
        _t, a, s, v = dawgie.db.shelve.versions()
        vers = [sorted((k, sorted(set(x))) for k, x in d.items()) for d in (a, s, v)]
    except Exception as e:  # pylint: disable=broad-except
        vers = {'exc': type(e).__name__}
    return {
        'indices': [list(getattr(I, n)) for n in names],
        'tables': [sorted(dict(getattr(T, n)).items(), key=lambda t: (t[1], t[0]))
                   for n in names],
        'versions': vers,
    }


def mk(o, untouched=False):
    vals = [[v[0], v[1], (None if untouched else (v[2] if len(v) > 2 else None))]
            for v in o['vals']]
    sv = SV(o['sv'], o['sver'], vals)
    if untouched:
        for k in sv:
            sv[k].content = 'UNTOUCHED'
    w = Work(o['alg'], o['aver'], sv)
    return w, sv


_conn = {}


def session(o, untouched=False):
    '''(w, sv, bot, ds) for a load / update.  An operation flagged `same_conn`
    that addresses the same run, target, task, algorithm and state vector
    (names and versions) as the previous load / update re-uses that
    operation's connection object -- one worker doing load(), run(),
    update() on one dawgie.db.connect() -- with the objects of its state vector
    replaced by this operation's (base values before run(), current values
    after).  Anything else gets a fresh connection.'''
    key = (o['run'], o['tn'], o['task'], o['alg'], tuple(o['aver']), o['sv'],
           tuple(o['sver']))
    w, sv = mk(o, untouched=untouched)
    if o.get('same_conn') and _conn.get('key') == key:
        w0, sv0, bot0, ds0 = _conn['val']
        for k in list(sv0):
            del sv0[k]
        for k in sv:
            sv0[k] = sv[k]
        return w0, sv0, bot0, ds0
    bot = Bot(o['task'], 0, o['run'], o['tn'])
    ds = dawgie.db.connect(w, bot, o['tn'])
    _conn['key'] = key
    _conn['val'] = (w, sv, bot, ds)
    return w, sv, bot, ds


def do_op(o):
    '''returns the reply (JSON-able); raises nothing'''
    kind = o['op']
    if kind not in ('upd', 'load'):
        _conn.clear()
    try:
        if kind == 'add':
            return {'r': bool(dawgie.db.shelve.add(o['tn']))}
        if kind == 'reg':
            w, sv = mk(dict(o, vals=[[o['vn'], o['vver']]]))
            dawgie.db.shelve.update(Bot(o['task'], 0, 0, 'x'), w, sv, o['vn'],
                                    sv[o['vn']])
            return {'r': None}
        if kind == 'upd':
            w, sv, bot, ds = session(o)
            n_before = len(bot.new_values())
            Steps.arm(o.get('crash'), o.get('fault') == 'oserror')
            try:
                ds._update()
                crashed = False
            except Crash:
                crashed = True
            finally:
                Steps.crash_at = None
            return {'r': [[n, bool(f)] for n, f in bot.new_values()[n_before:]],
                    'crashed': crashed, 'steps': list(Steps.trace)}
        if kind == 'load':
            w, sv, bot, ds = session(o, untouched=True)
            ds._load()
            got = []
            for k in sv:
                v = sv[k]
                got.append([k, None if getattr(v, 'content', None) == 'UNTOUCHED'
                            else code_of(v)])
            msv = [[k, None if ds.msv[k].value() == -1 else 'LOADED']
                   for k in ds.msv]
            # the algorithm that loaded the values then works on them in place
            # (what it was handed is its own copy: a later load must not see it)
            for k in sv:
                v = sv[k]
                if getattr(v, 'content', None) != 'UNTOUCHED':
                    v.content = ['EDITED-IN-PLACE', getattr(v, 'content', None)]
                    v._version_seal_ = None
            return {'r': got, 'msv': msv,
                    'msv_ver': [list(ds.msv._get_ver()),
                                [[k, list(ds.msv[k]._get_ver())] for k in ds.msv]]}
        if kind == 'remove':
            dawgie.db.shelve.remove(o['run'], o['tn'], o['task'], o['alg'],
                                    o['sv'], o['vn'])
            return {'r': None}
        if kind == 'reopen':
            DBI().close()
            DBI().open()
            return {'r': None}
        if kind == 'next':
            return {'r': dawgie.db.shelve.next()}
        if kind == 'trace':
            res = dawgie.db.shelve.trace(['.'.join(t) for t in o['tans']])
            return {'r': sorted([tn, sorted(row.items())] for tn, row in res.items())}
        if kind == 'reset':
            w = Work(o['alg'], (0, 0, 0), SV('zz', (0, 0, 0), []))
            seen = []

            class RecSV:
                def __init__(self, n):
                    self.n = n

                def _set_ver(self, v):
                    seen[-1][1] = [self.n, list(v)]

            class Rec(dict):
                def __contains__(self, k):
                    return True

                def __getitem__(self, k):
                    return RecSV(k)

            rec = Rec()
            w.sv_as_dict = lambda: rec
            orig = w._set_ver
            w._set_ver = lambda v: (seen.append([list(v), None]), orig(v))[1]
            dawgie.db.shelve.reset(o['run'], o['tn'], o['task'], w)
            return {'r': sorted(seen), 'final': list(w._get_ver())}
        if kind == 'names':
            return {'r': sorted(dawgie.db.shelve._prime_keys())}
        raise RuntimeError('unknown op ' + kind)
    except Crash:
        raise
    except Exception as e:  # the reply of the model is "exception"
        return {'exc': type(e).__name__}


def run_history(ops, root):
    for s in ('db', 'dbs', 'stg'):
        os.makedirs(os.path.join(root, s))
    dawgie.context.db_impl = 'shelve'
    dawgie.context.db_path = root + '/db'
    dawgie.context.data_dbs = root + '/dbs'
    dawgie.context.data_stg = root + '/stg'
    DBI().open()
    obs = []
    try:
        faulty = any(o.get('wfail') or o.get('fault') for o in ops)
        for o in ops:
            WF['left'], h0 = int(o.get('wfail') or 0), WF['hit']
            try:
                rep = do_op(o)
            finally:
                WF['left'] = 0
            ob = observe()
            ob['reply'] = rep
            if o.get('wfail'):
                ob['write_refused'] = WF['hit'] > h0
            if o['op'] == 'reopen' or faulty:
                ob['dump'] = full_dump()
            obs.append(ob)
        fin = full_dump()
    finally:
        DBI().close()
    return {'obs': obs, 'final': fin}


class LV(dawgie.Version):
    def __init__(self, v):
        self._version_ = dawgie.VERSION(*v)


def unit(u):
    f = u['f']
    try:
        if f == 'construct':
            return {'r': util.construct(u['name'], u['parent'],
                                        LV(u['ver']) if u['ver'] else None)}
        if f == 'dissect':
            p, n, v = util.dissect(u['s'])
            return {'r': [p, n, [v.design(), v.implementation(), v.bugfix()]
                          if v is not None else None]}
        if f == 'subset':
            t = dict(u['table'])
            return {'r': sorted(util.subset(t, u['name'], u['parents']).items(),
                                key=lambda e: (e[1], e[0]))}
        if f == 'indexed':
            return {'r': util.indexed(dict(u['table']))}
        if f == 'append':
            t, ix = dict(u['table']), list(u['index'])
            r = util.append(u['name'], t, ix, u['parent'],
                            LV(u['ver']) if u['ver'] else None)
            return {'r': [bool(r[0]), r[1], r[2]],
                    'table': sorted(t.items(), key=lambda e: (e[1], e[0])),
                    'index': ix}
        if f == 'psubset':
            t = {str(tuple(k)): 'b' for k in u['keys']}
            return {'r': sorted(list(eval(k)) for k in util.subset(t, u['prefix']))}
        raise RuntimeError('unknown unit ' + f)
    except Exception as e:
        return {'exc': type(e).__name__}


if __name__ == '__main__':
    P = payload()
    out = {'histories': [], 'units': []}
    Sums.real_left = int(P.get('real_sums', 40))
    base = tempfile.mkdtemp(prefix='dvstore_', dir=os.getcwd())
    try:
        for i, h in enumerate(P.get('histories', [])):
            root = os.path.join(base, 'h%d' % i)
            os.makedirs(root)
            out['histories'].append(run_history(h, root))
            shutil.rmtree(root, ignore_errors=True)
        for u in P.get('units', []):
            out['units'].append(unit(u))
    finally:
        shutil.rmtree(base, ignore_errors=True)
    out['sums'] = {'real': Sums.real_calls, 'standin': Sums.fake_calls,
                   'agree': Sums.agree}
    result(out)
