'''C12 implementation-side driver: event lists on the REAL FSM waiters
(set_submit_info, submit_crossroads, wait_for_*, is_*_done, done callbacks)
through fsm_world.py, and the REAL tools.submit.Priority.max on argument lists
(validation of the generated Gen/PriorityGen.v).

payload: {"cases": [...], "max_lists": [[name|null, ...], ...]}
result : {"runs": [...], "edges": [...], "max": [name, ...], "values": {name: value}}'''
from hcommon import dawgie, payload, result  # noqa: F401
import fsm_world
import dawgie.tools.submit as TS

P = payload()
runs = [fsm_world.run_case(c) for c in P.get('cases', [])]
mx = []
for l in P.get('max_lists', []):
    args = [None if x is None else TS.Priority[x] for x in l]
    mx.append(TS.Priority.max(*args).name)
result({'runs': runs, 'edges': fsm_world.documented_edges(), 'max': mx,
        'values': {p.name: p.value for p in TS.Priority}})
