'''C15 order half: evaluate the REAL dawgie.Version operators on every pair of
a finite domain (translator validation + failing-input search).'''
import itertools

from hcommon import dawgie, payload, result


class V(dawgie.Version):
    def __init__(self, d, i, b):
        self._version_ = dawgie.VERSION(d, i, b)


P = payload()
dom = list(P['domain'])
if P.get('boundaries'):
    # add the integer literals of the Version class (and neighbours) so that a
    # comparison against a constant is exercised on both sides
    import ast, inspect
    for n in ast.walk(ast.parse(inspect.getsource(dawgie.Version))):
        if isinstance(n, ast.Constant) and type(n.value) is int and abs(n.value) < 10**6:
            dom += [n.value - 1, n.value, n.value + 1]
    dom = sorted(set(dom))[:12]

vs = [tuple(t) for t in itertools.product(dom, repeat=3)]
ops = ['__eq__', '__ne__', '__ge__', '__gt__', '__le__', '__lt__']
out = {o: [] for o in ops}
out['newer'] = []
for a in vs:
    A = V(*a)
    for b in vs:
        B = V(*b)
        for o in ops:
            out[o].append(bool(getattr(A, o)(B)))
        out['newer'].append(bool(A.newer(dawgie.VERSION(*b))))


# ---- the classes that carry a version in an engine --------------------------
def carriers():
    def ver(o, v):
        o._version_ = dawgie.VERSION(*v)
        return o

    class Alg(dawgie.Algorithm):
        def name(self):
            return 'alg'

    class Ana(dawgie.Analyzer):
        def name(self):
            return 'ana'

    class Reg(dawgie.Regression):
        def name(self):
            return 'reg'

    class Val(dawgie.Value):
        def features(self):
            return []

    class SV(dawgie.StateVector):
        def name(self):
            return 'sv'

        def view(self, *_a):
            return None

    def sv(contents):
        def mk(v):
            s = SV()
            s.update(contents(v))
            return ver(s, v)
        return mk

    return {
        'Algorithm': lambda v: ver(Alg(), v), 'Analyzer': lambda v: ver(Ana(), v),
        'Regression': lambda v: ver(Reg(), v), 'Value': lambda v: ver(Val(), v),
        'StateVector(empty)': sv(lambda v: {}),
        'StateVector(same contents)': sv(lambda v: {'k': 1}),
        'StateVector(contents differ with the version)': sv(lambda v: {'k': v}),
        'StateVector(contents differ against the version)': sv(lambda v: {'k': sum(v) % 2}),
    }


cdom = P.get('carrier_domain', [0, 1, 2])
cvs = [tuple(t) for t in itertools.product(cdom, repeat=3)]
ctab = {}
for cname, mk in carriers().items():
    t = {o: [] for o in ops}
    t['newer'] = []
    try:
        for a in cvs:
            A = mk(a)
            for b in cvs:
                B = mk(b)
                for o in ops:
                    t[o].append(bool(getattr(A, o)(B)))
                t['newer'].append(bool(A.newer(dawgie.VERSION(*b))))
        ctab[cname] = t
    except Exception as e:  # pylint: disable=broad-except
        ctab[cname] = {'exc': type(e).__name__ + ': ' + str(e)[:200]}
result({'n': len(vs), 'tables': out, 'domain': dom, 'carriers': ctab, 'carrier_versions': cvs})
