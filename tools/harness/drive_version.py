'''C15 order half: evaluate the REAL dawgie.Version operators on every pair of
a finite domain (translator validation + failing-input search).'''
import itertools

from hcommon import dawgie, payload, result


class V(dawgie.Version):
    def __init__(self, d, i, b):
        self._version_ = dawgie.VERSION(d, i, b)


P = payload()
dom = list(P['domain'])
if P.get('boundaries'):
    # add the integer literals of the Version class (and neighbours) so that a
    # comparison against a constant is exercised on both sides
    import ast, inspect
    for n in ast.walk(ast.parse(inspect.getsource(dawgie.Version))):
        if isinstance(n, ast.Constant) and type(n.value) is int and abs(n.value) < 10**6:
            dom += [n.value - 1, n.value, n.value + 1]
    dom = sorted(set(dom))[:12]

vs = [tuple(t) for t in itertools.product(dom, repeat=3)]
ops = ['__eq__', '__ne__', '__ge__', '__gt__', '__le__', '__lt__']
out = {o: [] for o in ops}
out['newer'] = []
for a in vs:
    A = V(*a)
    for b in vs:
        B = V(*b)
        for o in ops:
            out[o].append(bool(getattr(A, o)(B)))
        out['newer'].append(bool(A.newer(dawgie.VERSION(*b))))
result({'n': len(vs), 'tables': out, 'domain': dom})
