'''C05, worker side: the REAL dawgie.pl.worker.cluster.execute on a scripted
farm connection.  The algorithm's run (dawgie.pl.worker.Context.run, outside
cluster.py) is replaced by a function that ends the way the case says; the
sockets, the database reopen/close and the log re-routing are the outside world.

payload: {'cases': [{'ending': 0..5, 'abort': bool, 'jobid': str, 'runid': int,
                     'target': str|None}]}
          ending 0 return, 1 NoValidInputDataError, 2 NoValidOutputDataError,
                 3 an Exception (RuntimeError / AbortAEError), 4 SystemExit, 5 KeyboardInterrupt
result : {'cases': [{'sent': [...messages written on the second connection...],
                     'escaped': name|None}]}
'''
import struct
import sys
import types

from hcommon import dawgie, payload, result

import dawgie.db
import dawgie.pl.message as M
import dawgie.pl.worker
import dawgie.pl.worker.cluster as C
import dawgie.security


class Sock:
    def __init__(self, incoming):
        self.inc = bytearray(incoming)
        self.out = bytearray()
        self.closed = False

    def recv(self, n):
        if not self.inc:
            raise ConnectionError('scripted connection has nothing more to say')
        b = bytes(self.inc[:n])
        del self.inc[:n]
        return b

    def sendall(self, b):
        self.out += b

    def close(self):
        self.closed = True


def frame(m):
    p = M.dumps(m)
    return struct.pack('>I', len(p)) + p


def unframe(buf):
    out = []
    while buf:
        n = struct.unpack('>I', bytes(buf[:4]))[0]
        out.append(M.loads(bytes(buf[4:4 + n])))
        buf = buf[4 + n:]
    return out


mod = types.ModuleType('dv_worker_ae')
mod.task = lambda *a, **k: None
sys.modules['dv_worker_ae'] = mod
dawgie.pl.worker.load_context_with_overrides = lambda ctx: None
dawgie.db.reopen = lambda *a, **k: None
dawgie.db.close = lambda *a, **k: None


class _Log:
    def reassign(self, *a, **k):
        return None


dawgie.pl.worker.LOGGING = _Log()
CASE = {}
CONNS = []


def _connect(address):
    if not CONNS:
        # first connection: register, wait..., then the task
        task = M.make(typ=M.Type.task, ctxt=b'', fac=('dv_worker_ae', 'task'), target=CASE['target'],
                      jid=CASE['jobid'], rid=CASE['runid'], psh=1, tim={'scheduled': 'x'})
        s = Sock(frame(M.make(typ=M.Type.wait)) + frame(task))
    else:
        s = Sock(b'')
    CONNS.append(s)
    return s


dawgie.security.connect = _connect


class Ctx:
    def __init__(self, address, rev):
        pass

    def abort(self):
        return bool(CASE['abort'])

    def run(self, factory, ps_hint, jobid, runid, target, timing):
        e = CASE['ending']
        timing['started'] = 'y'
        if e == 0:
            return [('%s.%s.sv.v' % (runid, target), True)]
        if e == 1:
            raise dawgie.NoValidInputDataError('no input')
        if e == 2:
            raise dawgie.NoValidOutputDataError('no output')
        if e == 3:
            raise (RuntimeError('boom') if runid % 2 else dawgie.AbortAEError('abort'))
        if e == 4:
            sys.exit(3)
        raise KeyboardInterrupt()


dawgie.pl.worker.Context = Ctx


def run_case(c):
    CASE.clear()
    CASE.update(c)
    del CONNS[:]
    escaped = None
    try:
        C.execute(('farm', 8081), 1, 1, 'REV')
    except BaseException as e:  # noqa: what leaves execute() is an observation
        escaped = type(e).__name__
    sent = []
    for s in CONNS[1:]:
        for m in unframe(s.out):
            sent.append({'type': m.type.name, 'success': m.success, 'jobid': m.jobid, 'runid': m.runid,
                         'target': m.target if m.type == M.Type.task else m.incarnation,
                         'values': bool(m.values)})
    return {'sent': sent, 'escaped': escaped,
            'registered': [m.type.name for m in unframe(CONNS[0].out)] if CONNS else []}


if __name__ == '__main__':
    import logging
    logging.disable(logging.CRITICAL)
    P = payload()
    result({'cases': [run_case(c) for c in P['cases']]})
