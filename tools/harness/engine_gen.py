'''engine_gen -- engine descriptors (DESIGN Appendix A.1) and their renderers.

A descriptor is plain JSON:

  {"base": "vae",
   "packages": [
     {"name": "p0",
      "task": [{"alg": "a0", "ver": [1,0,0],
                "svs": [{"name": "s0", "ver": [1,0,0],
                         "vals": [{"name": "v0", "ver": [1,0,0]}, ...]}, ...],
                "deps": [{"lvl": "alg|sv|v", "pkg": "p1", "fac": "task",
                          "alg": "a3", "sv": "s0", "val": "v1"}, ...],
                "feedback": [ ... same shape ... ],
                "where": "auto|cluster|cloud"}],
      "analysis": [...], "regress": [...],
      "events": [{"fac": "task", "alg": "a0", "moment": {"boot": true}}]}],
   "targets": ["T1", "T2"]}

Pure helpers (no dawgie import, usable from props/*.py):
  algorithms(desc)      iterate (pkg, kind, algdict) in descriptor order
  expand(desc, ref)     value-level names a reference denotes (as_vref)
  own_values(pkg, alg)  value-level names an algorithm owns
  NameTable             string <-> nat id table (0 is reserved for __all__)
  to_gallina(desc, tbl) the descriptor as a Gallina term of DV.Model.Dag.engine
  random_desc(rng, ...) random acyclic, resolved descriptor
  topo_rank(desc)       rank witness {(pkg, alg): rank} or None when cyclic

Renderer that needs the code under test (call only from a driver, after
``from hcommon import dawgie``):
  to_python(desc)       in-memory modules <base>.<pkg> with task / analysis /
                        regress / events factory functions; returns
                        (factories, works) where factories is keyed by
                        dawgie.Factories and works by (pkg, kind, alg)
  self_check(desc, factories)  asks the generated engine for its own
                        routines()/state_vectors()/previous()... and compares
                        with the descriptor (spot check of the renderer)
'''

KINDS = ('task', 'analysis', 'regress')
# dag.Construct builds analysis, then regress, then task
LEVELS = ('alg', 'sv', 'v')


# ---------------------------------------------------------------------------
# pure helpers
# ---------------------------------------------------------------------------


def algorithms(desc):
    for p in desc['packages']:
        for kind in KINDS:
            for a in p.get(kind, []):
                yield p['name'], kind, a


def find_alg(desc, pkg, kind, alg):
    for p in desc['packages']:
        if p['name'] == pkg:
            for a in p.get(kind, []):
                if a['alg'] == alg:
                    return a
    return None


def own_values(pkg, a):
    return [
        '.'.join([pkg, a['alg'], s['name'], v['name']])
        for s in a['svs']
        for v in s['vals']
    ]


def expand(desc, r):
    '''value-level names the reference r denotes (semantics of
    dawgie.util.as_vref + vref_as_name).  A V reference is taken literally
    (as_vref does not look the feature up); ALG / SV references enumerate the
    referenced object.'''
    a = find_alg(desc, r['pkg'], r['fac'], r['alg'])
    if r['lvl'] == 'v':
        return ['.'.join([r['pkg'], r['alg'], r['sv'], r['val']])]
    if a is None:
        return []
    out = []
    for s in a['svs']:
        if r['lvl'] == 'sv' and s['name'] != r['sv']:
            continue
        out += ['.'.join([r['pkg'], a['alg'], s['name'], v['name']])
                for v in s['vals']]
        if r['lvl'] == 'sv':
            break
    return out


def topo_rank(desc):
    '''{(pkg, alg): rank} with rank(input) < rank(consumer) for every declared
    (non-feedback) input, rank < number of algorithms; None when cyclic.'''
    algs = [(p, a['alg']) for p, _, a in algorithms(desc)]
    deps = {}
    for p, _, a in algorithms(desc):
        deps.setdefault((p, a['alg']), set()).update(
            (r['pkg'], r['alg']) for r in a.get('deps', []))
    rank = {}
    state = {}

    def visit(n):
        if n in rank:
            return True
        if state.get(n) == 1:
            return False
        state[n] = 1
        m = 0
        for d in sorted(deps.get(n, ())):
            if not visit(d):
                return False
            m = max(m, rank[d] + 1)
        rank[n] = m
        state[n] = 2
        return True

    for n in algs:
        if not visit(n):
            return None
    return rank


class NameTable:
    '''string <-> nat id; id 0 is reserved (``__all__`` in the scheduler
    models); ids are handed out in first-use order.'''

    def __init__(self):
        self.ids = {'__all__': 0}
        self.names = ['__all__']

    def id(self, s):
        if s not in self.ids:
            self.ids[s] = len(self.names)
            self.names.append(s)
        return self.ids[s]

    def name(self, i):
        return self.names[i]

    def dotted(self, s):
        '''"p.a.s.v" -> [ids]'''
        return [self.id(x) for x in s.split('.')]

    def undotted(self, ids):
        return '.'.join(self.names[i] for i in ids)


def _g_ver(v):
    d, i, b = (v or [1, 0, 0])
    return '(%d, %d, %d)%%Z' % (d, i, b)


def _g_list(xs):
    return '[' + '; '.join(xs) + ']'


def _g_ref(r, t):
    return 'mkRef %s %d %s %d %d %d' % (
        {'alg': 'LAlg', 'sv': 'LSv', 'v': 'LV'}[r['lvl']],
        t.id(r['pkg']),
        {'task': 'Task', 'analysis': 'Analysis', 'regress': 'Regress'}[r['fac']],
        t.id(r['alg']),
        t.id(r.get('sv') or '__all__'),
        t.id(r.get('val') or '__all__'),
    )


def _g_alg(a, t):
    svs = _g_list(
        'mkSv %d %s %s' % (
            t.id(s['name']), _g_ver(s.get('ver')),
            _g_list('(%d, %s)' % (t.id(v['name']), _g_ver(v.get('ver')))
                    for v in s['vals']))
        for s in a['svs'])
    return '(mkAlg %d %s %s %s %s)' % (
        t.id(a['alg']), _g_ver(a.get('ver')), svs,
        _g_list(_g_ref(r, t) for r in a.get('deps', [])),
        _g_list(_g_ref(r, t) for r in a.get('feedback', [])))


def to_gallina(desc, table=None):
    '''Gallina term of type DV.Model.Dag.engine (nat scope for ids).  Returns
    (term, table).'''
    t = table or NameTable()
    pk = []
    for p in desc['packages']:
        pk.append('mkPkg %d %s %s %s' % (
            t.id(p['name']),
            _g_list(_g_alg(a, t) for a in p.get('task', [])),
            _g_list(_g_alg(a, t) for a in p.get('analysis', [])),
            _g_list(_g_alg(a, t) for a in p.get('regress', []))))
    return '(' + _g_list(pk) + ')%nat', t


def random_desc(rng, npk=3, nalg=6, feedback=0.5, nsv=2, nval=2, ndep=3,
                kinds=('task', 'task', 'task', 'analysis', 'regress'),
                targets=('T1', 'T2')):
    '''random acyclic, resolved engine: algorithm i may depend only on
    algorithms created before it; feedback references point forward.'''
    pkgs = [{'name': 'p%d' % i, 'task': [], 'analysis': [], 'regress': [],
             'events': []} for i in range(rng.randint(1, npk))]
    made = []
    for i in range(rng.randint(2, nalg)):
        p = rng.choice(pkgs)
        kind = rng.choice(kinds)
        svs = [{'name': 's%d' % j, 'ver': [1, 0, 0],
                'vals': [{'name': 'v%d' % k, 'ver': [1, 0, 0]}
                         for k in range(rng.randint(1, nval))]}
               for j in range(rng.randint(1, nsv))]
        a = {'alg': 'a%d' % i, 'ver': [1, 0, 0], 'svs': svs, 'deps': [],
             'feedback': [], 'where': 'cluster'}
        for (pp, pk, pa) in rng.sample(made, min(len(made),
                                                 rng.randint(0, ndep))):
            a['deps'].append(random_ref(rng, pp, pk, pa))
        p[kind].append(a)
        made.append((p['name'], kind, a))
    if len(made) > 2:
        n = 0
        while rng.random() < feedback and n < 3:
            n += 1
            i = rng.randrange(0, len(made) - 1)
            j = rng.randrange(i + 1, len(made))
            (_, _, ca), (pp, pk, pa) = made[i], made[j]
            ca['feedback'].append(random_ref(rng, pp, pk, pa))
    return {'base': 'vae',
            'packages': [p for p in pkgs
                         if p['task'] or p['analysis'] or p['regress']],
            'targets': list(targets)}


def random_ref(rng, pkg, kind, a, lvl=None):
    lvl = lvl or rng.choice(LEVELS)
    sv = rng.choice(a['svs'])
    r = {'lvl': lvl, 'pkg': pkg, 'fac': kind, 'alg': a['alg']}
    if lvl in ('sv', 'v'):
        r['sv'] = sv['name']
    if lvl == 'v':
        r['val'] = rng.choice(sv['vals'])['name']
    return r


# ---------------------------------------------------------------------------
# descriptor -> in-memory python engine (needs the code under test)
# ---------------------------------------------------------------------------

_WHERE = {'auto': 'auto', 'cluster': 'cluster', 'cloud': 'cloud'}


def to_python(desc, tmpdir=None):
    '''install <base>.<pkg> modules in sys.modules; returns (factories, works).
    ``factories`` is {dawgie.Factories member: [factory function, ...]} in
    descriptor (package) order -- the shape dawgie.pl.scan produces.'''
    import sys
    import tempfile
    import types

    import dawgie
    import dawgie.context

    base = desc.get('base', 'vae')
    dawgie.context.ae_base_package = base
    if tmpdir is None:
        tmpdir = tempfile.mkdtemp(prefix='dv_engine_')
    dawgie.context.fe_path = tmpdir
    dawgie.context.data_dbs = tmpdir

    class Val(dawgie.Value):
        def __init__(self, ver=(1, 0, 0), content=None):
            dawgie.Value.__init__(self)
            self._version_ = dawgie.VERSION(*ver)
            self.content = content

        def features(self):
            return []

    def mk_sv(d):
        class SV(dawgie.StateVector):
            def __init__(self):
                dawgie.StateVector.__init__(self)
                self._version_ = dawgie.VERSION(*d.get('ver', (1, 0, 0)))
                for v in d['vals']:
                    self[v['name']] = Val(v.get('ver', (1, 0, 0)))

            def name(self):
                return d['name']

            def view(self, caller, visitor):
                return

        return SV()

    class _Work:
        # one concrete class per factory kind, each offering ONLY the
        # dependency accessor of its kind (previous / traits / variables)
        def __init__(self, d):
            super().__init__()
            self._version_ = dawgie.VERSION(*d.get('ver', (1, 0, 0)))
            self._d = d
            self._svs = [mk_sv(s) for s in d['svs']]
            self._deps = []
            self._fb = []

        def name(self):
            return self._d['alg']

        def feedback(self):
            return self._fb

        def run(self, *a, **k):
            return

        def state_vectors(self):
            return self._svs

        def where(self):
            return dawgie.Distribution[
                _WHERE.get(self._d.get('where', 'cluster'), 'cluster')]

    class AlgWork(_Work, dawgie.Algorithm):
        def previous(self):
            return self._deps

    class AnaWork(_Work, dawgie.Analyzer):
        def traits(self):
            return self._deps

    class RegWork(_Work, dawgie.Regression):
        def variables(self):
            return self._deps

    Work = {'task': AlgWork, 'analysis': AnaWork, 'regress': RegWork}

    for k in [k for k in sys.modules if k == base or k.startswith(base + '.')]:
        del sys.modules[k]
    root = types.ModuleType(base)
    root.__path__ = []
    sys.modules[base] = root
    works, facs = {}, {}
    factories = {e: [] for e in dawgie.Factories}
    for p in desc['packages']:
        pkg = p['name']
        mod = types.ModuleType('%s.%s' % (base, pkg))
        sys.modules[mod.__name__] = mod
        setattr(root, pkg, mod)
        for kind in KINDS:
            if not p.get(kind):
                continue
            lst = [Work[kind](a) for a in p[kind]]
            for w in lst:
                works[(pkg, kind, w.name())] = w
            if kind == 'task':
                class Bot(dawgie.Task):
                    _l = lst

                    def list(self):
                        return self._l

                def task(prefix: str, ps_hint: int = 0, runid: int = -1,
                         target: str = '__none__', _B=Bot):
                    return _B(prefix, ps_hint, runid, target)
                f = task
            elif kind == 'analysis':
                class Bot(dawgie.Analysis):
                    _l = lst

                    def list(self):
                        return self._l

                def analysis(prefix: str, ps_hint: int = 0, runid: int = -1,
                             _B=Bot):
                    return _B(prefix, ps_hint, runid)
                f = analysis
            else:
                class Bot(dawgie.Regress):
                    _l = lst

                    def list(self):
                        return self._l

                def regress(prefix: str, ps_hint: int = 0,
                            target: str = '__none__', _B=Bot):
                    return _B(prefix, ps_hint, target)
                f = regress
            f.__module__ = mod.__name__
            setattr(mod, f.__name__, f)
            facs[(pkg, kind)] = f
            factories[dawgie.Factories[f.__name__]].append(f)

    def mkref(r):
        f = facs[(r['pkg'], r['fac'])]
        w = works[(r['pkg'], r['fac'], r['alg'])]
        if r['lvl'] == 'alg':
            return dawgie.ALG_REF(f, w)
        sv = [s for s in w.state_vectors() if s.name() == r['sv']][0]
        if r['lvl'] == 'sv':
            return dawgie.SV_REF(f, w, sv)
        return dawgie.V_REF(f, w, sv, r['val'])

    for (pkg, kind, an), w in works.items():
        w._deps.extend(mkref(r) for r in w._d.get('deps', []))
        w._fb.extend(mkref(r) for r in w._d.get('feedback', []))

    for p in desc['packages']:
        evs = p.get('events') or []
        if not evs:
            continue
        mod = sys.modules['%s.%s' % (base, p['name'])]
        lst = []
        for e in evs:
            m = dict(boot=False, day=None, dom=None, dow=None, time=None)
            m.update(_moment(e['moment']))
            lst.append(dawgie.EVENT(
                dawgie.ALG_REF(facs[(p['name'], e['fac'])],
                               works[(p['name'], e['fac'], e['alg'])]),
                dawgie.MOMENT(**m)))

        def events(_l=lst):
            return list(_l)
        events.__module__ = mod.__name__
        mod.events = events
        factories[dawgie.Factories.events].append(events)
    return factories, works


def _moment(m):
    import datetime
    out = {}
    for k, v in m.items():
        if k == 'time' and isinstance(v, str):
            v = datetime.time.fromisoformat(v)
        if k == 'day' and isinstance(v, str):
            v = datetime.date.fromisoformat(v)
        out[k] = v
    return out


def self_check(desc, factories):
    '''ask the generated engine what it is and compare with the descriptor;
    returns a list of discrepancies (empty = renderer agrees).'''
    import dawgie
    import dawgie.util

    bad = []
    seen = {}
    for kind, dep in (('task', 'previous'), ('analysis', 'traits'),
                      ('regress', 'variables')):
        for f in factories[dawgie.Factories[kind]]:
            pkg = dawgie.util.task_name(f)
            bot = f(pkg, -1)
            for alg in bot.routines():
                seen[(pkg, kind, alg.name())] = (
                    [(sv.name(), list(sv)) for sv in alg.state_vectors()],
                    [dawgie.util.vref_as_name(v)
                     for v in dawgie.util.as_vref(getattr(alg, dep)())],
                    [dawgie.util.vref_as_name(v)
                     for v in dawgie.util.as_vref(alg.feedback())],
                    bot._name(),
                )
    want = {}
    for pkg, kind, a in algorithms(desc):
        want[(pkg, kind, a['alg'])] = (
            [(s['name'], [v['name'] for v in s['vals']]) for s in a['svs']],
            [n for r in a.get('deps', []) for n in expand(desc, r)],
            [n for r in a.get('feedback', []) for n in expand(desc, r)],
            pkg,
        )
    for k in sorted(set(seen) | set(want)):
        if seen.get(k) != want.get(k):
            bad.append((k, seen.get(k), want.get(k)))
    return bad
