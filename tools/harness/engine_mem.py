'''In-memory algorithm engines for the scheduler/farm drivers (from notes/probes/engine.py).

Builds an in-memory DAWGIE algorithm engine from a descriptor so that the real
dawgie.pl.dag.Construct / dawgie.pl.schedule can be driven without files.

descriptor = {'pkgs': {pkg: {'task': [alg,...], 'analysis': [...], 'regress': [...]}},
              }
alg = {'name': str, 'ver': (d,i,b), 'svs': [{'name':..,'ver':..,'vals':[(vname,(d,i,b)),..]}],
       'deps': [ref,...], 'fb': [ref,...]}
ref = ('alg'|'sv'|'v', pkg, fac, algname, svname|None, vname|None)
'''
import atexit, os, shutil, sys, types, tempfile, logging
from hcommon import dawgie
import dawgie.context
logging.disable(logging.CRITICAL)
BASE = 'vae'
dawgie.context.ae_base_package = BASE
_tmp = tempfile.mkdtemp(prefix='dvsched_')
atexit.register(shutil.rmtree, _tmp, True)
dawgie.context.fe_path = _tmp
dawgie.context.data_dbs = _tmp


class Val(dawgie.Value):
    def __init__(self, ver=(1, 0, 0), content=None):
        dawgie.Value.__init__(self)
        self._version_ = dawgie.VERSION(*ver)
        self.content = content

    def features(self):
        return []


def _mk_sv(name, ver, vals):
    class SV(dawgie.StateVector):
        def __init__(self):
            dawgie.StateVector.__init__(self)
            self._version_ = dawgie.VERSION(*ver)
            for vn, vv in vals:
                self[vn] = Val(vv)

        def name(self):
            return name

        def view(self, caller, visitor):
            return

    return SV()


class Work(dawgie.Algorithm, dawgie.Analyzer, dawgie.Regression):
    def __init__(self, d):
        dawgie.Algorithm.__init__(self)
        self._version_ = dawgie.VERSION(*d.get('ver', (1, 0, 0)))
        self._d = d
        self._svs = [_mk_sv(s['name'], s.get('ver', (1, 0, 0)), s['vals']) for s in d['svs']]
        self._deps = []
        self._fb = []

    def name(self):
        return self._d['name']

    def feedback(self):
        return self._fb

    def previous(self):
        return self._deps

    traits = previous
    variables = previous

    def run(self, *a, **k):
        return

    def state_vectors(self):
        return self._svs

    def where(self):
        # where the algorithm asks to run: left to the farm, on the cluster, or
        # in the cloud (no cloud provider is configured in the harness: the
        # farm must place all three on the cluster)
        w = self._d.get('where')
        if w is None:
            w = ('auto', 'cluster', 'cloud')[sum(map(ord, self._d['name'])) % 3]
        return getattr(dawgie.Distribution, w)


def build(desc):
    for k in [k for k in sys.modules if k == BASE or k.startswith(BASE + '.')]:
        del sys.modules[k]
    root = types.ModuleType(BASE)
    root.__path__ = []
    sys.modules[BASE] = root
    works, facs = {}, {}
    factories = {e: [] for e in dawgie.Factories}
    for pkg, kinds in desc['pkgs'].items():
        mod = types.ModuleType(f'{BASE}.{pkg}')
        sys.modules[mod.__name__] = mod
        setattr(root, pkg, mod)
        for kind, algs in kinds.items():
            lst = [Work(a) for a in algs]
            for w in lst:
                works[(pkg, kind, w.name())] = w
            if kind == 'task':
                class Bot(dawgie.Task):
                    _l = lst
                    def list(self):
                        return self._l
                def task(prefix: str, ps_hint: int = 0, runid: int = -1, target: str = '__none__', _B=Bot):
                    return _B(prefix, ps_hint, runid, target)
                f = task
            elif kind == 'analysis':
                class Bot(dawgie.Analysis):
                    _l = lst
                    def list(self):
                        return self._l
                def analysis(prefix: str, ps_hint: int = 0, runid: int = -1, _B=Bot):
                    return _B(prefix, ps_hint, runid)
                f = analysis
            else:
                class Bot(dawgie.Regress):
                    _l = lst
                    def list(self):
                        return self._l
                def regress(prefix: str, ps_hint: int = 0, target: str = '__none__', _B=Bot):
                    return _B(prefix, ps_hint, target)
                f = regress
            f.__module__ = mod.__name__
            setattr(mod, f.__name__, f)
            facs[(pkg, kind)] = f
            factories[dawgie.Factories[f.__name__]].append(f)

    def mkref(r):
        lvl, pkg, kind, an, svn, vn = r
        f, w = facs[(pkg, kind)], works[(pkg, kind, an)]
        if lvl == 'alg':
            return dawgie.ALG_REF(f, w)
        sv = [s for s in w.state_vectors() if s.name() == svn][0]
        if lvl == 'sv':
            return dawgie.SV_REF(f, w, sv)
        return dawgie.V_REF(f, w, sv, vn)

    for (pkg, kind, an), w in works.items():
        w._deps.extend(mkref(r) for r in w._d.get('deps', []))
        w._fb.extend(mkref(r) for r in w._d.get('fb', []))
    return factories, works


def expand(desc, r):
    '''value-level names a reference denotes (reference semantics of as_vref)'''
    lvl, pkg, kind, an, svn, vn = r
    a = [x for x in desc['pkgs'][pkg][kind] if x['name'] == an][0]
    out = []
    for s in a['svs']:
        if lvl != 'alg' and s['name'] != svn:
            continue
        for n, _ in s['vals']:
            if lvl == 'v' and n != vn:
                continue
            out.append('.'.join([pkg, an, s['name'], n]))
    return out


ALG_POOLS = [['a', 'a1', 'a10', 'a11', 'a1x', 'a2', 'a20', 'ab', 'a_', 'a1_0', 'a100', 'b'],
             ['fit', 'fit2', 'fitter', 'fi', 'cal', 'calib', 'cal2', 'c', 'sum', 'summary', 'su', 'f']]
PKG_POOLS = [['p', 'p1', 'p10'], ['net', 'net2', 'ne'], ['q', 'qq', 'q0']]


def confuse(desc, rng):
    '''rename packages and algorithms (a bijection, applied to declarations and
    references alike) so that names are proper prefixes of one another
    (a1 / a10, fit / fit2 / fitter, p1 / p10): code that matches names by
    prefix or by substring instead of by element behaves differently.'''
    algs = sorted({a['name'] for kinds in desc['pkgs'].values() for al in kinds.values() for a in al})
    pkgs = sorted(desc['pkgs'])
    apool = list(rng.choice(ALG_POOLS))
    ppool = list(rng.choice(PKG_POOLS))
    if len(algs) > len(apool) or len(pkgs) > len(ppool):
        return desc
    rng.shuffle(apool)
    rng.shuffle(ppool)
    am = dict(zip(algs, apool))
    pm = dict(zip(pkgs, ppool))

    def ref(r):
        r = list(r)
        r[1] = pm.get(r[1], r[1])
        r[3] = am.get(r[3], r[3])
        return tuple(r) if isinstance(r, tuple) else r

    out = {}
    for p, kinds in desc['pkgs'].items():
        nk = {}
        for k, al in kinds.items():
            nk[k] = [dict(a, name=am[a['name']], deps=[ref(tuple(d)) for d in a['deps']],
                          fb=[ref(tuple(d)) for d in a['fb']]) for a in al]
        out[pm[p]] = nk
    return {'pkgs': out}


def random_desc(rng, npk=3, nalg=6, feedback=True, confusable=0.5):
    d = _random_desc(rng, npk, nalg, feedback)
    return confuse(d, rng) if rng.random() < confusable else d


def fan_desc(rng, feedback=True, confusable=0.5):
    d = _fan_desc(rng, feedback)
    return confuse(d, rng) if rng.random() < confusable else d


def _random_desc(rng, npk=3, nalg=6, feedback=True):
    '''acyclic random engine: algorithm i may depend only on algorithms < i'''
    pkgs = {f'p{i}': {} for i in range(rng.randint(1, npk))}
    order = []
    for i in range(rng.randint(2, nalg)):
        pkg = rng.choice(sorted(pkgs))
        kind = rng.choice(['task', 'task', 'task', 'analysis', 'regress'])
        svs = [{'name': f's{j}', 'vals': [(f'v{k}', (1, 0, 0)) for k in range(rng.randint(1, 2))]}
               for j in range(rng.randint(1, 2))]
        a = {'name': f'a{i}', 'svs': svs, 'deps': [], 'fb': []}
        for (pp, pk, pa) in rng.sample(order, min(len(order), rng.randint(0, 3))):
            lvl = rng.choice(['alg', 'sv', 'v'])
            sv = rng.choice(pa['svs'])
            a['deps'].append((lvl, pp, pk, pa['name'], sv['name'], rng.choice(sv['vals'])[0]))
        pkgs[pkg].setdefault(kind, []).append(a)
        order.append((pkg, kind, a))
    if feedback and len(order) > 2 and rng.random() < 0.5:
        # feedback: an early algorithm consumes a value of a later one
        (cp, ck, ca), (pp, pk, pa) = order[0], order[-1]
        sv = pa['svs'][0]
        ca['fb'].append(('v', pp, pk, pa['name'], sv['name'], sv['vals'][0][0]))
    return {'pkgs': {k: v for k, v in pkgs.items() if v}}


def _fan_desc(rng, feedback=True):
    '''engines with fan-out at value level: a root with several state vectors and
    values, children that each read a different part of it (value / sv / alg level),
    grandchildren, an analysis at the bottom, optionally a feedback loop.'''
    def svs(i):
        return [{'name': f's{j}', 'vals': [(f'v{k}', (1, 0, 0)) for k in range(rng.randint(1, 3))]}
                for j in range(rng.randint(1, 2))]
    algs = []
    root = {'name': 'a0', 'svs': svs(0), 'deps': [], 'fb': []}
    algs.append(('p0', 'task', root))
    nkids = rng.randint(2, 4)
    for i in range(1, nkids + 1):
        a = {'name': f'a{i}', 'svs': svs(i), 'deps': [], 'fb': []}
        par = rng.choice([root] + [x[2] for x in algs[1:]][:1])
        sv = rng.choice(par['svs'])
        lvl = rng.choice(['v', 'v', 'sv', 'alg'])
        a['deps'].append((lvl, 'p0', 'task', par['name'], sv['name'], rng.choice(sv['vals'])[0]))
        if rng.random() < 0.3:
            sv2 = rng.choice(root['svs'])
            a['deps'].append(('v', 'p0', 'task', 'a0', sv2['name'], rng.choice(sv2['vals'])[0]))
        algs.append(('p0', 'task', a))
    for i in range(nkids + 1, nkids + 1 + rng.randint(1, 2)):
        kind = rng.choice(['task', 'analysis', 'regress'])
        a = {'name': f'a{i}', 'svs': svs(i), 'deps': [], 'fb': []}
        for (pp, pk, pa) in rng.sample(algs[1:], rng.randint(1, 2)):
            sv = rng.choice(pa['svs'])
            a['deps'].append((rng.choice(['v', 'sv']), pp, pk, pa['name'], sv['name'], rng.choice(sv['vals'])[0]))
        algs.append(('p1', kind, a))
    if feedback and rng.random() < 0.4:
        (pp, pk, pa) = algs[-1]
        sv = pa['svs'][0]
        root['fb'].append(('v', pp, pk, pa['name'], sv['name'], sv['vals'][0][0]))
    pkgs = {}
    for p, k, a in algs:
        pkgs.setdefault(p, {}).setdefault(k, []).append(a)
    return {'pkgs': pkgs}
